-------------------------- MODULE GlobalSinkTrace --------------------------
(***************************************************************************)
(* Trace validation (T direction) for C17: is an execution recorded from   *)
(* the real global sink - appender threads calling try_append while other  *)
(* threads attach background queues and drop their attach handles - a      *)
(* behaviour of GlobalDetach?                                              *)
(*                                                                         *)
(* Logged: TryStart/TryEnd(ok), ObsStart/ObsEnd(is_attached() result),     *)
(* AttachStart/AttachEnd(ok),                                              *)
(* DetachStart/DetachEnd by the calling threads; Next/Flush/Close by the   *)
(* recording streams inside the queues' writer threads (field s = the      *)
(* stream's tag "1".."3").  The instants at which a call takes effect are  *)
(* not observable: they are silent steps that TLC places between the       *)
(* call's start and end events.  Events the harness logs when something    *)
(* that must not happen did (Panic of try_append, Timeout of a handle      *)
(* drop) are consumed by no action: the trace is rejected there.           *)
(***************************************************************************)
EXTENDS GlobalDetach, Json, IOUtils

Rec == ndJsonDeserialize(IOEnv.TRACE)
N == Len(Rec)
S3 == {1, 2, 3}
SId(x) == IF x = "1" THEN 1 ELSE IF x = "2" THEN 2 ELSE 3

VARIABLES l,    \* next line of the trace
          hint  \* search hint: entry |-> result its call will report (from the trace itself)
tvars == <<dvars, l, hint>>

Ev(name) == l <= N /\ Rec[l].ev = name
Adv == l' = l + 1

TInit == l = 1 /\ DInit(S3) /\ hint = <<>> /\ TLCSet(1, 1) /\ TLCSet(2, <<>>)

TReset ==
    /\ Ev("Reset") /\ Adv
    /\ aatt' = 0 /\ pendApp' = {} /\ linApp' = {} /\ okd' = {} /\ errd' = {}
    /\ accepted' = [s \in S3 |-> {}] /\ nexted' = [s \in S3 |-> <<>>] /\ nflushed' = [s \in S3 |-> 0]
    /\ closedS' = {} /\ astate' = [s \in S3 |-> "new"] /\ obs' = <<>> /\ hint' = <<>>

TTryStart == Ev("TryStart") /\ Adv /\ TryStart(Rec[l].p, Rec[l].e)
             /\ hint' = (Rec[l].e :> Rec[l].h) @@ hint
TTryEnd   == Ev("TryEnd") /\ Adv /\ TryEnd(Rec[l].p, Rec[l].e, Rec[l].ok = 1) /\ UNCHANGED hint
TAttStart == Ev("AttachStart") /\ Adv /\ AttachStart(Rec[l].s) /\ UNCHANGED hint
TAttEnd   == Ev("AttachEnd") /\ Adv /\ AttachEnd(Rec[l].s, Rec[l].ok = 1) /\ UNCHANGED hint
TDetStart == Ev("DetachStart") /\ Adv /\ DetachStart(Rec[l].s) /\ UNCHANGED hint
TDetEnd   == Ev("DetachEnd") /\ Adv /\ DetachEnd(Rec[l].s) /\ UNCHANGED hint
TNext     == Ev("Next") /\ Adv /\ Next(SId(Rec[l].s), Rec[l].e) /\ UNCHANGED hint
TFlush    == Ev("Flush") /\ Adv /\ Flush(SId(Rec[l].s)) /\ UNCHANGED hint
TClose    == Ev("Close") /\ Adv /\ Close(SId(Rec[l].s)) /\ UNCHANGED hint
TObsStart == Ev("ObsStart") /\ Adv /\ ObsStart(Rec[l].p) /\ UNCHANGED hint
TObsEnd   == Ev("ObsEnd") /\ Adv /\ ObsEnd(Rec[l].p, IF Rec[l].v = 1 THEN "yes" ELSE "no") /\ UNCHANGED hint
TQuiesce  == Ev("Quiesce") /\ Adv /\ Quiesced /\ UNCHANGED <<dvars, hint>>

\* silent: the instant a call takes effect.  The hint (the result the call reports later) only
\* prunes runs that could never be accepted.
SilentLinApp == /\ l <= N
                /\ \E pe \in pendApp : /\ (hint[pe[2]] = 1) = (aatt # 0)
                                       /\ LinApp(pe[1], pe[2])
                /\ UNCHANGED <<l, hint>>
SilentAtt == /\ l <= N
             /\ \E s \in S3 : LinAttach(s) \/ LinAttachFail(s) \/ LinDetach(s)
             /\ UNCHANGED <<l, hint>>
\* an is_attached() call reads at one instant; the value it will report prunes the search
SilentObs == /\ l <= N
             /\ \E p \in DOMAIN obs : LinObs(p)
             /\ UNCHANGED <<l, hint>>

TNext_ ==
    \/ TReset \/ TTryStart \/ TTryEnd \/ TAttStart \/ TAttEnd \/ TDetStart \/ TDetEnd
    \/ TNext \/ TFlush \/ TClose \/ TQuiesce \/ TObsStart \/ TObsEnd
    \/ SilentLinApp \/ SilentAtt \/ SilentObs

TSpec == TInit /\ [][TNext_]_tvars

\* high-water mark of consumed lines (register 1); needs -workers 1
Track ==
    /\ IF l > TLCGet(1) THEN TLCSet(1, l) /\ TLCSet(2, <<aatt, pendApp, linApp, astate, closedS, nflushed,
                                                         [s \in S3 |-> Len(nexted[s])]>>) ELSE TRUE
    /\ IF l = N + 1 THEN TLCSet("exit", TRUE) ELSE TRUE

Accepted ==
    IF TLCGet(1) = N + 1 THEN PrintT(<<"ACCEPTED", N>>)
    ELSE /\ PrintT(<<"REJECTED", TLCGet(1), ToJson(Rec[TLCGet(1)]), TLCGet(2)>>)
         /\ FALSE
=============================================================================
