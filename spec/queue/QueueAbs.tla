---------------------------- MODULE QueueAbs ----------------------------
(***************************************************************************)
(* Property layer for the background queue (C01, C04, C05, C09, C16-sink). *)
(*                                                                         *)
(* The least state the properties talk about: a bounded drop-oldest FIFO   *)
(* between producers and one writer, the sequence of entries handed to the *)
(* stream, flush / close marks, flush requests and the join handle.        *)
(* It is deliberately permissive: every step the properties allow is       *)
(* allowed; nothing about parking, deadlines, waker bookkeeping.           *)
(*                                                                         *)
(* Entries are positive integers, 0 is "none".                             *)
(*                                                                         *)
(* Used (1) by QueueTrace.tla, which checks executions recorded from the   *)
(* real BackgroundQueue against these actions, and (2) by                  *)
(* BackgroundQueue.tla (implementation-shaped), which TLC checks to refine *)
(* this module for every interleaving within small constants.              *)
(***************************************************************************)
EXTENDS Naturals, Sequences, FiniteSets, TLC

VARIABLES
    cap,      \* capacity of the queue
    q,        \* queued entries, oldest first
    pending,  \* <<p,e>>: append of e by p started, not yet linearized
    linned,   \* <<p,e>>: linearized, append has not returned yet
    ended,    \* entries whose append has returned
    cur,      \* entry popped by the writer and not yet handed to the stream (0 = none)
    nexted,   \* sequence of entries handed to the stream
    lastRes,  \* result of the last stream hand-off: none|ok|val|io|report
    lost,     \* entries displaced by overflow
    flushed,  \* entries handed to the stream before the last stream flush
    unflushed,\* number of hand-offs since the last stream flush
    closed,   \* the stream has been dropped
    before,   \* flush request f |-> set of entries appended before it
    fdone,    \* completed flush requests
    hs,       \* join handle: held | dropping | dropped | forgotten
    snap,     \* entries appended before the handle drop began
    sinks     \* live queue handles

avars == <<cap, q, pending, linned, ended, cur, nexted, lastRes, lost, flushed, unflushed,
           closed, before, fdone, hs, snap, sinks>>

Range(s) == {s[i] : i \in 1..Len(s)}

AInit(c, n) ==
    /\ cap = c /\ q = <<>> /\ pending = {} /\ linned = {} /\ ended = {} /\ cur = 0
    /\ nexted = <<>> /\ lastRes = "none" /\ lost = {} /\ flushed = {} /\ unflushed = 0
    /\ closed = FALSE /\ before = <<>> /\ fdone = {} /\ hs = "held" /\ snap = {} /\ sinks = n

\* ---- producers -----------------------------------------------------------
AppStart(p, e) ==
    /\ pending' = pending \cup {<<p, e>>}
    /\ UNCHANGED <<cap, q, linned, ended, cur, nexted, lastRes, lost, flushed, unflushed,
                   closed, before, fdone, hs, snap, sinks>>

\* the linearization point of append: never blocks, never fails (C09); a full queue
\* displaces its oldest entry
Lin(p, e) ==
    /\ <<p, e>> \in pending
    /\ pending' = pending \ {<<p, e>>}
    /\ linned' = linned \cup {<<p, e>>}
    /\ IF Len(q) >= cap
         THEN /\ q' = Append(Tail(q), e)
              /\ lost' = lost \cup {Head(q)}
         ELSE /\ q' = Append(q, e)
              /\ UNCHANGED lost
    /\ UNCHANGED <<cap, ended, cur, nexted, lastRes, flushed, unflushed, closed, before, fdone,
                   hs, snap, sinks>>

AppEnd(p, e) ==
    /\ <<p, e>> \in linned
    /\ linned' = linned \ {<<p, e>>}
    /\ ended' = ended \cup {e}
    /\ UNCHANGED <<cap, q, pending, cur, nexted, lastRes, lost, flushed, unflushed, closed,
                   before, fdone, hs, snap, sinks>>

\* ---- writer ----------------------------------------------------------------
Pop ==
    /\ cur = 0 /\ q # <<>> /\ ~closed
    /\ cur' = Head(q) /\ q' = Tail(q)
    /\ UNCHANGED <<cap, pending, linned, ended, nexted, lastRes, lost, flushed, unflushed,
                   closed, before, fdone, hs, snap, sinks>>

\* exactly the popped entry is handed over, once; its result (ok|val|io) does not matter
\* for anything that follows (C01 / C16)
Next(e, res) ==
    /\ cur = e /\ e # 0 /\ ~closed
    /\ cur' = 0
    /\ nexted' = Append(nexted, e)
    /\ unflushed' = unflushed + 1
    /\ lastRes' = res
    /\ UNCHANGED <<cap, q, pending, linned, ended, lost, flushed, closed, before, fdone, hs,
                   snap, sinks>>

\* the queue's own in-band error report: only directly after a validation failure
Report ==
    /\ lastRes = "val" /\ ~closed
    /\ lastRes' = "report"
    /\ UNCHANGED <<cap, q, pending, linned, ended, cur, nexted, lost, flushed, unflushed,
                   closed, before, fdone, hs, snap, sinks>>

Flush ==
    /\ ~closed
    /\ flushed' = Range(nexted) /\ unflushed' = 0
    /\ UNCHANGED <<cap, q, pending, linned, ended, cur, nexted, lastRes, lost, closed, before,
                   fdone, hs, snap, sinks>>

\* the stream is dropped only flushed, and never while an entry is in the writer's hands
Close ==
    /\ ~closed /\ cur = 0 /\ unflushed = 0
    /\ closed' = TRUE
    /\ UNCHANGED <<cap, q, pending, linned, ended, cur, nexted, lastRes, lost, flushed,
                   unflushed, before, fdone, hs, snap, sinks>>

\* ---- flush requests (C04) ---------------------------------------------------
FlushReq(f) ==
    /\ f \notin DOMAIN before
    /\ before' = before @@ (f :> ended)
    /\ UNCHANGED <<cap, q, pending, linned, ended, cur, nexted, lastRes, lost, flushed,
                   unflushed, closed, fdone, hs, snap, sinks>>

Barrier(f) == before[f] \subseteq (lost \cup flushed)

FlushDone(f) ==
    /\ f \in DOMAIN before /\ f \notin fdone
    /\ closed \/ Barrier(f)
    /\ fdone' = fdone \cup {f}
    /\ UNCHANGED <<cap, q, pending, linned, ended, cur, nexted, lastRes, lost, flushed,
                   unflushed, closed, before, hs, snap, sinks>>

\* ---- join handle and queue handles (C05) -----------------------------------
DropStart ==
    /\ hs = "held" /\ hs' = "dropping" /\ snap' = ended
    /\ UNCHANGED <<cap, q, pending, linned, ended, cur, nexted, lastRes, lost, flushed,
                   unflushed, closed, before, fdone, sinks>>

ShutdownComplete(s) == closed /\ cur = 0 /\ unflushed = 0 /\ s \subseteq (lost \cup Range(nexted))

DropEnd ==
    /\ hs = "dropping" /\ ShutdownComplete(snap)
    /\ hs' = "dropped"
    /\ UNCHANGED <<cap, q, pending, linned, ended, cur, nexted, lastRes, lost, flushed,
                   unflushed, closed, before, fdone, snap, sinks>>

Forget ==
    /\ hs = "held" /\ hs' = "forgotten"
    /\ UNCHANGED <<cap, q, pending, linned, ended, cur, nexted, lastRes, lost, flushed,
                   unflushed, closed, before, fdone, snap, sinks>>

SinkClone ==
    /\ sinks > 0 /\ sinks' = sinks + 1
    /\ UNCHANGED <<cap, q, pending, linned, ended, cur, nexted, lastRes, lost, flushed,
                   unflushed, closed, before, fdone, hs, snap>>

SinkDrop ==
    /\ sinks > 0 /\ sinks' = sinks - 1
    /\ UNCHANGED <<cap, q, pending, linned, ended, cur, nexted, lastRes, lost, flushed,
                   unflushed, closed, before, fdone, hs, snap>>

\* The harness has waited its (generous) budget for everything that must eventually happen:
\* after a forgotten handle and the last queue handle dropped, the queue has shut down by
\* itself with everything written; every flush request has completed.
Quiesced ==
    /\ pending = {} /\ linned = {}
    /\ (hs = "forgotten" /\ sinks = 0) => ShutdownComplete(ended)
    /\ DOMAIN before \subseteq fdone

\* the overflow counter equals the number of displaced entries (C09)
OverflowCount(n) == pending = {} /\ linned = {} /\ n = Cardinality(lost)

\* ---- invariants of the property layer ----------------------------------------
ExactlyOnce == \A i, j \in 1..Len(nexted) : nexted[i] = nexted[j] => i = j
LostNotWritten == lost \cap Range(nexted) = {}
NothingAfterClose == closed => cur = 0
FlushedIsWritten == flushed \subseteq Range(nexted)
AbsInv == ExactlyOnce /\ LostNotWritten /\ NothingAfterClose /\ FlushedIsWritten
=============================================================================
