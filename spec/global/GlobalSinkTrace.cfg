SPECIFICATION TSpec
CONSTRAINT Track
INVARIANT DInv
POSTCONDITION Accepted
CHECK_DEADLOCK FALSE
