-------------------------- MODULE StreamCombReplay --------------------------
(***************************************************************************)
(* Behaviour generator for StreamComb: every behaviour of exactly MaxOps    *)
(* root calls is printed as one JSON line: the topology, the calls with the *)
(* scripted leaf answers, and what the model expects: per step the root's   *)
(* result and the leaf calls it caused (leaf, entry, fields seen, answer);  *)
(* at the end every leaf's log, flush count and the global call order.      *)
(* `sc` (harness/src/bin/sc.rs) builds the topology from the real           *)
(* combinators over scripted leaves and reports the same observations.      *)
(***************************************************************************)
EXTENDS StreamComb, Json, TLC

Emit == Len(hist) = MaxOps =>
          PrintT(<<"REPLAY", ToJson([topo |-> topo, leaves |-> LR, steps |-> hist,
                                     log |-> log, nflush |-> nflush, order |-> order])>>)
=============================================================================
