"""X03: the entry-definition surface beyond #[metrics] (extension of the specification, DESIGN.md section 8/10).

(a) spec/entryderive/EntryDerive.tla      the writer-side `#[derive(Entry)]` as a type-tree builder machine: TLC enumerates
    spec/entryderive/EntryDeriveReplay.tla finished trees (exhaustively within small bounds, by -simulate beyond) with the
    spec/entryderive/EntryDeriveNeg.tla    ordered EntryWriter calls and sample-group pairs the documented expansion
    tools/gen_entryderive.py               produces; the trees become Rust programs using the real derive
    harness-entry/                         (compiled against the working tree); rejected definitions must fail to compile
                                           with the documented diagnostic
(c) spec/instrument/Instrument.tla(+Replay)  Instrumented / instrument_async / on_error / on_success / emit / into_parts /
                                           split_metrics_to over poll / complete / drop histories: entries emitted exactly
                                           once at the documented moment; replayed on real futures (harness/src/bin/flexi.rs)
(b) spec/flex/Flex.tla(+Replay)            Flex dynamic fields: create / with_* / set / clear / close under the surrounding
                                           #[metrics] configurations; exactly the documented item or none, close exactly once
"""
import collections, json, os, re, shutil, subprocess, sys, time
from concurrent.futures import ThreadPoolExecutor
import vlib
from vlib import log

sys.path.insert(0, os.path.join(vlib.VERIF, "tools"))
import gen_entryderive as ge

SPEC_ED = os.path.join(vlib.SPEC, "entryderive")
SPEC_IN = os.path.join(vlib.SPEC, "instrument")
SPEC_FX = os.path.join(vlib.SPEC, "flex")
DEFAULT_CRATE = os.path.join(vlib.VERIF, "harness-entry")

RAS = ["none", "lowercase", "UPPERCASE", "PascalCase", "camelCase", "snake_case", "SCREAMING_SNAKE_CASE", "kebab-case",
       "SCREAMING-KEBAB-CASE"]
FORMS = ["s_named", "s_tuple", "s_unit", "e1_named", "e1_tuple", "e3_named", "e3_tuple", "e3_unit"]
EDGES = ["plain", "some", "none", "box"]
VALUE_KINDS = ["u64", "str", "sg", "fmt", "optnone", "optsome"]
LEAF_KINDS = VALUE_KINDS + [k + "@" for k in VALUE_KINDS] + ["ignore", "ts"]

BUDGET = {
    "quick": {"small_total": 3, "small_bind": 900, "sim_walks": 600, "sim_bind": 900, "chain_walks": 120, "chain_bind": 150,
              "bins": 12, "neg": True,
              "instr_depth": 7, "flex_depth": 5},
    "thorough": {"small_total": 4, "small_bind": 20000, "sim_walks": 12000, "sim_bind": 20000, "chain_walks": 2000,
                 "chain_bind": 3000, "bins": 32, "neg": True,
                 "instr_depth": 9, "flex_depth": 7},
}


def tla_set(xs):
    return "{" + ", ".join('"%s"' % x for x in sorted(xs)) + "}"


# --------------------------------------------------------------------------------------------
# (a) the crate the generated programs live in (same scheme as checks/chk_naming.py)
# --------------------------------------------------------------------------------------------
def crate_layout():
    harness = os.path.realpath(vlib.HARNESS)
    with open(os.path.join(harness, "Cargo.toml")) as f:
        htoml = f.read()
    m = re.search(r'metrique = \{ path = "([^"]+)/metrique"', htoml)
    if not m:
        raise vlib.ToolError("cannot find the metrique path dependency in the harness Cargo.toml")
    hrepo = m.group(1)
    repo = os.environ.get("VERIF_REPO", hrepo).rstrip("/")
    default = harness == os.path.realpath(os.path.join(vlib.VERIF, "harness")) and repo == hrepo
    if os.environ.get("VERIF_ENTRY_HARNESS"):
        crate = os.environ["VERIF_ENTRY_HARNESS"]
    elif default:
        crate = DEFAULT_CRATE
    elif repo == hrepo:
        crate = harness + "-entry"
    else:
        crate = os.path.join(os.path.dirname(repo), "he-" + os.path.basename(repo))
    target = os.path.relpath(os.path.join(harness, "target"), crate) if repo == hrepo else "target"
    return crate, repo, hrepo, htoml, target


def ensure_crate():
    crate, repo, hrepo, htoml, target = crate_layout()
    deps = htoml[htoml.index("[workspace]"):].replace(hrepo + "/", repo + "/")
    toml = ('[package]\nname = "vharness-entry"\nversion = "0.0.0"\nedition = "2024"\npublish = false\n'
            'autobins = true\n\n# dependencies and profile are those of harness/Cargo.toml so that the compiled dependency\n'
            '# tree in the shared target directory is reused (kept in sync by checks/chk_x_entryderive.py)\n' + deps)
    cfg = ('[net]\noffline = true\n[build]\ntarget-dir = "%s"\n'
           'rustflags = ["--cfg", "metrique_verif", "--check-cfg", "cfg(metrique_verif)"]\n' % target)
    os.makedirs(os.path.join(crate, ".cargo"), exist_ok=True)
    os.makedirs(os.path.join(crate, "src", "bin"), exist_ok=True)

    def put(path, text):
        old = None
        if os.path.exists(path):
            with open(path) as f:
                old = f.read()
        if old != text:
            with open(path, "w") as f:
                f.write(text)
            return True
        return False

    changed = put(os.path.join(crate, "Cargo.toml"), toml)
    put(os.path.join(crate, ".cargo", "config.toml"), cfg)
    lock = os.path.join(crate, "Cargo.lock")
    if changed or not os.path.exists(lock):
        shutil.copyfile(os.path.join(os.path.realpath(vlib.HARNESS), "Cargo.lock"), lock)
    if os.path.realpath(crate) != os.path.realpath(DEFAULT_CRATE):
        shutil.copyfile(os.path.join(DEFAULT_CRATE, "src", "lib.rs"), os.path.join(crate, "src", "lib.rs"))
    tdir = os.path.normpath(os.path.join(crate, target))
    return crate, repo, tdir


def cargo(crate, bins, keep_going=False, json_messages=False):
    cmd = ["cargo", "build", "--offline", "--quiet"]
    if keep_going:
        cmd.append("--keep-going")
    if json_messages:
        cmd.append("--message-format=json")
    for b in bins:
        cmd += ["--bin", b]
    env = dict(os.environ, CARGO_NET_OFFLINE="true", CARGO_INCREMENTAL="0")
    t = time.time()
    p = subprocess.run(cmd, cwd=crate, env=env, stdout=subprocess.PIPE, stderr=subprocess.PIPE if json_messages else subprocess.STDOUT,
                       text=True)
    return p, time.time() - t


def run_exe(tdir, name):
    exe = os.path.join(tdir, "debug", name)
    try:
        p = subprocess.run([exe], stdout=subprocess.PIPE, stderr=subprocess.PIPE, text=True, timeout=600,
                           env=dict(os.environ, RUST_BACKTRACE="0"))
    except subprocess.TimeoutExpired:
        raise vlib.ToolError(f"{name} timed out")
    if p.returncode != 0:
        sys.stdout.write(p.stderr[-3000:])
        raise vlib.ToolError(f"{name} exited {p.returncode}")
    return {o["id"]: o for o in (json.loads(l) for l in p.stdout.splitlines() if l.strip())}


# --------------------------------------------------------------------------------------------
# (a) TLC: model checking + behaviour families
# --------------------------------------------------------------------------------------------
def write_cfg(chk, name, consts, header, spec="Spec", inv="Emit"):
    lines = ["\\* generated by checks/chk_x_entryderive.py (seed %d): %s" % (chk.seed, header), "CONSTANTS"]
    for k, v in consts.items():
        lines.append(f"  {k} = {v}")
    lines += [f"SPECIFICATION {spec}", f"INVARIANT {inv}", "CHECK_DEADLOCK FALSE", ""]
    path = os.path.join(chk.dir, name)
    with open(path, "w") as f:
        f.write("\n".join(lines))
    return path


def ed_families(chk, tier):
    """-> list of (family, cfg path, simulate walks or None, depth)"""
    b = BUDGET[tier]
    rng = chk.rng
    fams = []
    # names: every container form x rename_all x variant rename_all, each holding every leaf kind once (seeded order)
    names = {"MaxDepth": 1, "MaxFields": 14, "MaxTotal": 14, "Styles": tla_set(RAS), "VStyles": tla_set(RAS[1:] + ["inherit"]),
             "Kinds": tla_set(LEAF_KINDS), "Forms": tla_set(FORMS), "Edges": "{}", "ScriptKinds": tla_set(LEAF_KINDS),
             "ScriptRot": rng.randrange(14), "ScriptRev": "TRUE" if rng.random() < 0.5 else "FALSE"}
    fams.append(("names", write_cfg(chk, "MC_ed_names.cfg", names, "names family (exhaustive)"), None, None))
    # small trees, exhaustive over a seeded cross-section of the attribute domains
    kinds = {"ts", rng.choice(["sg", "sg@"])} | set(rng.sample(LEAF_KINDS, 3 if tier == "quick" else 4))
    forms = {"s_named", rng.choice(["s_tuple", "e1_tuple", "e3_tuple"]), rng.choice(["e1_named", "e3_named"])}
    if tier != "quick":
        forms.add(rng.choice(FORMS))
    small = {"MaxDepth": 3, "MaxFields": 3, "MaxTotal": b["small_total"], "Styles": tla_set(rng.sample(RAS, 1)),
             "VStyles": tla_set(["inherit", rng.choice(RAS[1:])]), "Kinds": tla_set(kinds), "Forms": tla_set(forms),
             "Edges": tla_set({"plain", rng.choice(EDGES[1:])}), "ScriptKinds": "{}", "ScriptRot": 0, "ScriptRev": "FALSE"}
    fams.append(("small", write_cfg(chk, "MC_ed_small.cfg", small, "small trees (exhaustive)"), None, None))
    # large trees by random walks
    sim = {"MaxDepth": 4, "MaxFields": 6, "MaxTotal": 14, "Styles": tla_set(rng.sample(RAS, 3)),
           "VStyles": tla_set(["inherit"] + rng.sample(RAS[1:], 2)), "Kinds": tla_set(LEAF_KINDS),
           "Forms": tla_set(rng.sample(FORMS, 5) + ["s_named"]), "Edges": tla_set(EDGES), "ScriptKinds": "{}",
           "ScriptRot": 0, "ScriptRev": "FALSE"}
    fams.append(("sim", write_cfg(chk, "MC_ed_sim.cfg", sim, "large trees (-simulate)"), b["sim_walks"], 60))
    # long sample-group chains (the derive chains the iterators as a balanced binary tree)
    chain = {"MaxDepth": 2, "MaxFields": 13, "MaxTotal": 18, "Styles": tla_set(rng.sample(RAS, 2)),
             "VStyles": tla_set(["inherit"]), "Kinds": tla_set(["sg", "sg@", "u64"]),
             "Forms": tla_set(["s_named", "e3_named"]), "Edges": tla_set(["plain", "some"]), "ScriptKinds": "{}",
             "ScriptRot": 0, "ScriptRev": "FALSE"}
    fams.append(("chain", write_cfg(chk, "MC_ed_chain.cfg", chain, "sample-group chains (-simulate)"), b["chain_walks"], 60))
    chk.extra["ed_bounds"] = {"names": names, "small": small, "sim": sim, "chain": chain}
    return fams


def fast_replay_lines(out, tag="REPLAY"):
    """PrintT(<<"REPLAY", ToJson(x)>>) lines -> python objects (a TLA+ string literal escapes like JSON does)"""
    pre = '<<"%s", ' % tag
    res = []
    for l in out.splitlines():
        if l.startswith(pre) and l.endswith(">>"):
            res.append(json.loads(json.loads(l[len(pre):-2])))
    return res


def ed_tlc(chk, tier):
    """-> {family: [line, ..]}"""
    cache = os.path.join(vlib.RUNS, "_x03_tlc", f"ed-{tier}-{chk.seed}.json")
    if os.environ.get("VERIF_X03_REUSE_TLC") and os.path.exists(cache):
        with open(cache) as f:
            c = json.load(f)
        chk.models += c["models"]
        chk.states += c["states"]
        chk.transitions += c["transitions"]
        chk.extra["ed_bounds"] = c["bounds"]
        chk.extra["ed_tlc_reused"] = True
        return c["out"]
    m0, s0, t0 = len(chk.models), chk.states, chk.transitions
    if not vlib.SKIP_MC:
        r = vlib.model_check(SPEC_ED, "EntryDerive", "MC_ed.cfg", timeout=1200)
        chk.add_model("EntryDerive/MC_ed.cfg", r)
        for a in ("RootAny", "FieldAny", "OpenAny", "Close", "Finish"):
            if not r.coverage.get(a):
                raise vlib.ToolError(f"vacuity: action {a} of EntryDerive.tla is never taken in MC_ed.cfg")
    out = {}
    for fam, cfg, walks, depth in ed_families(chk, tier):
        r = vlib.tlc(SPEC_ED, "EntryDeriveReplay", cfg, timeout=1800, simulate=walks, depth=depth,
                     seed=chk.seed if walks else None)
        if r.errors or (not walks and not r.no_error):
            sys.stdout.write(r.out[-3000:])
            raise vlib.ToolError(f"EntryDeriveReplay/{fam} failed: {r.errors[:2]}")
        lines = fast_replay_lines(r.out)
        r.out = ""
        if walks:
            # a walk is a behaviour, not a state
            seen = set()
            uniq = []
            for l in lines:
                k = json.dumps(l["toks"], sort_keys=True)
                if k not in seen:
                    seen.add(k)
                    uniq.append(l)
            lines = uniq
        chk.add_model(f"EntryDeriveReplay/{fam}" + (f" (-simulate num={walks})" if walks else ""), r)
        log(f"[tlc] EntryDeriveReplay/{fam}: {len(lines)} finished trees ({r.distinct} states) in {r.wall:.1f}s")
        if not lines:
            raise vlib.ToolError(f"EntryDeriveReplay/{fam} printed no behaviours")
        out[fam] = lines
    if os.environ.get("VERIF_X03_REUSE_TLC"):
        os.makedirs(os.path.dirname(cache), exist_ok=True)
        with open(cache, "w") as f:
            json.dump({"models": chk.models[m0:], "states": chk.states - s0, "transitions": chk.transitions - t0,
                       "bounds": chk.extra["ed_bounds"], "out": out}, f)
    return out


# --------------------------------------------------------------------------------------------
# (a) comparison
# --------------------------------------------------------------------------------------------
def seq(x):
    """ToJson of an empty sequence may come back as [] or {}"""
    return list(x) if isinstance(x, list) else ([] if not x else [x[k] for k in sorted(x, key=int)])


class EdComparer:
    def __init__(self, chk):
        self.chk = chk
        self.by_key = collections.Counter()
        self.items = 0
        self.pairs = 0
        self.instances = 0
        self.feat = collections.Counter()
        self.sg_order_drift = 0

    def report(self, aspect, what, fam, bid, line, got):
        key = f"X03:derive:{aspect}"
        self.by_key[key] += 1
        if self.by_key[key] > 2:
            return
        self.chk.violation(f"#[derive(Entry)] {what} [family {fam}, behaviour {bid}]",
                           {"kind": "entryderive", "family": fam, "toks": line["toks"], "expected_items": line["items"],
                            "expected_sg": line["sg"], "got": got}, key=key)

    def compare(self, fam, bid, line, got):
        self.instances += 1
        toks = line["toks"]
        for t in toks:
            if t["t"] == "F":
                self.feat["kind:" + t["k"]] += 1
            elif t["t"] == "O":
                self.feat["edge:" + t["edge"]] += 1
                self.feat["form:" + t["form"]] += 1
            elif t["t"] == "C":
                self.feat["form:" + t["form"]] += 1
        exp = [(i["n"], i["k"], i["v"]) for i in seq(line["items"])]
        esg = [(p["k"], p["v"]) for p in seq(line["sg"])]
        self.items += len(exp)
        self.pairs += len(esg)
        if len(esg) >= 9:
            self.feat["sg_chain>=9"] += 1
        if got is None:
            raise vlib.ToolError(f"no output for behaviour {bid}")
        if "panic" in got:
            self.report("panic", f"the program panicked while writing the entry: {got['panic']}", fam, bid, line, got)
            return
        gi = [tuple(x) for x in got["items"]]
        gs = [tuple(x) for x in got["sg"]]
        if gi != exp:
            ec, gc = collections.Counter(exp), collections.Counter(gi)
            missing = list((ec - gc).elements())
            extra = list((gc - ec).elements())
            if not missing and not extra:
                self.report("order", f"items are written in a different order than the fields are declared: expected {exp}, got {gi}",
                            fam, bid, line, got)
            used = set()
            for it in missing:
                # the emitted item of the same field: same kind + value (values are the depth-first field indices)
                cand = [j for j, e in enumerate(extra) if j not in used and e[1:] == it[1:]]
                if not cand:
                    cand = [j for j, e in enumerate(extra) if j not in used and e[0] == it[0] and e[0]]
                if cand:
                    e = extra[cand[0]]
                    used.add(cand[0])
                    if e[0] != it[0]:
                        self.report("name", f"a field is written under the name {e[0]!r}, the documented name is {it[0]!r}", fam, bid, line, got)
                    elif e[1] != it[1]:
                        self.report("kind", f"item {it[0]!r} is written as {e[1]}, expected {it[1]}", fam, bid, line, got)
                    else:
                        self.report("value", f"item {it[0]!r} has value {e[2]!r}, expected {it[2]!r}", fam, bid, line, got)
                elif it[1] == "timestamp":
                    self.report("timestamp-missing", f"the #[entry(timestamp)] field (t={it[2]}) did not reach EntryWriter::timestamp", fam, bid, line, got)
                else:
                    self.report("missing", f"no item for a present field: expected {it!r}", fam, bid, line, got)
            for j, e in enumerate(extra):
                if j in used:
                    continue
                if e[1] == "timestamp":
                    self.report("timestamp-extra", f"EntryWriter::timestamp is called more often than there are timestamp fields (t={e[2]})", fam, bid, line, got)
                else:
                    self.report("extra", f"an item is written that no field accounts for (ignored / absent field, absent child?): {e!r}", fam, bid, line, got)
        if gs != esg:
            ec, gc = collections.Counter(esg), collections.Counter(gs)
            missing = list((ec - gc).elements())
            extra = list((gc - ec).elements())
            if not missing and not extra:
                # "The order of (key, value) pairs in the group doesn't matter"
                self.sg_order_drift += 1
                if len(self.chk.drift) < 10:
                    self.chk.drift.append({"behaviour": bid, "what": "sample_group() pairs come in a different order than declared",
                                           "expected": esg, "got": gs})
            for p in missing:
                self.report("sg-missing", f"sample_group() lacks the pair {p!r} (got {gs})", fam, bid, line, got)
            for p in extra:
                self.report("sg-extra", f"sample_group() has the unexpected pair {p!r}", fam, bid, line, got)
        # the value() call of an absent Option is made (and writes nothing): only drift if it is not
        nsilent = sum(1 for t in toks if t["t"] == "F" and t["k"].startswith("optnone"))
        if len(got.get("silent", [])) != nsilent and len(self.chk.drift) < 10:
            self.chk.drift.append({"behaviour": bid, "what": "number of value() calls that wrote nothing differs from the number of None fields",
                                   "expected": nsilent, "got": got.get("silent")})


def ed_select(fams, tier, rng):
    b = BUDGET[tier]
    sel = []
    for fam, lines in fams.items():
        idx = list(range(len(lines)))
        if fam == "small" and len(idx) > b["small_bind"]:
            # every tree with <= 2 fields, a seeded sample of the rest
            short = [i for i in idx if sum(1 for t in lines[i]["toks"] if t["t"] in ("F", "O")) <= 2]
            rest = [i for i in idx if i not in set(short)]
            if len(short) > b["small_bind"] // 2:
                short = rng.sample(short, b["small_bind"] // 2)
            idx = short + rng.sample(rest, min(len(rest), b["small_bind"] - len(short)))
        if fam in ("sim", "chain") and len(idx) > b[fam + "_bind"]:
            # the largest trees first (they are what the exhaustive families cannot reach), then a seeded sample
            idx.sort(key=lambda i: -len(lines[i]["toks"]))
            top = idx[:b[fam + "_bind"] // 3]
            idx = top + rng.sample(idx[len(top):], b[fam + "_bind"] - len(top))
        for i in idx:
            sel.append((fam, f"{fam}{i}", lines[i]))
    return sel


def ed_generate_build_run(chk, sel, nbins, prefix="gen_e"):
    crate, repo, tdir = ensure_crate()
    progs = ge.plan([(bid, line["toks"]) for _, bid, line in sel], nbins, prefix=prefix)
    nlines = ge.write_programs(crate, progs, prefix=prefix)
    ntypes = sum(len(p.types) for p in progs)
    log(f"[gen] {len(progs)} programs, {nlines} lines, {ntypes} container types, {len(sel)} instances; crate {crate} against {repo}")
    p, wall = cargo(crate, [p.bin for p in progs])
    if p.returncode != 0:
        errs = [l for l in p.stdout.splitlines() if l.startswith("error")]
        sys.stdout.write(p.stdout[-5000:])
        raise vlib.ToolError(f"cargo build of the generated derive(Entry) programs failed ({len(errs)} errors): {errs[:2]}")
    log(f"[build] generated derive(Entry) programs in {wall:.1f}s")
    chk.extra.update({"ed_generated_lines": nlines, "ed_programs": len(progs), "ed_container_types": ntypes,
                      "ed_compile_wall_s": round(wall, 1)})
    with ThreadPoolExecutor(max_workers=8) as ex:
        outs = list(ex.map(lambda p: run_exe(tdir, p.bin), progs))
    got = {}
    for o in outs:
        got.update(o)
    return got


def run_entryderive(chk, tier):
    fams = ed_tlc(chk, tier)
    sel = ed_select(fams, tier, chk.rng)
    got = ed_generate_build_run(chk, sel, BUDGET[tier]["bins"])
    cmp_ = EdComparer(chk)
    for fam, bid, line in sel:
        cmp_.compare(fam, bid, line, got.get(bid))
    chk.traces += cmp_.instances
    chk.evaluations += cmp_.items + cmp_.pairs
    for fam, bid, line in sel:
        chk.nontrivial.add(json.dumps(line["toks"], sort_keys=True))
    chk.extra.update({"ed_instances": cmp_.instances, "ed_items_compared": cmp_.items, "ed_sg_pairs_compared": cmp_.pairs,
                      "ed_trees_by_family": {f: len(l) for f, l in fams.items()},
                      "ed_bound_by_family": dict(collections.Counter(f for f, _, _ in sel)),
                      "ed_features": dict(cmp_.feat), "ed_sg_order_drift": cmp_.sg_order_drift,
                      "ed_violations_by_key": dict(cmp_.by_key)})
    for fam, bid, line in sel[:1] + sel[-1:]:
        chk.sample({"subject": "derive(Entry)", "family": fam, "toks": line["toks"], "items": line["items"], "sg": line["sg"]})
    for need in ["kind:" + k for k in LEAF_KINDS] + ["form:" + f for f in FORMS] + ["edge:" + e for e in EDGES] + ["sg_chain>=9"]:
        if not cmp_.feat.get(need):
            raise vlib.ToolError(f"vacuity: no bound derive(Entry) behaviour exercises {need}")
    log(f"[X03a] {cmp_.instances} type trees, {cmp_.items} items, {cmp_.pairs} sample-group pairs compared")


# --------------------------------------------------------------------------------------------
def run(prop, tier):
    chk = vlib.Check(prop, tier)
    chk.rule = ("traces = TLC behaviours executed against the real code: finished #[derive(Entry)] type trees whose ordered "
                "EntryWriter calls and sample-group pairs were compared + rejected definitions whose diagnostic was compared "
                "+ Instrumented histories + Flex histories replayed step by step; evaluations = items / pairs / per-step "
                "observations compared; distinct_nontrivial = distinct behaviours")
    chk.assumptions = [
        "derive(Entry): identifiers are two lowercase words written snake_case or camelCase; digits, acronyms, raw identifiers, "
        "generics and lifetimes on the deriving type are out of scope",
        "derive(Entry): exhaustive within the small bounds / the names family, random walks (TLC -simulate) beyond",
    ]
    subjects = os.environ.get("VERIF_X03_SUBJECTS", "a,c,b").split(",")
    if "a" in subjects:
        run_entryderive(chk, tier)
    return chk.finish()


def replay(prop, path):
    with open(path) as f:
        v = json.load(f)
    rp = v["replay"]
    chk = vlib.Check(prop + "-replay", "quick")
    chk.findings = vlib.load_findings(prop)
    if rp.get("kind") == "entryderive":
        line = {"toks": rp["toks"], "items": rp["expected_items"], "sg": rp["expected_sg"]}
        sel = [(rp["family"], "r0", line)]
        got = ed_generate_build_run(chk, sel, 1, prefix="gen_r")
        cmp_ = EdComparer(chk)
        cmp_.compare(rp["family"], "r0", line, got.get("r0"))
        log(f"replayed 1 type tree: violations {dict(cmp_.by_key)}")
        return 1 if chk.violations else 0
    log("unknown replay kind")
    return 2
