SPECIFICATION MSpec
CONSTRAINT Track
POSTCONDITION Accepted
CHECK_DEADLOCK FALSE
