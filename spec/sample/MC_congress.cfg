CONSTANTS
  Groups = {g1, g2, g3}
  Vols = {0, 1, 2, 5, 12}
  MaxIntervals = 3
  Targets = {4, 10}
  Ttl = 8
SPECIFICATION CSpec
SYMMETRY GroupSym
INVARIANT CInv
CHECK_DEADLOCK FALSE
