------------------------------ MODULE Service ------------------------------
(***************************************************************************)
(* X01 - end-to-end composition of a service-shaped program.               *)
(*                                                                         *)
(*   request handlers --(#[metrics] unit-of-work entry, closed on drop)--> *)
(*   ServiceMetrics (global sink) --> attached BackgroundQueue -->         *)
(*   Emf formatter (validations on) --> io::Write                          *)
(*                                                                         *)
(* This module is a COMPOSITION OF THE PROPERTY LAYERS that already exist: *)
(*                                                                         *)
(*   Q == INSTANCE QueueAbs      (spec/queue)   the attached queue: append *)
(*        interval + linearization, FIFO hand-off, stream flush / close,   *)
(*        flush-request barrier (C04), shutdown at the join-handle drop    *)
(*        (C05)                                                            *)
(*   G == INSTANCE GlobalDetach  (spec/global)  attach / try_append /      *)
(*        detach of the global sink (C17): every call takes effect at one  *)
(*        instant between its start and its end                            *)
(*                                                                         *)
(* plus two thin glue layers stated here at property level:                *)
(*                                                                         *)
(*   unit of work (C06 / C13, quiescence form of KeepAliveTrace.tla): the  *)
(*        entry is closed and appended exactly once, not before the drop   *)
(*        of its owner and of every enabling guard has started, and the    *)
(*        append has returned when the last of these drops returns; a      *)
(*        wait-mode slot value is present, a discard-mode slot value is    *)
(*        present if its guard was dropped before the owner's drop began   *)
(*        and absent if it was not dropped when the owner's drop returned  *)
(*   EMF  (C02 / C03 / C08): a valid entry becomes exactly one line whose  *)
(*        members equal the closed fields (LineOK)                         *)
(*                                                                         *)
(* Nothing of the queue's or the global's internals is modelled again: a   *)
(* step of this module IS a step of Q and / or of G (conjoined on the      *)
(* events they share) or a glue step.  The end-to-end statements at the    *)
(* bottom are what TLC derives from the composition for every              *)
(* interleaving within small constants (MC_svc*.cfg), and what             *)
(* ServiceTrace.tla evaluates at every step of executions recorded from    *)
(* the real program (harness/src/bin/svc.rs).                              *)
(*                                                                         *)
(* There is one attach / detach cycle (sink 1) per scenario.  Requests are *)
(* positive integers.  Modes of a request:                                 *)
(*   "try"    m.close(), then ServiceMetrics::try_append(RootEntry::new(..))*)
(*   "guard"  m.append_on_drop(sink) with sink = ServiceMetrics::try_sink()*)
(*   "fg"     guard + a FlushGuard handed to a sub-task                    *)
(*   "wait"   guard + Slot opened with OnParentDrop::Wait(flush guard),    *)
(*            SlotGuard handed to a sub-task                               *)
(*   "disc"   guard + Slot opened with OnParentDrop::Discard               *)
(***************************************************************************)
EXTENDS Naturals, Integers, Sequences, FiniteSets, TLC

VARIABLES
    \* ---- QueueAbs (see spec/queue/QueueAbs.tla) ----
    cap, q, pending, linned, ended, cur, nexted, lastRes, lost, flushed, unflushed,
    closed, before, fdone, hs, snap, sinks,
    \* ---- GlobalDetach (see spec/global/GlobalDetach.tla; its `nexted` is gnexted here) ----
    aatt, pendApp, linApp, okd, errd, accepted, gnexted, nflushed, closedS, astate,
    \* ---- glue ----
    rq,    \* request id |-> record, see NewReq
    out    \* the lines written to the output, in order (records, see LineOK)

qv == <<cap, q, pending, linned, ended, cur, nexted, lastRes, lost, flushed, unflushed,
        closed, before, fdone, hs, snap, sinks>>
gv == <<aatt, pendApp, linApp, okd, errd, accepted, gnexted, nflushed, closedS, astate>>
sv == <<rq, out>>
vars == <<qv, gv, sv>>

Q == INSTANCE QueueAbs
G == INSTANCE GlobalDetach WITH nexted <- gnexted, obs <- <<>>   \* no is_attached() observers in the composition

S1 == 1                      \* the one sink of a scenario
GuardModes == {"guard", "fg", "wait", "disc"}
HasGuard(m) == m \in {"fg", "wait", "disc"}
Enabling(m) == m \in {"fg", "wait"}      \* the sub-task's guard delays the append
HasSlot(m)  == m \in {"wait", "disc"}

SInit(c) ==
    /\ Q!AInit(c, 1)
    /\ G!DInit({S1})
    /\ rq = <<>> /\ out = <<>>

\* ---------------------------------------------------------------------------------------------
\* glue state of one request
\* ---------------------------------------------------------------------------------------------
NewReq(p, m, op, ts) ==
    [p |-> p, mode |-> m, op |-> op, ts |-> ts,
     cnt |-> 0,            \* Items / Hits as mutated through the owner
     subv |-> 0,           \* SubItems as mutated through the slot guard
     clk |-> 0,            \* the request's manually advanced clock (microseconds since ReqStart)
     sk |-> IF m = "try" THEN "na" ELSE "idle",    \* try_sink(): idle | look | lin | has | none
     got |-> 0,            \* sink seen by try_sink (0 = none)
     ost |-> IF m = "try" THEN "live" ELSE "none", \* owner:  none | live | dropping | dropped
     gst |-> "none",       \* sub-task guard: none | live | dropping | dropped
     em |-> FALSE,         \* the append has begun
     tlo |-> 0, thi |-> -1,\* clock when the append began / had returned (-1 = not yet)
     gAtOS |-> "none", gAtOE |-> "none",           \* guard state when the owner's drop began / returned
     pred |-> {}]          \* requests whose append had returned when this append began

Has(e) == e \in DOMAIN rq
Upd(e, r) == rq' = [rq EXCEPT ![e] = r]

ReqStart(p, e, m, op, ts) ==
    /\ ~Has(e) /\ e > 0
    /\ rq' = (e :> NewReq(p, m, op, ts)) @@ rq
    /\ UNCHANGED <<out, qv, gv>>

\* ---- try_sink() of the guard modes: takes effect at one instant between call and return -----
SinkStart(e) ==
    /\ Has(e) /\ rq[e].sk = "idle"
    /\ Upd(e, [rq[e] EXCEPT !.sk = "look"])
    /\ UNCHANGED <<out, qv, gv>>

SinkLin(e) ==
    /\ Has(e) /\ rq[e].sk = "look"
    /\ Upd(e, [rq[e] EXCEPT !.sk = "lin", !.got = aatt])
    /\ UNCHANGED <<out, qv, gv>>

\* Some(sink): the entry is created on that sink (and its guard, if any, right away)
SinkEnd(e, ok) ==
    /\ Has(e) /\ rq[e].sk = "lin" /\ (ok <=> rq[e].got # 0)
    /\ Upd(e, [rq[e] EXCEPT !.sk = IF ok THEN "has" ELSE "none",
                            !.ost = IF ok THEN "live" ELSE "none",
                            !.gst = IF ok /\ HasGuard(rq[e].mode) THEN "live" ELSE "none"])
    /\ UNCHANGED <<out, qv, gv>>

\* ---- mutations ------------------------------------------------------------------------------
Work(e, by, d) ==
    /\ Has(e) /\ rq[e].ost = "live"
    /\ Upd(e, [rq[e] EXCEPT !.cnt = @ + by, !.clk = @ + d])
    /\ UNCHANGED <<out, qv, gv>>

\* the sub-task: mutates the slot value (slot modes); it advances the clock only when its guard
\* delays the append (then every advance precedes the close and the timer value is exact)
SubWork(e, by, d) ==
    /\ Has(e) /\ rq[e].gst = "live"
    /\ (by > 0 => HasSlot(rq[e].mode)) /\ (d > 0 => Enabling(rq[e].mode))
    /\ Upd(e, [rq[e] EXCEPT !.subv = @ + by, !.clk = @ + d])
    /\ UNCHANGED <<out, qv, gv>>

\* ---- unit of work: drops of the owner and of the sub-task's guard ----------------------------
CondStarted(r) == r.ost \in {"dropping", "dropped"} /\ (Enabling(r.mode) => r.gst \in {"dropping", "dropped"})
CondEnded(r) == r.ost = "dropped" /\ (Enabling(r.mode) => r.gst = "dropped")

\* the step that begins the append (the entry is closed here at the earliest)
Begin(e, r) ==
    IF CondStarted(r) /\ ~rq[e].em
    THEN /\ Upd(e, [r EXCEPT !.em = TRUE, !.tlo = r.clk, !.pred = ended])
         /\ Q!AppStart(rq[e].p, e)
    ELSE /\ Upd(e, r) /\ UNCHANGED qv

\* the step by which the append has returned at the latest
Finish(e, r) ==
    IF CondEnded(r) /\ rq[e].thi = -1
    THEN /\ Upd(e, [r EXCEPT !.thi = r.clk])
         /\ Q!AppEnd(rq[e].p, e)
    ELSE /\ Upd(e, r) /\ UNCHANGED qv

ODropStart(e) ==
    /\ Has(e) /\ rq[e].mode \in GuardModes /\ rq[e].ost = "live"
    /\ Begin(e, [rq[e] EXCEPT !.ost = "dropping", !.gAtOS = rq[e].gst])
    /\ UNCHANGED <<out, gv>>

ODropEnd(e) ==
    /\ Has(e) /\ rq[e].mode \in GuardModes /\ rq[e].ost = "dropping"
    /\ Finish(e, [rq[e] EXCEPT !.ost = "dropped", !.gAtOE = rq[e].gst])
    /\ UNCHANGED <<out, gv>>

GDropStart(e) ==
    /\ Has(e) /\ rq[e].gst = "live"
    /\ Begin(e, [rq[e] EXCEPT !.gst = "dropping"])
    /\ UNCHANGED <<out, gv>>

GDropEnd(e) ==
    /\ Has(e) /\ rq[e].gst = "dropping"
    /\ Finish(e, [rq[e] EXCEPT !.gst = "dropped"])
    /\ UNCHANGED <<out, gv>>

\* ---- try mode: m.close() ; ServiceMetrics::try_append(RootEntry::new(closed)) ----------------
TryStart(e) ==
    /\ Has(e) /\ rq[e].mode = "try" /\ rq[e].ost = "live"
    /\ Upd(e, [rq[e] EXCEPT !.ost = "dropping", !.tlo = rq[e].clk, !.thi = rq[e].clk, !.pred = ended])
    /\ G!TryStart(rq[e].p, e)
    /\ UNCHANGED <<out, qv>>

\* the instant the call takes effect: with a sink attached the entry is accepted by it, i.e. its
\* append to the queue begins
TryLin(e) ==
    /\ Has(e) /\ rq[e].mode = "try"
    /\ G!LinApp(rq[e].p, e)
    /\ IF aatt # 0 THEN Upd(e, [rq[e] EXCEPT !.em = TRUE]) /\ Q!AppStart(rq[e].p, e)
                   ELSE UNCHANGED <<rq, qv>>
    /\ UNCHANGED out

TryEnd(e, ok) ==
    /\ Has(e) /\ rq[e].mode = "try" /\ rq[e].ost = "dropping"
    /\ G!TryEnd(rq[e].p, e, ok)
    /\ IF ok THEN Q!AppEnd(rq[e].p, e) ELSE UNCHANGED qv
    /\ Upd(e, [rq[e] EXCEPT !.ost = "dropped"])
    /\ UNCHANGED out

\* ---- the queue: linearization of an append, the writer's pop (both unobservable) --------------
QLin(e) == Has(e) /\ Q!Lin(rq[e].p, e) /\ UNCHANGED <<sv, gv>>
QPop == Q!Pop /\ UNCHANGED <<sv, gv>>

\* ---- EMF: the line of a request -----------------------------------------------------------------
\* line = [e, op, ts, c, h, t, sub]: RequestId, Operation, _aws.Timestamp, Items, Hits, Latency (in
\* microseconds, converted from the unit the line declares), SubItems (-1 = absent)
GuardAtOwnerEnd(r) == IF r.ost = "dropped" THEN r.gAtOE ELSE r.gst
SubOK(r, v) ==
    CASE r.mode = "wait" -> v = r.subv
      [] r.mode = "disc" -> /\ v \in {-1, r.subv}
                            /\ (r.gAtOS = "dropped" => v # -1)
                            /\ (GuardAtOwnerEnd(r) = "live" => v = -1)
                            /\ (v # -1 => r.gst # "live")
      [] OTHER -> v = -1
LineOK(e, line) ==
    LET r == rq[e] IN
    /\ line.e = e /\ line.op = r.op /\ line.ts = r.ts
    /\ line.c = r.cnt /\ line.h = r.cnt
    /\ r.tlo <= line.t /\ line.t <= (IF r.thi = -1 THEN r.clk ELSE r.thi)
    /\ SubOK(r, line.sub)

\* the lines LineOK allows for request e right now (for the modules that generate behaviours)
LinesFor(e) ==
    LET r == rq[e] IN
    {line \in {[e |-> e, op |-> r.op, ts |-> r.ts, c |-> r.cnt, h |-> r.cnt, t |-> t, sub |-> s] :
                  t \in r.tlo..(IF r.thi = -1 THEN r.clk ELSE r.thi), s \in {-1, r.subv}} : LineOK(e, line)}

\* the writer hands the popped entry to the stream: exactly one line, with the entry's content
Write(e, line) ==
    /\ Has(e) /\ LineOK(e, line)
    /\ Q!Next(e, "ok")
    /\ IF e \in accepted[S1] THEN G!Next(S1, e) ELSE UNCHANGED gv
    /\ out' = Append(out, line)
    /\ UNCHANGED rq

WFlush == Q!Flush /\ G!Flush(S1) /\ UNCHANGED sv
WClose == Q!Close /\ G!Close(S1) /\ UNCHANGED sv

\* ---- operator -------------------------------------------------------------------------------------
AttachStart == G!AttachStart(S1) /\ UNCHANGED <<qv, sv>>
AttachLin   == G!LinAttach(S1) /\ UNCHANGED <<qv, sv>>
AttachEnd   == G!AttachEnd(S1, TRUE) /\ UNCHANGED <<qv, sv>>
\* dropping the attach handle drops the queue's join handle: the queue's shutdown begins no earlier
\* than the handle drop and has completed when it returns
DetachStart == G!DetachStart(S1) /\ Q!DropStart /\ UNCHANGED sv
DetachLin   == G!LinDetach(S1) /\ UNCHANGED <<qv, sv>>
DetachEnd   == G!DetachEnd(S1) /\ Q!DropEnd /\ UNCHANGED sv
FlushReq(f) == Q!FlushReq(f) /\ UNCHANGED <<gv, sv>>
FlushDone(f) == Q!FlushDone(f) /\ UNCHANGED <<gv, sv>>

\* ---------------------------------------------------------------------------------------------
\* end-to-end statements
\* ---------------------------------------------------------------------------------------------
Written == Q!Range(nexted)
Pos(e) == CHOOSE i \in 1..Len(nexted) : nexted[i] = e
Detached == astate[S1] = "detached"

\* an entry the service is answerable for: try_append returned Ok, or the append through a sink
\* obtained from the global had returned when the attach handle drop began
Must(e) == e \in okd \/ e \in snap

\* one line per hand-off, in hand-off order, each with the request's content
LinesAreRequests ==
    /\ Len(out) = Len(nexted)
    /\ \A i \in 1..Len(out) : out[i].e = nexted[i] /\ Has(nexted[i]) /\ rq[nexted[i]].em
NoDuplicate == Q!ExactlyOnce
\* an entry handed back by try_append, or never appended, is not in the output
HandedBackNotWritten == errd \cap Written = {}
\* accepted => written and flushed when the attach handle drop has returned; and nothing after it
DetachComplete == Detached => /\ \A e \in DOMAIN rq : Must(e) => e \in flushed
                              /\ closed /\ cur = 0 /\ unflushed = 0
\* a completed flush covers everything appended before it was requested
FlushCovers == \A f \in fdone : closed \/ before[f] \subseteq (lost \cup flushed)
\* real-time order of appends is output order (this subsumes per-thread order)
AppendOrder == \A i, j \in 1..Len(nexted) : i < j => nexted[j] \notin rq[nexted[i]].pred
\* the final content: counter fields carry every mutation, constant fields are the request's
Content == \A i \in 1..Len(out) :
             LET r == rq[out[i].e] IN
             /\ out[i].op = r.op /\ out[i].ts = r.ts
             /\ out[i].c = r.cnt /\ out[i].h = r.cnt
             /\ (r.mode = "wait" => out[i].sub = r.subv)
             /\ (r.mode \notin {"wait", "disc"} => out[i].sub = -1)
             /\ r.tlo <= out[i].t /\ (r.thi # -1 => out[i].t <= r.thi)
\* the two layers see the same output
LayersAgree == /\ \A i \in 1..Len(gnexted[S1]) : gnexted[S1][i] \in Written
               /\ G!SeqRange(gnexted[S1]) = Written \cap accepted[S1]
               /\ (closed <=> S1 \in closedS)
               /\ accepted[S1] \subseteq DOMAIN rq

SvcInv == /\ Q!AbsInv /\ G!DInv
          /\ LinesAreRequests /\ NoDuplicate /\ HandedBackNotWritten /\ DetachComplete
          /\ FlushCovers /\ AppendOrder /\ Content /\ LayersAgree

\* after the attach handle drop has returned nothing more is written
SilentAfterDetach == [][Detached => out' = out]_vars

\* everything has come to rest (all request threads joined, handle dropped, flushes waited for)
Quiesced ==
    /\ Q!Quiesced /\ G!Quiesced
    /\ \A e \in DOMAIN rq : /\ rq[e].ost \in {"none", "dropped"} /\ rq[e].gst \in {"none", "dropped"}
                            /\ rq[e].sk \in {"na", "has", "none"}
                            /\ (Must(e) => e \in flushed)
=============================================================================
