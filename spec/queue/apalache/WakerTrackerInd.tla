-------------------------- MODULE WakerTrackerInd --------------------------
(***************************************************************************)
(* Unbounded safety of the flush-waker protocol (C04, S1) by an inductive  *)
(* invariant, discharged with Apalache:                                    *)
(*     Init => IndInv                  (apalache-mc check --length=0)      *)
(*     IndInv /\ Next => IndInv'       (--init=IndInv --length=1)          *)
(*     IndInv => never woken while something is owed  (bad = FALSE)        *)
(* Same transition relation as WakerTracker.tla (requests may be late,     *)
(* i.e. sent after the pops of the coming drain), but with NO bound on the *)
(* number of calls, ANY count per call (all naturals), ANY capacity in     *)
(* 1..MaxCap, the signal channel as a set (its order is irrelevant for     *)
(* safety).  TLC checks WakerTracker.tla for small constants; this module  *)
(* removes the bounds on calls, counts and capacity for 3 requests.        *)
(***************************************************************************)
EXTENDS Integers, FiniteSets

CONSTANTS
    \* @type: Int;
    Cap,
    \* @type: Set(Int);
    Reqs

VARIABLES
    \* @type: Set(Int);
    waiting,
    \* @type: Int;
    ebw,
    \* @type: Set(Int);
    chan,
    \* @type: Int -> Int;
    owed,
    \* @type: Set(Int);
    done,
    \* @type: Set(Int);
    sent,
    \* @type: Set(Int);
    fresh,
    \* @type: Bool;
    bad

ConstInit == Cap \in 1..64 /\ Reqs = {1, 2, 3}

Init ==
    /\ waiting = {} /\ ebw = 0 /\ chan = {} /\ owed = [f \in Reqs |-> 0] /\ done = {}
    /\ sent = {} /\ fresh = {} /\ bad = FALSE

Req(f, n, late) ==
    /\ f \notin sent
    /\ sent' = sent \union {f} /\ chan' = chan \union {f}
    /\ owed' = [owed EXCEPT ![f] = n]
    /\ fresh' = IF late THEN fresh \union {f} ELSE fresh
    /\ UNCHANGED <<waiting, ebw, done, bad>>

Call(drained, count) ==
    LET owed1 == [f \in Reqs |-> IF f \in fresh THEN owed[f]
                                   ELSE IF drained THEN 0 ELSE IF owed[f] > count THEN owed[f] - count ELSE 0]
        e1 == IF waiting # {} THEN (IF ebw > count THEN ebw - count ELSE 0) ELSE ebw
        wake == waiting # {} /\ (e1 = 0 \/ drained)
        woken == IF wake THEN waiting ELSE {}
        w1 == IF wake THEN {} ELSE waiting
        e2 == IF wake THEN 0 ELSE e1
        collect == w1 = {}
        w2 == IF collect THEN chan ELSE w1
        e3 == IF collect /\ w2 # {} THEN Cap ELSE e2
    IN /\ owed' = owed1
       /\ waiting' = w2 /\ ebw' = e3
       /\ chan' = IF collect THEN {} ELSE chan
       /\ done' = done \union woken
       /\ bad' = (bad \/ \E f \in woken : owed1[f] > 0)
       /\ fresh' = {}
       /\ UNCHANGED sent

Next ==
    \/ \E f \in Reqs, late \in BOOLEAN : \E n \in Nat : n <= Cap /\ Req(f, n, late)
    \/ \E drained \in BOOLEAN, count \in Nat : Call(drained, count)

\* ---- the inductive invariant -------------------------------------------------------------
TypeOK ==
    /\ waiting \subseteq Reqs /\ chan \subseteq Reqs /\ done \subseteq Reqs /\ sent \subseteq Reqs
    /\ fresh \subseteq Reqs
    /\ ebw >= 0 /\ ebw <= Cap
    /\ \A f \in Reqs : owed[f] >= 0 /\ owed[f] <= Cap
    /\ Cap >= 1 /\ Cap <= 64

IndInv ==
    /\ TypeOK
    /\ ~bad
    /\ waiting \intersect chan = {} /\ waiting \intersect done = {} /\ chan \intersect done = {}
    /\ waiting \union chan \union done = sent
    /\ fresh \subseteq chan
    \* the heart of S1: what is still owed to a tracked request never exceeds the batch's
    \* remaining budget
    /\ \A f \in waiting : owed[f] <= ebw

S1 == ~bad

\* arbitrary state satisfying the invariant (assignments first, as Apalache requires)
IndInit ==
    /\ waiting \in SUBSET Reqs /\ chan \in SUBSET Reqs /\ done \in SUBSET Reqs /\ sent \in SUBSET Reqs
    /\ fresh \in SUBSET Reqs /\ ebw \in 0..64 /\ owed \in [Reqs -> 0..64] /\ bad \in BOOLEAN
    /\ IndInv
=============================================================================
