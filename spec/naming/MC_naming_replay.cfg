\* behaviour generation: all container chains (struct trees of depth <= 3, entry enums at the root and
\* flattened into a struct root); the check binds all of them (thorough) or a seeded sample (quick)
CONSTANTS
  MaxDepth = 3
  Families = {"struct", "enumroot", "enumnested"}
  ChildRAs = {"none", "kebab"}
  ChildPKs = {"none", "exact"}
  NestRootPKs = {"none"}
  DeepRAs = {"none", "pascal", "snake", "kebab"}
  DeepPKs = {"none", "infl", "exact"}
SPECIFICATION RSpec
INVARIANT Emit
CHECK_DEADLOCK FALSE
