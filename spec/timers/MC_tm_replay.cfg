CONSTANTS
  Slots = {1}
  Ds = {1, 2}
  MaxClock = 1000
  W0 = 1700000
  Depth = 9
SPECIFICATION RSpec
INVARIANT Emit
INVARIANT TmInv
CONSTRAINT Bound
CHECK_DEADLOCK FALSE
