#!/bin/sh
# runs every check's thorough tier once (used through `vp run` to verify that the thorough commands work and how long they take)
cd "$(dirname "$0")/.." || exit 2
bin/setup >/dev/null 2>&1
for p in ${PROPS:-C15 C19 C18 C10 C17 C11 C14 C16 C02 C12 C20 C06 C13 C03 C08 C07 C01 C04 C05 C09}; do
  s=$(date +%s); bin/vcheck $p --tier thorough > thorough-$p.log 2>&1; rc=$?; e=$(date +%s)
  echo "$p rc=$rc $((e-s))s viol=$(grep -c '^VIOLATION' thorough-$p.log) known=$(grep -c 'KNOWN-FINDING' thorough-$p.log) drift=$(grep -c 'MODEL-DRIFT' thorough-$p.log) :: $(tail -1 thorough-$p.log | cut -c1-160)"
done
