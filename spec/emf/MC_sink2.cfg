CONSTANTS
  Streams = {"a", "b"}
  MaxEntries = 3
  Bug = "none"
SPECIFICATION Spec
INVARIANT SInv
CHECK_DEADLOCK FALSE
