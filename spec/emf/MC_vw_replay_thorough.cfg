CONSTANTS
  MaxSlices = 3
  MaxLen = 3
  MaxIntr = 2
  Bug = "none"
SPECIFICATION RSpec
INVARIANT Emit
CHECK_DEADLOCK FALSE
