\* quick, C09 focus: one producer x 3 entries overflowing on a queue of capacity 1, no flush request, drop only, no deadline
CONSTANTS
  Producers = {1}
  MaxApp = 3
  Cap = 1
  Flushers = {}
  K = 1
  Results = {"ok"}
  AllowForget = FALSE
  AllowTick = FALSE
SPECIFICATION Spec
INVARIANTS TypeOK AbsInv ProducerOrder OnlyAppended NoLossAtEnd BoundedBatch EbwExact NoParkWithWaiters JoinedMeansClosed
PROPERTY Refines
CHECK_DEADLOCK FALSE
