//! X05 driver: time-source resolution and override scoping (crate metrique-timesource).
//!
//!   ts replay --behaviours f.ndjson --out o.ndjson
//!   ts probe      (readings of a TimeSource::tokio source inside / outside the runtime whose paused clock it uses)
//!
//! Replays behaviours of spec/timesource/TimeSourceReplay.tla on the real crate. One behaviour =
//!   {"id", "users": ["t1",..], "workers": ["r1",..], "flavor": {"r1": "multi"|"current", ..},
//!    "sources": [{"name", "kind": "manual"|"tokio"|"static", "base": secs}], "steps": [{op,t,v,r,k}]}
//! Every behaviour gets a world of its own (a leaked thread-local override can not be removed through the
//! crate's API, so threads are never reused):
//!   * one OS thread per user thread of the model; a worker thread of the model is the worker of a
//!     multi_thread(1) runtime running one long task, or the thread that drives a current_thread runtime with
//!     block_on. Commands go over channels, one at a time: each step is executed by its thread, then EVERY
//!     thread reports what `time_source()` resolves to and `elapsed()` of every instant taken so far.
//!   * two tokio runtimes r1, r2 (the subjects of set_time_source_for_runtime) and a third, paused
//!     current_thread runtime that is only the clock of the `TimeSource::tokio` source: clock values and
//!     elapsed() are read with its context entered (resolution is NOT: it happens in the thread's own context).
//!   * thread-local guards live in a per-thread list mirroring the model's `guards[t]` (a with_time_source
//!     frame is a nested command loop inside the real closure), runtime guards in a shared table, both dropped
//!     by the thread the step names.
//! A source is identified by its clock value (distinct base per source, System = wall clock). A panic of the
//! code under test is data.

use metrique_timesource::fakes::{ManuallyAdvancedTimeSource, StaticTimeSource};
use metrique_timesource::tokio::{RuntimeTimeSourceGuard, set_time_source_for_current_runtime, set_time_source_for_runtime};
use metrique_timesource::{
    Instant, SystemTime, ThreadLocalTimeSourceGuard, TimeSource, get_time_source, set_time_source, time_source, with_time_source,
};
use serde_json::{Value as J, json};
use std::cell::Cell;
use std::collections::HashMap;
use std::io::Write;
use std::sync::mpsc::{Receiver, Sender, channel};
use std::sync::{Arc, Mutex};
use std::time::{Duration, UNIX_EPOCH};
use tokio::runtime::{EnterGuard, Handle, Runtime};
use vharness::util;

struct Op {
    op: String,
    t: String,
    v: String,
    r: String,
    k: u64,
}

enum Cmd {
    Exec(Op),
    Observe,
    Quit,
}

enum Reply {
    Done(Option<String>),
    Obs(J),
}

struct InstRec {
    i: Instant,
    st: SystemTime,
    stn: SystemTime,
}

struct Ctx {
    handles: HashMap<String, Handle>,
    clock_rt: Handle,
    sources: HashMap<String, TimeSource>,
    instants: Mutex<Vec<InstRec>>,
    rtguards: Mutex<HashMap<String, Vec<RuntimeTimeSourceGuard>>>,
}

impl Ctx {
    fn source(&self, name: &str) -> TimeSource {
        if name == "sys" { TimeSource::System } else { self.sources.get(name).unwrap_or_else(|| panic!("driver: unknown source {name}")).clone() }
    }
}

thread_local! {
    /// > 0 while code of the crate under test runs inside `catch`: a panic there is data, a panic anywhere
    /// else is a crash of this driver (exit 2, never a verdict).
    static IN_CATCH: Cell<u32> = const { Cell::new(0) };
}

fn catch<T>(f: impl FnOnce() -> T) -> Result<T, String> {
    IN_CATCH.with(|c| c.set(c.get() + 1));
    let r = util::catch(f);
    IN_CATCH.with(|c| c.set(c.get() - 1));
    r
}

/// Driver code that runs inside a closure called by the code under test (the body of with_time_source).
fn driver_section<T>(f: impl FnOnce() -> T) -> T {
    let saved = IN_CATCH.with(|c| c.replace(0));
    let r = f();
    IN_CATCH.with(|c| c.set(saved));
    r
}

enum Slot {
    Guard(#[allow(dead_code)] ThreadLocalTimeSourceGuard),
    With,
}

struct TState<'h> {
    slots: Vec<Slot>,
    enters: Vec<EnterGuard<'h>>,
    quit: bool,
}

struct Chan {
    rx: Receiver<Cmd>,
    tx: Sender<Reply>,
}

fn observe(ctx: &Ctx) -> J {
    // resolution in the thread's own context ...
    let ts = catch(time_source);
    let ts = match ts {
        Ok(ts) => ts,
        Err(m) => return json!({"panic": m}),
    };
    // ... readings with the clock runtime entered (only the tokio source cares)
    let _e = ctx.clock_rt.enter();
    let r = catch(|| {
        let now = ts.system_time().as_std().duration_since(UNIX_EPOCH).unwrap_or(Duration::ZERO);
        let g = ctx.instants.lock().unwrap();
        let el: Vec<J> = g
            .iter()
            .map(|x| {
                let f = |r: Result<Duration, std::time::SystemTimeError>| r.map(|d| d.as_nanos() as i64).unwrap_or(-1);
                json!([x.i.elapsed().as_nanos() as i64, f(x.st.elapsed()), f(x.stn.elapsed())])
            })
            .collect();
        json!({"now": [now.as_secs(), now.subsec_nanos()], "el": el})
    });
    r.unwrap_or_else(|m| json!({"panic": m}))
}

/// One step on the calling thread. `Err` = the code under test panicked.
fn exec<'h>(ctx: &'h Ctx, st: &mut TState<'h>, op: &Op) -> Result<(), String> {
    match op.op.as_str() {
        "Set" => {
            let ts = ctx.source(&op.v);
            let g = catch(|| set_time_source(ts))?;
            st.slots.push(Slot::Guard(g));
            Ok(())
        }
        "Drop" => {
            let k = op.k as usize - 1;
            match st.slots.get(k) {
                Some(Slot::Guard(_)) => {}
                _ => panic!("driver: Drop {k}: no plain guard at that position"),
            }
            let g = st.slots.remove(k);
            catch(move || drop(g))
        }
        "Enter" => {
            let h = ctx.handles.get(&op.r).expect("driver: runtime");
            st.enters.push(h.enter());
            Ok(())
        }
        "Leave" => {
            let g = st.enters.pop().expect("driver: Leave without Enter");
            catch(move || drop(g))
        }
        "RtInstall" => {
            let ts = ctx.source(&op.v);
            let h = ctx.handles.get(&op.r).expect("driver: runtime");
            let g = catch(|| set_time_source_for_runtime(h, ts))?;
            ctx.rtguards.lock().unwrap().entry(op.r.clone()).or_default().push(g);
            Ok(())
        }
        "RtInstallCur" => {
            let ts = ctx.source(&op.v);
            let cur = Handle::try_current().ok().map(|h| h.id());
            let name = cur.and_then(|id| ctx.handles.iter().find(|(_, h)| h.id() == id).map(|(n, _)| n.clone()));
            let g = catch(|| set_time_source_for_current_runtime(ts))?;
            let name = name.unwrap_or_else(|| "?".to_string());
            ctx.rtguards.lock().unwrap().entry(name).or_default().push(g);
            Ok(())
        }
        "RtDrop" => {
            let g = ctx.rtguards.lock().unwrap().get_mut(&op.r).and_then(|v| v.pop());
            let g = g.unwrap_or_else(|| panic!("driver: RtDrop {}: no live guard", op.r));
            catch(move || drop(g))
        }
        "Take" => {
            let x = if op.v == "none" { None } else { Some(ctx.source(&op.v)) };
            let ts = catch(|| get_time_source(x))?;
            let _e = ctx.clock_rt.enter();
            let rec = catch(|| {
                let i = Instant::now(&ts);
                let st = ts.system_time();
                let stn = SystemTime::new(st.as_std(), &ts);
                InstRec { i, st, stn }
            })?;
            ctx.instants.lock().unwrap().push(rec);
            Ok(())
        }
        other => panic!("driver: unknown op {other}"),
    }
}

fn run_loop<'h>(ctx: &'h Ctx, st: &mut TState<'h>, ch: &Chan, nested: bool) {
    loop {
        let cmd = match ch.rx.recv() {
            Ok(c) => c,
            Err(_) => Cmd::Quit,
        };
        match cmd {
            Cmd::Quit => {
                st.quit = true;
                return;
            }
            Cmd::Observe => {
                let _ = ch.tx.send(Reply::Obs(observe(ctx)));
            }
            Cmd::Exec(op) if op.op == "WithBegin" => {
                let ts = ctx.source(&op.v);
                let entered = Cell::new(false);
                let r = catch(|| {
                    with_time_source(ts, || {
                        driver_section(|| {
                            entered.set(true);
                            st.slots.push(Slot::With);
                            let _ = ch.tx.send(Reply::Done(None)); // answers WithBegin: the override is installed
                            run_loop(ctx, st, ch, true);
                        })
                    })
                });
                if st.quit {
                    return;
                }
                // the closure returned (WithEnd) and the frame's guard has been dropped, or the call panicked
                if r.is_err() && !entered.get() {
                    let _ = ch.tx.send(Reply::Done(r.err())); // with_time_source itself panicked: answers WithBegin
                    continue;
                }
                let _ = ch.tx.send(Reply::Done(r.err()));
            }
            Cmd::Exec(op) if op.op == "WithEnd" => {
                assert!(nested, "driver: WithEnd outside with_time_source");
                let k = st.slots.iter().rposition(|s| matches!(s, Slot::With)).expect("driver: no with frame");
                st.slots.remove(k);
                return; // the reply is sent by the enclosing loop after with_time_source returned
            }
            Cmd::Exec(op) => {
                let r = exec(ctx, st, &op);
                let _ = ch.tx.send(Reply::Done(r.err()));
            }
        }
    }
}

fn thread_main(ctx: Arc<Ctx>, ch: Chan) {
    let ctx: &Ctx = &ctx;
    let mut st = TState { slots: Vec::new(), enters: Vec::new(), quit: false };
    run_loop(ctx, &mut st, &ch, false);
    let _ = catch(|| {
        while let Some(s) = st.slots.pop() {
            drop(s);
        }
        while let Some(g) = st.enters.pop() {
            drop(g);
        }
    });
}

struct Actor {
    tx: Sender<Cmd>,
    rx: Receiver<Reply>,
    done: Receiver<()>,
    join: Option<std::thread::JoinHandle<()>>,
}

enum Clock {
    Manual(ManuallyAdvancedTimeSource, u64, u64),
    Tokio,
    Static,
}

const STEP_TIMEOUT: Duration = Duration::from_secs(20);

struct Hang;

fn spawn_small(f: impl FnOnce() + Send + 'static) -> std::thread::JoinHandle<()> {
    std::thread::Builder::new().stack_size(256 * 1024).spawn(f).expect("driver: spawn")
}

fn build_rt(flavor: &str) -> Runtime {
    match flavor {
        "multi" => tokio::runtime::Builder::new_multi_thread().worker_threads(1).thread_stack_size(256 * 1024).enable_time().build().unwrap(),
        _ => tokio::runtime::Builder::new_current_thread().enable_time().build().unwrap(),
    }
}

fn run_behaviour(b: &J) -> Result<J, Hang> {
    let strs = |k: &str| -> Vec<String> { b[k].as_array().map(|a| a.iter().map(|x| x.as_str().unwrap().to_string()).collect()).unwrap_or_default() };
    let users = strs("users");
    let workers = strs("workers");
    let clock_rt = tokio::runtime::Builder::new_current_thread().enable_time().start_paused(true).build().unwrap();
    let mut rts: HashMap<String, Arc<Runtime>> = HashMap::new();
    for r in ["r1", "r2"] {
        let fl = b["flavor"][r].as_str().unwrap_or(if r == "r1" { "multi" } else { "current" });
        rts.insert(r.to_string(), Arc::new(build_rt(fl)));
    }
    let mut sources = HashMap::new();
    let mut clocks: HashMap<String, Clock> = HashMap::new();
    for s in b["sources"].as_array().expect("sources") {
        let name = s["name"].as_str().unwrap().to_string();
        let base = s["base"].as_u64().unwrap();
        let at = UNIX_EPOCH + Duration::from_secs(base);
        match s["kind"].as_str().unwrap() {
            "manual" => {
                let m = ManuallyAdvancedTimeSource::at_time(at);
                sources.insert(name.clone(), TimeSource::custom(m.clone()));
                clocks.insert(name, Clock::Manual(m, base, 0));
            }
            "tokio" => {
                let _e = clock_rt.enter();
                sources.insert(name.clone(), TimeSource::tokio(at));
                clocks.insert(name, Clock::Tokio);
            }
            _ => {
                sources.insert(name.clone(), TimeSource::custom(StaticTimeSource::at_time(at)));
                clocks.insert(name, Clock::Static);
            }
        }
    }
    let ctx = Arc::new(Ctx {
        handles: rts.iter().map(|(n, r)| (n.clone(), r.handle().clone())).collect(),
        clock_rt: clock_rt.handle().clone(),
        sources,
        instants: Mutex::new(Vec::new()),
        rtguards: Mutex::new(HashMap::new()),
    });

    let mut order: Vec<String> = Vec::new();
    let mut actors: HashMap<String, Actor> = HashMap::new();
    for name in users.iter().chain(workers.iter()) {
        let (ctx_tx, ctx_rx) = channel::<Cmd>();
        let (rep_tx, rep_rx) = channel::<Reply>();
        let (done_tx, done_rx) = channel::<()>();
        let c = ctx.clone();
        let ch = Chan { rx: ctx_rx, tx: rep_tx };
        let mut join = None;
        if users.contains(name) {
            join = Some(spawn_small(move || {
                thread_main(c, ch);
                let _ = done_tx.send(());
            }));
        } else {
            let rt = rts.get(name).expect("worker names a runtime").clone();
            let multi = b["flavor"][name.as_str()].as_str().unwrap_or(if name == "r1" { "multi" } else { "current" }) == "multi";
            if multi {
                // the task runs on the runtime's only worker thread and keeps it
                rt.spawn(async move {
                    thread_main(c, ch);
                    let _ = done_tx.send(());
                });
            } else {
                // the thread that drives a current_thread runtime
                join = Some(spawn_small(move || {
                    rt.block_on(async move {
                        thread_main(c, ch);
                    });
                    drop(rt);
                    let _ = done_tx.send(());
                }));
            }
        }
        order.push(name.clone());
        actors.insert(name.clone(), Actor { tx: ctx_tx, rx: rep_rx, done: done_rx, join });
    }

    let mut out_steps: Vec<J> = Vec::new();
    let mut hang = false;
    'steps: for (si, s) in b["steps"].as_array().expect("steps").iter().enumerate() {
        let f = |k: &str| s[k].as_str().unwrap_or("-").to_string();
        let op = Op { op: f("op"), t: f("t"), v: f("v"), r: f("r"), k: s["k"].as_u64().unwrap_or(0) };
        let mut panic: Option<String> = None;
        let expect_pan = s["pan"].as_bool().unwrap_or(false);
        if op.op == "Advance" {
            let d = op.k;
            match clocks.get_mut(&op.v).expect("driver: clock") {
                Clock::Manual(m, base, clk) => {
                    *clk += d;
                    m.update_instant(Duration::from_secs(d));
                    m.update_time(UNIX_EPOCH + Duration::from_secs(*base + *clk));
                }
                Clock::Tokio => clock_rt.block_on(tokio::time::advance(Duration::from_secs(d))),
                Clock::Static => panic!("driver: a static source does not advance"),
            }
        } else {
            let a = actors.get(&op.t).unwrap_or_else(|| panic!("driver: unknown thread {}", op.t));
            a.tx.send(Cmd::Exec(op)).expect("driver: thread gone");
            match a.rx.recv_timeout(STEP_TIMEOUT) {
                Ok(Reply::Done(p)) => panic = p,
                Ok(_) => panic!("driver: protocol"),
                Err(_) => {
                    out_steps.push(json!({"hang": si + 1}));
                    hang = true;
                    break 'steps;
                }
            }
        }
        // observations change nothing: all threads are asked at once, the answers collected in order
        let mut obs = serde_json::Map::new();
        for name in &order {
            actors[name].tx.send(Cmd::Observe).expect("driver: thread gone");
        }
        for name in &order {
            match actors[name].rx.recv_timeout(STEP_TIMEOUT) {
                Ok(Reply::Obs(o)) => {
                    obs.insert(name.clone(), o);
                }
                Ok(_) => panic!("driver: protocol"),
                Err(_) => {
                    out_steps.push(json!({"hang": si + 1}));
                    hang = true;
                    break 'steps;
                }
            }
        }
        let diverged = panic.is_some() != expect_pan;
        out_steps.push(json!({"panic": panic, "obs": obs}));
        if diverged {
            // the bookkeeping of this driver follows the model: behind a call whose outcome differs from the
            // model's (reported above, judged by the check) the remaining steps mean nothing
            break;
        }
    }
    let res = json!({"id": b["id"], "steps": out_steps});
    if hang {
        // nothing can be cleaned up behind a thread that does not answer
        print_line(&res);
        return Err(Hang);
    }
    for name in &order {
        let a = actors.get_mut(name).unwrap();
        let _ = a.tx.send(Cmd::Quit);
        let _ = a.done.recv_timeout(STEP_TIMEOUT);
        if let Some(j) = a.join.take() {
            let _ = j.join();
        }
    }
    let left: Vec<RuntimeTimeSourceGuard> = ctx.rtguards.lock().unwrap().drain().flat_map(|(_, v)| v).collect();
    let _ = catch(move || drop(left));
    ctx.instants.lock().unwrap().clear();
    drop(actors);
    drop(ctx);
    for (_, rt) in rts.drain() {
        if let Ok(rt) = Arc::try_unwrap(rt) {
            rt.shutdown_background();
        }
    }
    drop(clock_rt);
    Ok(res)
}

static OUT: Mutex<Option<std::io::BufWriter<std::fs::File>>> = Mutex::new(None);

fn print_line(v: &J) {
    let mut g = OUT.lock().unwrap();
    let w = g.as_mut().expect("out");
    serde_json::to_writer(&mut *w, v).unwrap();
    w.write_all(b"\n").unwrap();
    w.flush().unwrap();
}

fn main() {
    let (cmd, m) = util::args();
    std::panic::set_hook(Box::new(|info| {
        if IN_CATCH.with(|c| c.get()) == 0 {
            eprintln!("ts: driver crashed: {info}");
            std::process::exit(2);
        }
    }));
    match cmd.as_str() {
        "replay" => {
            let beh = util::read_ndjson(util::arg_str(&m, "behaviours", ""));
            let f = std::fs::File::create(util::arg_str(&m, "out", "")).expect("create out");
            *OUT.lock().unwrap() = Some(std::io::BufWriter::new(f));
            for b in &beh {
                match run_behaviour(b) {
                    Ok(r) => {
                        let mut g = OUT.lock().unwrap();
                        let w = g.as_mut().unwrap();
                        serde_json::to_writer(&mut *w, &r).unwrap();
                        w.write_all(b"\n").unwrap();
                    }
                    Err(Hang) => std::process::exit(3),
                }
            }
            OUT.lock().unwrap().as_mut().unwrap().flush().unwrap();
        }
        "probe" => {
            // why the readings of the TimeSource::tokio source are taken with the clock runtime entered: TokioTime asks
            // tokio::time::Instant::now(), i.e. the clock of the runtime the CALLING thread is currently inside
            let clock_rt = tokio::runtime::Builder::new_current_thread().enable_time().start_paused(true).build().unwrap();
            let other = build_rt("current");
            let ts = {
                let _e = clock_rt.enter();
                TimeSource::tokio(UNIX_EPOCH + Duration::from_secs(3_000_000))
            };
            let start = {
                let _e = clock_rt.enter();
                ts.instant()
            };
            clock_rt.block_on(tokio::time::advance(Duration::from_secs(5)));
            let rd = |ts: &TimeSource| {
                let d = ts.system_time().as_std().duration_since(UNIX_EPOCH).unwrap_or(Duration::ZERO);
                json!([d.as_secs(), d.subsec_nanos()])
            };
            let inside = {
                let _e = clock_rt.enter();
                json!({"system_time": rd(&ts), "elapsed_ns": start.elapsed().as_nanos() as u64})
            };
            let outside = json!({"system_time": rd(&ts), "elapsed_ns": start.elapsed().as_nanos() as u64});
            let in_other = {
                let _e = other.enter();
                json!({"system_time": rd(&ts), "elapsed_ns": start.elapsed().as_nanos() as u64})
            };
            println!("{}", json!({"advanced_s": 5, "base_s": 3_000_000, "inside_its_runtime": inside, "outside_any_runtime": outside, "inside_another_runtime": in_other}));
        }
        _ => {
            eprintln!("usage: ts replay --behaviours f.ndjson --out o.ndjson | ts probe");
            std::process::exit(2);
        }
    }
}
