\* every sequence of 5 operations (at most 3 requests)
CONSTANTS
  Depth = 5
  MaxReq = 3
  RModes = {"try", "guard", "fg", "wait", "disc"}
SPECIFICATION RSpec
INVARIANTS Emit SvcInv
CONSTRAINT Bound
CHECK_DEADLOCK FALSE
