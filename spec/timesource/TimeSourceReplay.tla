-------------------------- MODULE TimeSourceReplay --------------------------
(***************************************************************************)
(* Behaviour generator for TimeSource: every sequence of exactly Depth      *)
(* calls (exhaustive BFS over the history variable, or random walks with    *)
(* -simulate) is printed as one JSON line.  Each step carries the call and  *)
(* what the model expects AFTER it: whether the call panicked, what         *)
(* get_time_source(None) resolves to on EVERY thread (source id), the       *)
(* clock of every fake source, and for every instant taken so far its       *)
(* source and its elapsed().  `ts replay` (harness/src/bin/ts.rs) executes  *)
(* the calls on the real crate (one OS thread per model thread, two tokio   *)
(* runtimes) and reports the same observations; chk_x_timesource.py         *)
(* compares them step by step.                                              *)
(***************************************************************************)
EXTENDS TimeSource, Json

CONSTANT Depth
VARIABLES hist, done
rvars == <<vars, hist, done>>

(* a step records the call and a snapshot of the state after it (primed); the expectations are computed
   from the snapshots when the behaviour is printed *)
Step(op, t, v, r, k) ==
  [op |-> op, t |-> t, v |-> v, r |-> r, k |-> k,
   s |-> [cell |-> cell', guards |-> guards', inside |-> inside', rt |-> rt', clock |-> clock', inst |-> inst',
          pan |-> pan', lifo |-> lifo']]

Out(h) ==
  LET s == h.s IN
  [op |-> h.op, t |-> h.t, v |-> h.v, r |-> h.r, k |-> h.k,
   pan |-> s.pan,
   res |-> [u \in Threads |-> ResolveIn(s.cell, s.inside, s.rt, u)],
   clk |-> s.clock,
   isrc |-> [i \in 1..Len(s.inst) |-> s.inst[i].src],
   el |-> [i \in 1..Len(s.inst) |-> [u \in Threads |-> ElapsedIn(s.cell, s.inside, s.rt, s.clock, s.inst[i], u)]],
   \* for the statistics of the check only
   nonlifo |-> {u \in Threads : ~s.lifo[u]},
   leak |-> {u \in Threads : s.guards[u] = <<>> /\ s.cell[u] # None},
   masked |-> {u \in Threads : s.cell[u] # None /\ CurIn(s.inside, u) # None /\ s.rt[CurIn(s.inside, u)] # None}]

Rec(A, op, t, v, r, k) == A /\ hist' = Append(hist, Step(op, t, v, r, k))

RThread(t) ==
  \/ \E v \in TLVals : Rec(Set(t, v), "Set", t, v, "-", 0) \/ Rec(WithBegin(t, v), "WithBegin", t, v, "-", 0)
  \/ \E k \in 1..MaxGuards : Rec(Drop(t, k), "Drop", t, "-", "-", k)
  \/ Rec(WithEnd(t), "WithEnd", t, "-", "-", 0)
  \/ \E r \in Runtimes : Rec(Enter(t, r), "Enter", t, "-", r, 0)
  \/ Rec(Leave(t), "Leave", t, "-", "-", 0)
  \/ \E r \in Runtimes, v \in RtVals : Rec(RtInstall(t, r, v), "RtInstall", t, v, r, 0)
  \/ \E v \in RtVals : Rec(RtInstallCur(t, v), "RtInstallCur", t, v, "-", 0)
  \/ \E r \in Runtimes : Rec(RtDrop(t, r), "RtDrop", t, "-", r, 0)
  \/ \E x \in XVals \cup {None} : Rec(Take(t, x), "Take", t, x, "-", 0)

RNext ==
  \/ /\ Len(hist) < Depth /\ done' = FALSE
     /\ \/ \E t \in Actors : RThread(t)
        \/ \E s \in Sources, d \in Deltas : Rec(Advance(s, d), "Advance", "-", s, "-", d)
  \* one closing step, so that a random walk (-simulate evaluates invariants on every successor it generates,
  \* not only on the one it follows) prints exactly the behaviour it walked
  \/ /\ Len(hist) = Depth /\ ~done /\ done' = TRUE /\ UNCHANGED <<vars, hist>>

RInit == Init /\ hist = <<>> /\ done = FALSE
RSpec == RInit /\ [][RNext]_rvars

Emit == done =>
          PrintT(<<"REPLAY", ToJson([users |-> Users, workers |-> Workers,
                                     steps |-> [i \in 1..Len(hist) |-> Out(hist[i])]])>>)
=============================================================================
