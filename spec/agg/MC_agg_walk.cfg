\* -simulate walks: 3 keys (coarse key merges 1 and 2), 3 values (run with -depth 20)
CONSTANTS
  NK = 3
  Vals = {1, 2, 3}
  MaxIn = 20
  MaxGuards = 2
  MaxFlush = 20
  Depth = 20
SPECIFICATION RSpecB
INVARIANT Emit
CONSTRAINT Bound
CHECK_DEADLOCK FALSE
