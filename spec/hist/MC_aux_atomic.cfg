CONSTANTS
  Mode = "atomic"
  Procs = {1, 2, 3}
  NB = 3
SPECIFICATION ASpec
INVARIANT CloseReportsAll
CHECK_DEADLOCK FALSE
