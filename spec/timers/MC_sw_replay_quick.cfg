CONSTANTS
  Slots = {1, 2, 3}
  Ds = {1, 2}
  MaxClock = 1000
  W0 = 5
  W0B = 9000000
  Ambients = {"A"}
  Threads = {"main"}
  Resolution = "captured"
  UnwindDrops = FALSE
  Depth = 6
SPECIFICATION RSpec
INVARIANT Emit
INVARIANT SwInv
CONSTRAINT Bound
CHECK_DEADLOCK FALSE
