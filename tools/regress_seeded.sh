#!/bin/sh
# tools/regress_seeded.sh <scratch-name> <id>...   run seeded mutants against their property's quick check in a scratch copy;
# appends "id rc violations" lines to /verif/seeded/results-<scratch-name>.txt
name="$1"; shift
out=/verif/seeded/results-$name.txt
[ -d /tmp/wt-$name ] || /verif/tools/scratch new $name >/dev/null
git -C /tmp/wt-$name checkout -q --detach "$(git -C /repo rev-parse HEAD)"
for id in "$@"; do
  p=${id%%-*}
  line=$(/verif/tools/mutrun $name /verif/seeded/$id/patch.diff $p 2>&1 | tail -1 | cut -c1-260)
  echo "$id $line" >> $out
done
