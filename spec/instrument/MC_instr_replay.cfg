CONSTANTS
  MaxYields = 2
  MaxCallbacks = 2
  MaxLen = 7
SPECIFICATION RSpec
INVARIANT Emit_
CHECK_DEADLOCK FALSE
