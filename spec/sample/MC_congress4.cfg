CONSTANTS
  Groups = {g1, g2, g3}
  Vols = {0, 1, 4, 12}
  MaxIntervals = 4
  Targets = {5, 13}
  Ttl = 8
SPECIFICATION CSpec
SYMMETRY GroupSym
INVARIANT CInv
CHECK_DEADLOCK FALSE
