----------------------------- MODULE Stopwatch -----------------------------
(***************************************************************************)
(* C18: timers and stopwatches report exactly the spans they were asked to *)
(* measure (metrique/src/timers.rs over metrique-timesource).              *)
(*                                                                         *)
(* Three machines over one manually advanced clock:                        *)
(*                                                                         *)
(*  Stopwatch   implementation-shaped layer: the accumulated duration is   *)
(*              MaybeGuardedDuration = Exclusive(Option<Duration>) until   *)
(*              the first start_owned moves it into a shared               *)
(*              Arc<Mutex<Option<Duration>>> cell; guards capture their    *)
(*              span once (stop_ref is idempotent) and add it when they    *)
(*              are dropped; overwrite = take, then the drop adds;         *)
(*              discard forgets start and span; clear takes.  Rust's       *)
(*              borrow rule is part of the model: Stopwatch::start takes   *)
(*              &mut self, so while a borrowed guard lives the stopwatch   *)
(*              itself cannot be started, cleared or closed - only guards  *)
(*              (which own an Arc of the cell, or are the borrow) may act. *)
(*              Property layer: kept = the total of the completed,         *)
(*              non-discarded spans since the last clear/overwrite, None   *)
(*              if there is none.  SwInv: close() = kept in every state.   *)
(*                                                                         *)
(*  Timer       creation -> first stop, else -> close; repeated stops      *)
(*              change nothing.                                            *)
(*                                                                         *)
(*  Timestamp / TimestampOnClose                                           *)
(*              wall clock at creation / at close, in epoch seconds,       *)
(*              milliseconds, microseconds (value formatters EpochSeconds, *)
(*              EpochMillis, EpochMicros; the plain Value impl = millis).  *)
(*                                                                         *)
(* None is -1.  Durations and wall-clock times are in ticks; the harness   *)
(* chooses the length of a tick.                                           *)
(***************************************************************************)
EXTENDS Integers, FiniteSets, Sequences, TLC

CONSTANTS Slots,      \* guard slots (number of simultaneously live guards)
          Ds,         \* clock advances
          MaxClock,   \* bound on the clock (finite state space)
          W0          \* wall clock (ticks since the epoch) at clock = 0

None == -1

VARIABLES
    clock,
    \* ---- stopwatch, implementation layer
    repr,       \* "excl" | "shared"
    exclF,      \* contents of Exclusive(..)        (None after the switch: duration.take())
    cellF,      \* contents of the shared cell       (unused before the switch)
    guards,     \* [Slots -> [st: "free"|"live", kind: "b"|"o", start]]
    \* ---- stopwatch, property layer
    pAny, pSum,
    \* ---- timer: implementation (start, duration) and property layer (created, firstStop)
    tmSt, tmStart, tmDur, tmFirstStop,
    \* ---- timestamps
    tsAt,       \* Timestamp: wall clock captured at creation, None = no timestamp yet
    tocSt       \* TimestampOnClose: "absent" | "live"

swvars == <<repr, exclF, cellF, guards, pAny, pSum>>
tmvars == <<tmSt, tmStart, tmDur, tmFirstStop, tsAt, tocSt>>
vars == <<clock, swvars, tmvars>>

Free == [st |-> "free", kind |-> "b", start |-> 0]

Init ==
    /\ clock = 0
    /\ repr = "excl" /\ exclF = None /\ cellF = None
    /\ guards = [s \in Slots |-> Free]
    /\ pAny = FALSE /\ pSum = 0
    /\ tmSt = "absent" /\ tmStart = 0 /\ tmDur = None /\ tmFirstStop = None
    /\ tsAt = None /\ tocSt = "absent"

Live(s) == guards[s].st = "live"
Borrowed == \E s \in Slots : Live(s) /\ guards[s].kind = "b"
FreeSlots == {s \in Slots : ~Live(s)}
NextSlot == CHOOSE s \in FreeSlots : \A t \in FreeSlots : s <= t
NLive == Cardinality(Slots \ FreeSlots)

Advance(d) ==
    /\ clock + d <= MaxClock
    /\ clock' = clock + d
    /\ UNCHANGED <<swvars, tmvars>>

(***************************************************************************)
(* Stopwatch - implementation-shaped                                        *)
(***************************************************************************)
\* MaybeGuardedDuration as seen through `&mut self.duration` (borrowed guard, clear) or through
\* the guard's own Shared(..) clone (owned guard): both resolve to the cell once it exists.
Cur == IF repr = "shared" THEN cellF ELSE exclF
SetCur(v) == IF repr = "shared" THEN cellF' = v /\ UNCHANGED exclF
             ELSE exclF' = v /\ UNCHANGED cellF
\* AddAssign: Some(x.unwrap_or_default() + rhs)
Plus(acc, s) == IF acc = None THEN s ELSE acc + s

\* stop_ref: the span is captured once; later calls return the captured value
StopRef(selfTime, start) == IF selfTime # None THEN selfTime
                            ELSE IF start # None THEN clock - start ELSE None
\* Drop: stop_ref, then add if there is a span
AfterDrop(acc, selfTime, start) ==
    LET st == StopRef(selfTime, start) IN IF st # None THEN Plus(acc, st) ELSE acc

Release(s) == guards' = [guards EXCEPT ![s] = Free]

Start ==
    /\ ~Borrowed /\ FreeSlots # {}
    /\ guards' = [guards EXCEPT ![NextSlot] = [st |-> "live", kind |-> "b", start |-> clock]]
    /\ UNCHANGED <<clock, repr, exclF, cellF, pAny, pSum, tmvars>>

\* shared_cloned(): Exclusive(d) becomes Shared(Arc::new(Mutex::new(d.take())))
StartOwned ==
    /\ ~Borrowed /\ FreeSlots # {}
    /\ IF repr = "excl" THEN repr' = "shared" /\ cellF' = exclF /\ exclF' = None
       ELSE UNCHANGED <<repr, exclF, cellF>>
    /\ guards' = [guards EXCEPT ![NextSlot] = [st |-> "live", kind |-> "o", start |-> clock]]
    /\ UNCHANGED <<clock, pAny, pSum, tmvars>>

Span(s) == clock - guards[s].start

\* guard.stop(): stop_ref (capture), the value is returned, then Drop runs (stop_ref again: same value)
Stop(s) ==
    /\ Live(s)
    /\ LET captured == StopRef(None, guards[s].start)
       IN SetCur(AfterDrop(Cur, captured, guards[s].start))
    /\ Release(s)
    /\ pAny' = TRUE /\ pSum' = pSum + Span(s)
    /\ UNCHANGED <<clock, repr, tmvars>>
StopRet(s) == Span(s)

\* drop(guard)
DropGuard(s) ==
    /\ Live(s)
    /\ SetCur(AfterDrop(Cur, None, guards[s].start))
    /\ Release(s)
    /\ pAny' = TRUE /\ pSum' = pSum + Span(s)
    /\ UNCHANGED <<clock, repr, tmvars>>

\* guard.overwrite(): timer.take(), then Drop adds the guard's own span
Overwrite(s) ==
    /\ Live(s)
    /\ SetCur(AfterDrop(None, None, guards[s].start))
    /\ Release(s)
    /\ pAny' = TRUE /\ pSum' = Span(s)
    /\ UNCHANGED <<clock, repr, tmvars>>

\* guard.discard(): self_time.take(); start.take(); Drop finds nothing to add
Discard(s) ==
    /\ Live(s)
    /\ SetCur(AfterDrop(Cur, None, None))
    /\ Release(s)
    /\ UNCHANGED <<clock, repr, pAny, pSum, tmvars>>

\* stopwatch.clear(): duration.take() (live guards keep ticking and add later)
Clear ==
    /\ ~Borrowed
    /\ SetCur(None)
    /\ pAny' = FALSE /\ pSum' = 0
    /\ UNCHANGED <<clock, repr, guards, tmvars>>

\* CloseValue for &Stopwatch (Stopwatch.start is never set: the third arm yields None)
CloseVal == IF repr = "excl" THEN exclF ELSE cellF
\* property layer
Kept == IF pAny THEN pSum ELSE None
\* the stopwatch can be closed (observed) only while it is not mutably borrowed
Observable == ~Borrowed

SwNext ==
    \/ \E d \in Ds : Advance(d)
    \/ Start \/ StartOwned \/ Clear
    \/ \E s \in Slots : Stop(s) \/ DropGuard(s) \/ Overwrite(s) \/ Discard(s)

SwSpec == Init /\ [][SwNext]_vars

SwTypeOK ==
    /\ clock \in 0..MaxClock
    /\ repr \in {"excl", "shared"}
    /\ exclF \in {None} \cup Nat /\ cellF \in {None} \cup Nat
    /\ repr = "shared" => exclF = None
    /\ (\E s \in Slots : Live(s) /\ guards[s].kind = "o") => repr = "shared"
    /\ Cardinality({s \in Slots : Live(s) /\ guards[s].kind = "b"}) <= 1
SwInv == CloseVal = Kept

(***************************************************************************)
(* Timer                                                                    *)
(***************************************************************************)
TimerNew ==
    /\ tmSt = "absent"
    /\ tmSt' = "live" /\ tmStart' = clock /\ tmDur' = None /\ tmFirstStop' = None
    /\ UNCHANGED <<clock, swvars, tsAt, tocSt>>

\* timer.stop(): idempotent; returns the stored duration
TimerStop ==
    /\ tmSt = "live"
    /\ tmDur' = IF tmDur # None THEN tmDur ELSE clock - tmStart
    /\ tmFirstStop' = IF tmFirstStop # None THEN tmFirstStop ELSE clock
    /\ UNCHANGED <<clock, swvars, tmSt, tmStart, tsAt, tocSt>>
TimerStopRet == IF tmDur # None THEN tmDur ELSE clock - tmStart

\* CloseValue for &Timer
TimerCloseVal == IF tmDur # None THEN tmDur ELSE clock - tmStart
\* property layer: creation -> first stop, else creation -> now
TimerReport == IF tmFirstStop # None THEN tmFirstStop - tmStart ELSE clock - tmStart
TimerInv == tmSt = "live" => TimerCloseVal = TimerReport

(***************************************************************************)
(* Timestamp, TimestampOnClose                                              *)
(***************************************************************************)
Wall == W0 + clock
Units == {"Second", "Millisecond", "Microsecond"}
\* how many of the unit make one second: the reported number is (time since epoch) * PerSecond
PerSecond(u) == CASE u = "Second" -> 1 [] u = "Millisecond" -> 1000 [] u = "Microsecond" -> 1000000
\* Second and Millisecond are printed as floating point numbers, Microsecond as a whole number
Integral(u) == u = "Microsecond"

TsNew ==
    /\ tsAt = None
    /\ tsAt' = Wall
    /\ UNCHANGED <<clock, swvars, tmSt, tmStart, tmDur, tmFirstStop, tocSt>>
TsCloseVal == tsAt                    \* wall clock at creation, whenever it is closed

TocNew ==
    /\ tocSt = "absent"
    /\ tocSt' = "live"
    /\ UNCHANGED <<clock, swvars, tmSt, tmStart, tmDur, tmFirstStop, tsAt>>
\* closing consumes the TimestampOnClose and reports the wall clock at that moment
TocClose ==
    /\ tocSt = "live"
    /\ tocSt' = "absent"
    /\ UNCHANGED <<clock, swvars, tmSt, tmStart, tmDur, tmFirstStop, tsAt>>
TocCloseVal == Wall

TmNext ==
    \/ \E d \in Ds : Advance(d)
    \/ TimerNew \/ TimerStop \/ TsNew \/ TocNew \/ TocClose

TmSpec == Init /\ [][TmNext]_vars
TmTypeOK ==
    /\ tmSt \in {"absent", "live"} /\ tocSt \in {"absent", "live"}
    /\ tmDur \in {None} \cup Nat /\ tsAt \in {None} \cup Nat
    /\ tmDur # None <=> tmFirstStop # None
TmInv == TimerInv /\ (tsAt # None => tsAt >= W0 /\ tsAt <= Wall)
=============================================================================
