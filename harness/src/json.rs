//! Strict RFC 8259 JSON parser used as the judge for formatter output.
//! Numbers keep their source text; duplicate object members are reported, not merged.

#[derive(Clone, Debug, PartialEq)]
pub enum J {
    Null,
    Bool(bool),
    /// source text of the number
    Num(String),
    Str(String),
    Arr(Vec<J>),
    /// members in source order (duplicates preserved)
    Obj(Vec<(String, J)>),
}

impl J {
    pub fn get(&self, k: &str) -> Option<&J> {
        match self {
            J::Obj(m) => m.iter().find(|(n, _)| n == k).map(|(_, v)| v),
            _ => None,
        }
    }
    pub fn as_str(&self) -> Option<&str> {
        match self {
            J::Str(s) => Some(s),
            _ => None,
        }
    }
    pub fn as_arr(&self) -> Option<&[J]> {
        match self {
            J::Arr(a) => Some(a),
            _ => None,
        }
    }
    pub fn as_obj(&self) -> Option<&[(String, J)]> {
        match self {
            J::Obj(a) => Some(a),
            _ => None,
        }
    }
    pub fn num_text(&self) -> Option<&str> {
        match self {
            J::Num(s) => Some(s),
            _ => None,
        }
    }
    pub fn as_f64(&self) -> Option<f64> {
        self.num_text().and_then(|s| s.parse().ok())
    }
    /// Convert to serde_json (numbers as f64 or u64/i64 when integral text)
    pub fn to_serde(&self) -> serde_json::Value {
        use serde_json::Value as V;
        match self {
            J::Null => V::Null,
            J::Bool(b) => V::Bool(*b),
            J::Num(s) => serde_json::from_str(s).unwrap_or(V::String(s.clone())),
            J::Str(s) => V::String(s.clone()),
            J::Arr(a) => V::Array(a.iter().map(|x| x.to_serde()).collect()),
            J::Obj(m) => V::Object(m.iter().map(|(k, v)| (k.clone(), v.to_serde())).collect()),
        }
    }
}

#[derive(Debug, Clone, PartialEq)]
pub struct ParseError {
    pub pos: usize,
    pub msg: String,
}

pub struct Parsed {
    pub value: J,
    /// paths (dotted) of duplicated members
    pub duplicates: Vec<String>,
}

struct P<'a> {
    b: &'a [u8],
    i: usize,
    dups: Vec<String>,
    path: Vec<String>,
}

fn err<T>(pos: usize, msg: &str) -> Result<T, ParseError> {
    Err(ParseError {
        pos,
        msg: msg.to_string(),
    })
}

impl<'a> P<'a> {
    fn ws(&mut self) {
        while self.i < self.b.len() && matches!(self.b[self.i], b' ' | b'\t' | b'\n' | b'\r') {
            self.i += 1;
        }
    }
    fn value(&mut self, depth: usize) -> Result<J, ParseError> {
        if depth > 200 {
            return err(self.i, "too deep");
        }
        self.ws();
        let Some(&c) = self.b.get(self.i) else {
            return err(self.i, "unexpected end");
        };
        match c {
            b'{' => {
                self.i += 1;
                let mut m: Vec<(String, J)> = Vec::new();
                self.ws();
                if self.b.get(self.i) == Some(&b'}') {
                    self.i += 1;
                    return Ok(J::Obj(m));
                }
                loop {
                    self.ws();
                    if self.b.get(self.i) != Some(&b'"') {
                        return err(self.i, "expected member name");
                    }
                    let k = self.string()?;
                    self.ws();
                    if self.b.get(self.i) != Some(&b':') {
                        return err(self.i, "expected ':'");
                    }
                    self.i += 1;
                    self.path.push(k.clone());
                    let v = self.value(depth + 1)?;
                    if m.iter().any(|(n, _)| *n == k) {
                        self.dups.push(self.path.join("."));
                    }
                    self.path.pop();
                    m.push((k, v));
                    self.ws();
                    match self.b.get(self.i) {
                        Some(b',') => self.i += 1,
                        Some(b'}') => {
                            self.i += 1;
                            return Ok(J::Obj(m));
                        }
                        _ => return err(self.i, "expected ',' or '}'"),
                    }
                }
            }
            b'[' => {
                self.i += 1;
                let mut a = Vec::new();
                self.ws();
                if self.b.get(self.i) == Some(&b']') {
                    self.i += 1;
                    return Ok(J::Arr(a));
                }
                loop {
                    self.path.push(format!("[{}]", a.len()));
                    let v = self.value(depth + 1)?;
                    self.path.pop();
                    a.push(v);
                    self.ws();
                    match self.b.get(self.i) {
                        Some(b',') => self.i += 1,
                        Some(b']') => {
                            self.i += 1;
                            return Ok(J::Arr(a));
                        }
                        _ => return err(self.i, "expected ',' or ']'"),
                    }
                }
            }
            b'"' => Ok(J::Str(self.string()?)),
            b't' => self.lit("true", J::Bool(true)),
            b'f' => self.lit("false", J::Bool(false)),
            b'n' => self.lit("null", J::Null),
            b'-' | b'0'..=b'9' => self.number(),
            _ => err(self.i, "unexpected character"),
        }
    }
    fn lit(&mut self, s: &str, v: J) -> Result<J, ParseError> {
        if self.b[self.i..].starts_with(s.as_bytes()) {
            self.i += s.len();
            Ok(v)
        } else {
            err(self.i, "bad literal")
        }
    }
    fn number(&mut self) -> Result<J, ParseError> {
        let start = self.i;
        if self.b.get(self.i) == Some(&b'-') {
            self.i += 1;
        }
        match self.b.get(self.i) {
            Some(b'0') => self.i += 1,
            Some(b'1'..=b'9') => {
                while matches!(self.b.get(self.i), Some(b'0'..=b'9')) {
                    self.i += 1;
                }
            }
            _ => return err(self.i, "bad number"),
        }
        if self.b.get(self.i) == Some(&b'.') {
            self.i += 1;
            if !matches!(self.b.get(self.i), Some(b'0'..=b'9')) {
                return err(self.i, "bad fraction");
            }
            while matches!(self.b.get(self.i), Some(b'0'..=b'9')) {
                self.i += 1;
            }
        }
        if matches!(self.b.get(self.i), Some(b'e' | b'E')) {
            self.i += 1;
            if matches!(self.b.get(self.i), Some(b'+' | b'-')) {
                self.i += 1;
            }
            if !matches!(self.b.get(self.i), Some(b'0'..=b'9')) {
                return err(self.i, "bad exponent");
            }
            while matches!(self.b.get(self.i), Some(b'0'..=b'9')) {
                self.i += 1;
            }
        }
        Ok(J::Num(
            std::str::from_utf8(&self.b[start..self.i]).unwrap().to_string(),
        ))
    }
    fn hex4(&mut self) -> Result<u32, ParseError> {
        if self.i + 4 > self.b.len() {
            return err(self.i, "short \\u escape");
        }
        let mut v = 0u32;
        for k in 0..4 {
            let c = self.b[self.i + k];
            let d = match c {
                b'0'..=b'9' => c - b'0',
                b'a'..=b'f' => c - b'a' + 10,
                b'A'..=b'F' => c - b'A' + 10,
                _ => return err(self.i + k, "bad hex digit"),
            };
            v = v * 16 + d as u32;
        }
        self.i += 4;
        Ok(v)
    }
    fn string(&mut self) -> Result<String, ParseError> {
        // at opening quote
        self.i += 1;
        let mut out: Vec<u8> = Vec::new();
        loop {
            let Some(&c) = self.b.get(self.i) else {
                return err(self.i, "unterminated string");
            };
            match c {
                b'"' => {
                    self.i += 1;
                    break;
                }
                b'\\' => {
                    self.i += 1;
                    let Some(&e) = self.b.get(self.i) else {
                        return err(self.i, "unterminated escape");
                    };
                    self.i += 1;
                    match e {
                        b'"' => out.push(b'"'),
                        b'\\' => out.push(b'\\'),
                        b'/' => out.push(b'/'),
                        b'b' => out.push(8),
                        b'f' => out.push(12),
                        b'n' => out.push(b'\n'),
                        b'r' => out.push(b'\r'),
                        b't' => out.push(b'\t'),
                        b'u' => {
                            let mut cp = self.hex4()?;
                            if (0xD800..0xDC00).contains(&cp) {
                                if self.b.get(self.i) == Some(&b'\\')
                                    && self.b.get(self.i + 1) == Some(&b'u')
                                {
                                    self.i += 2;
                                    let lo = self.hex4()?;
                                    if !(0xDC00..0xE000).contains(&lo) {
                                        return err(self.i, "bad low surrogate");
                                    }
                                    cp = 0x10000 + ((cp - 0xD800) << 10) + (lo - 0xDC00);
                                } else {
                                    return err(self.i, "lone high surrogate");
                                }
                            } else if (0xDC00..0xE000).contains(&cp) {
                                return err(self.i, "lone low surrogate");
                            }
                            let ch = char::from_u32(cp).ok_or(ParseError {
                                pos: self.i,
                                msg: "bad code point".into(),
                            })?;
                            let mut buf = [0u8; 4];
                            out.extend_from_slice(ch.encode_utf8(&mut buf).as_bytes());
                        }
                        _ => return err(self.i - 1, "bad escape"),
                    }
                }
                0x00..=0x1f => return err(self.i, "raw control character in string"),
                _ => {
                    out.push(c);
                    self.i += 1;
                }
            }
        }
        String::from_utf8(out).map_err(|_| ParseError {
            pos: self.i,
            msg: "invalid utf-8 in string".into(),
        })
    }
}

/// Parse exactly one JSON value spanning the whole input (surrounding whitespace allowed).
pub fn parse(input: &[u8]) -> Result<Parsed, ParseError> {
    if std::str::from_utf8(input).is_err() {
        return err(0, "input is not valid utf-8");
    }
    let mut p = P {
        b: input,
        i: 0,
        dups: vec![],
        path: vec![],
    };
    let v = p.value(0)?;
    p.ws();
    if p.i != input.len() {
        return err(p.i, "trailing characters");
    }
    Ok(Parsed {
        value: v,
        duplicates: p.dups,
    })
}

/// Split newline-framed output: every line must end with '\n' and be non-empty.
pub fn split_lines(out: &[u8]) -> Result<Vec<&[u8]>, String> {
    if out.is_empty() {
        return Ok(vec![]);
    }
    if *out.last().unwrap() != b'\n' {
        return Err("output does not end with a newline".into());
    }
    let body = &out[..out.len() - 1];
    let lines: Vec<&[u8]> = body.split(|c| *c == b'\n').collect();
    if lines.iter().any(|l| l.is_empty()) {
        return Err("empty line in output".into());
    }
    Ok(lines)
}

#[cfg(test)]
mod tests {
    use super::*;
    #[test]
    fn strict() {
        assert!(parse(b"{\"a\":[1,]}").is_err());
        assert!(parse(b"{\"a\":1,}").is_err());
        assert!(parse(b"{\"a\":01}").is_err());
        assert!(parse(b"{\"a\":NaN}").is_err());
        assert!(parse(b"{\"a\":\"\x01\"}").is_err());
        let p = parse(b"{\"a\":1,\"a\":2,\"b\":{\"c\":1,\"c\":2}}").unwrap();
        assert_eq!(p.duplicates, vec!["a".to_string(), "b.c".to_string()]);
        let p = parse(b" {\"x\":\"\\ud83d\\ude00\\n\",\"y\":-1.5e+10} ").unwrap();
        assert_eq!(p.value.get("x").unwrap().as_str().unwrap(), "\u{1F600}\n");
        assert!(parse(b"{} x").is_err());
    }
}
