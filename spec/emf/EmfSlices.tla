------------------------------ MODULE EmfSlices ------------------------------
(***************************************************************************)
(* Enumeration slices for EmfFormat (DESIGN 4.1).  Each slice is           *)
(* exhaustive over its own call alphabet / configurations:                 *)
(*   A  value rendering: one metric x every observation list x unit x flag *)
(*      x multiplicity, plus a second member behind it                     *)
(*   B  validation: every call sequence over names x {STR, MET, ERR,       *)
(*      EMPTY} x dims, timestamps, configs                                 *)
(*   C  split / dimension sets: per-metric dimensions, entry dimensions    *)
(*      early / late / twice / empty, both modes                           *)
(*   D  a catalogue of rich entries x the full configuration product       *)
(*   E  the full product (simulation)                                      *)
(***************************************************************************)
EXTENDS EmfReplay

DD0 == << <<>> >>
DD1 == << <<"d1">> >>
DD2 == << <<>>, <<"d1">> >>
DDs == {DD0, DD1, DD2}
Mults == {"none", "m1", "m3", "sat"}
Units == {"none", "std", "custom"}
Flags == {"none", "hires", "nometric"}

ObsLists == {
    <<"U">>, <<"F">>, <<"NaN">>, <<"PInf">>, <<"NInf">>, <<>>,
    <<"U", "F">>, <<"U", "NaN">>, <<"NaN", "U">>, <<"U", "NaN", "F">>, <<"NaN", "NaN">>,
    <<"U", "NaN", "NaN">>, <<"NaN", "U", "NaN">>, <<"F", "NaN", "U", "NaN">>,
    <<"Rep4">>, <<"Rep0">>, <<"RepNaN">>, <<"RepInf">>, <<"RepNaN", "U">>, <<"U", "RepNaN">>,
    <<"RepBig", "Rep1">>, <<"Rep0", "NaN">>, <<"PInf", "NInf", "F">> }

NoDims == <<>>
K1V1 == << <<"k1", "v1">> >>
K1V2 == << <<"k1", "v2">> >>
AV1  == << <<"a", "v1">> >>
K2K1 == << <<"k2", "v1">>, <<"k1", "v1">> >>
K1K2 == << <<"k1", "v1">>, <<"k2", "v1">> >>

FullConfigs == {CfgRec(dd, ns, ig, m, lg, ex) :
                  dd \in DDs, ns \in 1..3, ig \in BOOLEAN, m \in Mults, lg \in BOOLEAN, ex \in BOOLEAN}

\* ------------------------------------------------------------------ slice A
ConfigsA == {CfgRec(DD0, ns, FALSE, m, FALSE, FALSE) : ns \in {1, 2}, m \in Mults}
A1 == {MET("a", o, u, NoDims, f) : o \in ObsLists, u \in Units, f \in Flags}
A2 == {MET("b", o, "none", NoDims, "none") : o \in {<<"U">>, <<"NaN">>, <<"U", "NaN">>, <<>>}}
      \cup {STR("s", "nasty")}
NextA(h) == IF h = <<>> THEN A1
            ELSE IF Len(h) = 1 /\ h[1].unit = "none" /\ h[1].flag = "none" THEN A2
            ELSE {}
\* the same through a per-dimension-set buffer
InitA2 == {<<CFG("split")>>}
A3 == {MET("a", o, "std", K1V1, "none") : o \in ObsLists}
NextA2(h) == IF Len(h) = 1 THEN A3
             ELSE IF Len(h) = 2 THEN {MET("b", <<"U", "NaN">>, "none", K1V1, "hires"), MET("b", <<"NaN">>, "none", NoDims, "none")}
             ELSE {}

\* ------------------------------------------------------------------ slice B
ConfigsB == {CfgRec(dd, 1, ig, "none", FALSE, FALSE) : dd \in DDs, ig \in BOOLEAN}
NamesB == {"a", "d1", "", "_aws"}
CallsB == {STR(nm, "plain") : nm \in NamesB \cup {"k1", "d2"}}
          \cup {MET(nm, <<"U">>, "none", d, "none") : nm \in NamesB, d \in {NoDims, K1V1, AV1}}
          \cup {MET("a", <<>>, "none", NoDims, "none"), MET("a", <<"NaN">>, "none", K1V1, "none")}
          \cup {ERRV("a"), EMPTYV("a"), EMPTYV(""), ERRV("_aws")}
          \cup {TS("t1"), CFG("split"), CFG("ed_d2"), CFG("ed_unit"), CFG("unroutable")}
NextB(h) == CallsB

\* ------------------------------------------------------------------ slice C
ConfigsC == {CfgRec(dd, 2, ig, "none", FALSE, FALSE) : dd \in DDs, ig \in BOOLEAN}
\* depth 3 (thorough): without the single configured set [[d1]] (it has depth 2 in the quick slice and is in B, D)
ConfigsCt == {c \in ConfigsC : c.dd # DD1}
CallsC == {CFG("split"), CFG("ed_d2"), CFG("ed_two"), CFG("ed_empty"), CFG("ed_unit"), STR("d1", "plain"), STR("d2", "nasty")}
          \cup {MET("s", <<"F">>, "std", NoDims, "nometric"), MET("s", <<"U">>, "none", NoDims, "hires"),
                MET("s", <<"U">>, "custom", K1V1, "nometric"), MET("s", <<"F">>, "none", K1V2, "hires")}
          \cup {MET(nm, <<"U">>, "none", d, "none") : nm \in {"a", "b"}, d \in {NoDims, K1V1, K1V2, K2K1, AV1}}
          \cup {MET("b", <<"NaN">>, "std", K1V1, "none"), MET("b", <<"F">>, "std", K1K2, "nometric")}
NextC(h) == CallsC
InitC == {<<>>, <<CFG("split")>>, <<CFG("split"), STR("d1", "plain")>>,
          <<CFG("split"), STR("d1", "plain"), STR("d2", "plain"), CFG("ed_two")>>,
          <<STR("d1", "plain"), STR("d2", "plain"), CFG("ed_d2"), CFG("split"), MET("a", <<"U">>, "none", K1V1, "none")>>}

\* ------------------------------------------------------------------ slice D
Base == <<TS("t1"), CFG("split"), STR("d1", "plain")>>
Catalogue == {
    <<>>,
    <<TS("t0")>>,
    <<STR("d1", "nasty")>>,
    Base,
    Base \o <<MET("a", <<"U">>, "none", NoDims, "none")>>,
    Base \o <<MET("a", <<"F">>, "std", NoDims, "hires"), MET("b", <<"U", "F">>, "custom", NoDims, "none")>>,
    Base \o <<MET("a", <<"Rep4">>, "custom", NoDims, "nometric"), STR("s", "nasty"), MET("b", <<"U">>, "std", NoDims, "none")>>,
    Base \o <<MET("a", <<"U", "NaN">>, "std", NoDims, "none"), MET("b", <<"NaN">>, "std", NoDims, "none")>>,
    Base \o <<MET("a", <<"RepBig", "Rep1", "Rep0">>, "none", NoDims, "hires")>>,
    Base \o <<MET("a", <<"PInf">>, "none", NoDims, "none"), MET("b", <<"NInf", "NaN">>, "none", NoDims, "none")>>,
    Base \o <<MET("a", <<"U">>, "std", K1V1, "none")>>,
    Base \o <<MET("a", <<"U">>, "std", K1V1, "none"), MET("a", <<"F">>, "std", K1V2, "none")>>,
    Base \o <<MET("a", <<"U">>, "std", K1V1, "hires"), MET("b", <<"F">>, "custom", K1V1, "none"), MET("s", <<"U">>, "none", NoDims, "none")>>,
    Base \o <<MET("a", <<"U">>, "none", K1V1, "none"), MET("b", <<"U">>, "none", K2K1, "none"), MET("s", <<"F", "F">>, "std", K1K2, "nometric")>>,
    Base \o <<MET("a", <<"NaN">>, "none", K1V1, "none"), MET("b", <<"U">>, "none", K1V2, "none")>>,
    Base \o <<MET("a", <<"NaN">>, "none", K1V1, "none")>>,
    Base \o <<STR("d2", "plain"), CFG("ed_d2"), MET("a", <<"U">>, "std", NoDims, "none")>>,
    Base \o <<STR("d2", "nasty"), CFG("ed_two"), MET("a", <<"U">>, "std", NoDims, "none"), MET("b", <<"F">>, "none", K1V1, "none")>>,
    Base \o <<CFG("ed_two"), MET("a", <<"U">>, "std", K1V1, "none"), STR("d2", "plain"), MET("a", <<"U">>, "std", K1V2, "hires")>>,
    Base \o <<MET("a", <<"U">>, "none", AV1, "none")>>,
    Base \o <<STR("s", "plain"), MET("b", <<"U">>, "none", <<<<"s", "v1">>>>, "none")>>,
    Base \o <<MET("b", <<"U">>, "none", <<<<"s", "v1">>>>, "none"), STR("s", "plain")>>,
    Base \o <<MET("a", <<"U">>, "none", NoDims, "none"), MET("b", <<"U">>, "none", AV1, "none")>>,
    Base \o <<MET("b", <<"U">>, "none", AV1, "none"), MET("a", <<"U">>, "none", AV1, "none")>>,
    Base \o <<MET("a", <<"U">>, "none", NoDims, "none"), MET("a", <<"U">>, "none", NoDims, "none")>>,
    Base \o <<MET("a", <<>>, "none", NoDims, "none"), STR("a", "plain")>>,
    Base \o <<MET("d1", <<"U">>, "none", NoDims, "none")>>,
    Base \o <<TS("t0"), MET("a", <<"U">>, "none", NoDims, "none")>>,
    Base \o <<ERRV("a"), MET("b", <<"U">>, "none", NoDims, "none")>>,
    Base \o <<EMPTYV("a"), MET("a", <<"U">>, "none", NoDims, "none"), EMPTYV("b")>>,
    Base \o <<MET("", <<"U">>, "none", NoDims, "none")>>,
    Base \o <<STR("_aws", "plain"), MET("a", <<"U">>, "none", NoDims, "none")>>,
    \* flags next to split records: dimension-less metrics that are all NoMetric still need the global record
    Base \o <<MET("a", <<"U">>, "std", K1V1, "none"), MET("b", <<"F">>, "custom", NoDims, "nometric")>>,
    Base \o <<MET("b", <<"F">>, "custom", NoDims, "nometric"), MET("a", <<"U">>, "std", K1V1, "none"), MET("s", <<"U", "F">>, "none", NoDims, "nometric")>>,
    Base \o <<MET("a", <<"U">>, "std", K1V1, "none"), MET("b", <<"F">>, "custom", NoDims, "nometric"), MET("s", <<"U">>, "none", NoDims, "hires")>>,
    Base \o <<MET("a", <<"U">>, "std", K1V1, "nometric"), MET("b", <<"F">>, "none", NoDims, "hires")>>,
    Base \o <<MET("a", <<"U">>, "std", K1V1, "nometric")>>,
    Base \o <<MET("a", <<"NaN">>, "std", K1V1, "none"), MET("b", <<"F">>, "custom", NoDims, "nometric")>>,
    Base \o <<MET("b", <<"F">>, "custom", NoDims, "nometric")>>,
    \* a single empty entry-dimension set is a configuration like any other
    Base \o <<CFG("ed_unit"), MET("a", <<"U">>, "std", NoDims, "none"), MET("b", <<"U">>, "none", K1V1, "none")>>,
    Base \o <<STR("d2", "plain"), CFG("ed_unit"), CFG("ed_d2"), MET("a", <<"U">>, "none", NoDims, "none")>>,   \* twice
    Base \o <<STR("d2", "plain"), CFG("ed_d2"), CFG("ed_unit"), MET("a", <<"U">>, "none", NoDims, "none")>>,   \* twice
    Base \o <<CFG("ed_unit"), CFG("ed_unit"), MET("a", <<"U">>, "none", NoDims, "none")>>,                     \* twice
    Base \o <<MET("a", <<"U">>, "none", K1V1, "none"), CFG("ed_unit")>>,                                      \* late
    \* every listed defect injected alone into an otherwise valid entry
    Base \o <<STR("d2", "plain"), MET("a", <<"U">>, "none", K1V1, "none"), CFG("ed_d2")>>,            \* late
    Base \o <<STR("d2", "plain"), CFG("ed_d2"), CFG("ed_two"), MET("a", <<"U">>, "none", NoDims, "none")>>,  \* twice
    Base \o <<CFG("ed_empty"), MET("a", <<"U">>, "none", NoDims, "none")>>,                         \* empty
    Base \o <<CFG("ed_d2"), MET("a", <<"U">>, "none", NoDims, "none")>>,                            \* d2 missing
    Base \o <<STR("d2", "plain"), CFG("ed_d2"), MET("d2", <<"U">>, "none", NoDims, "none")>>,        \* metric under entry dimension
    Base \o <<MET("d2", <<"U">>, "none", NoDims, "none"), CFG("ed_d2")>>,
    Base \o <<STR("s", "plain"), STR("s", "nasty")>>,
    Base \o <<STR("s", "plain"), MET("s", <<"U">>, "none", NoDims, "none")>>,
    Base \o <<MET("a", <<"U">>, "none", K1V1, "none"), MET("a", <<"F">>, "none", K1V1, "none")>>,
    Base \o <<MET("a", <<"U">>, "none", NoDims, "none"), EMPTYV("_aws")>>,
    <<TS("t1"), CFG("split"), MET("a", <<"U">>, "none", NoDims, "none")>>,                           \* d1 missing when configured
    <<CFG("unroutable"), STR("s", "nasty")>>,
    <<CFG("unroutable"), STR("s", "nasty"), MET("a", <<"U">>, "none", NoDims, "none"), MET("a", <<"U">>, "none", NoDims, "none")>>,
    <<TS("t1"), STR("d1", "plain"), MET("a", <<"U">>, "none", K1V1, "none")>>,
    <<TS("t1"), STR("d1", "plain"), MET("a", <<"U">>, "none", K1V1, "none"), CFG("split"), MET("b", <<"U">>, "none", K1V1, "none")>> }
NextNone(h) == {}
\* quick subset of the configuration product: everything except pairs that only touch `_aws`
ConfigsDq == {CfgRec(dd, ns, ig, m, ns = 3, ns = 2) : dd \in DDs, ns \in 1..3, ig \in BOOLEAN, m \in {"none", "m3"}}

\* ------------------------------------------------------------------ slice E
NamesE == {"a", "b", "s", "d1", "d2", "k1", "", "_aws"}
CallsE == {TS("t1"), TS("t0"), CFG("split"), CFG("unroutable"), CFG("ed_d2"), CFG("ed_two"), CFG("ed_empty"), CFG("ed_unit")}
          \cup {STR(nm, sv) : nm \in NamesE, sv \in {"plain", "nasty"}}
          \cup {MET(nm, o, u, d, f) : nm \in NamesE, o \in ObsLists, u \in Units,
                                      d \in {NoDims, K1V1, K1V2, AV1, K2K1}, f \in Flags}
          \cup {ERRV(nm) : nm \in NamesE} \cup {EMPTYV(nm) : nm \in NamesE}
NextE(h) == CallsE
\* simulation that is biased towards accepted entries: a valid prefix, then anything
InitE == {<<>>, Base, <<CFG("split"), STR("d1", "plain"), STR("d2", "plain"), CFG("ed_two")>>}
ObsE2 == {<<"U">>, <<"F">>, <<"U", "NaN">>, <<"NaN">>, <<"Rep4", "F">>, <<"RepBig", "Rep0">>, <<"PInf", "U", "RepNaN">>, <<>>}
CallsE2 == {TS("t1"), CFG("split"), CFG("ed_d2"), CFG("ed_two"), CFG("ed_unit")}
           \cup {STR(nm, sv) : nm \in {"a", "b", "s"}, sv \in {"plain", "nasty"}}
           \cup {MET(nm, o, u, d, f) : nm \in {"a", "b", "s"}, o \in ObsE2, u \in Units, d \in {NoDims, K1V1, K1V2, K2K1}, f \in Flags}
           \cup {EMPTYV(nm) : nm \in {"a", "b"}}
\* a name is used once, except by metrics with per-metric dimensions (different split records)
NextE2(h) == {c \in CallsE2 : c.name = NoArg \/ (c.op = "MET" /\ c.dims # <<>>) \/ \A i \in 1..Len(h) : h[i].name # c.name}
Empty0 == {<<>>}
=============================================================================
