"""C16: partial writes and I/O errors never tear, duplicate or stall metric output.

spec/emf/VectoredWrite.tla    write_all_vectored / advance_slices against a nondeterministic writer
                              (accept any 1..total, Ok(0), Interrupted, hard error); TLC: VInv + Terminates
spec/emf/VectoredWriteReplay  every terminated behaviour = every (buffers, writer script)
spec/emf/VectoredTrace.tla    trace validation of the call log of the scripted io::Write (T)
spec/emf/SinkErrors.tla       hand-off log of a sink / Tee under ok|val|io results and flush errors
spec/queue/QueueTrace.tla     the same rule for the BackgroundQueue (QueueAbs.Next ignores the result)
harness/src/bin/vw.rs         scripted io::Write on the real write loop and on real EMF records; sinks
harness/src/bin/bq.rs         BackgroundQueue scenarios with scripted results / flush errors
"""
import json, os, random
from concurrent.futures import ThreadPoolExecutor
import vlib
from vlib import log

SPECD = os.path.join(vlib.SPEC, "emf")
QSPECD = os.path.join(vlib.SPEC, "queue")


# --------------------------------------------------------------------------------------------
# models
# --------------------------------------------------------------------------------------------
def bug_run(chk, module, base_cfg, bug, inv):
    with open(os.path.join(SPECD, base_cfg)) as f:
        base = f.read()
    cfg = os.path.join(chk.dir, f"{module}_bug_{bug}.cfg")
    with open(cfg, "w") as f:
        f.write("\n".join(l for l in base.replace('Bug = "none"', f'Bug = "{bug}"').splitlines() if not l.startswith("PROPERTY")))
    r = vlib.tlc(SPECD, module, cfg, workers=2, timeout=300)
    if inv not in r.invariant_violated:
        raise vlib.ToolError(f"{module} with Bug={bug} does not violate {inv}: the model cannot see this defect")


def model_runs(chk, tier):
    r = vlib.model_check(SPECD, "VectoredWrite", "MC_vw.cfg", timeout=900)
    chk.add_model("VectoredWrite/MC_vw.cfg", r)
    for act in ("Start", "Accept", "Zero", "Interrupted", "Hard", "Finish"):
        if r.coverage.get(act, 0) == 0:
            raise vlib.ToolError(f"VectoredWrite: action {act} never taken")
    for cfg in ("MC_sink1.cfg", "MC_sink2.cfg"):
        r = vlib.model_check(SPECD, "SinkErrors", cfg, timeout=300)
        chk.add_model("SinkErrors/" + cfg, r)
    bugs = [("VectoredWrite", "MC_vw.cfg", "offByOne", "VInv"), ("SinkErrors", "MC_sink2.cfg", "andThen", "SInv")]
    if tier == "thorough":
        bugs += [("VectoredWrite", "MC_vw.cfg", "zeroIsProgress", "VInv"), ("VectoredWrite", "MC_vw.cfg", "interruptedIsFatal", "VInv"),
                 ("SinkErrors", "MC_sink2.cfg", "returnOnError", "SInv"), ("SinkErrors", "MC_sink2.cfg", "poison", "SInv")]
    for m, c, b, inv in bugs:
        bug_run(chk, m, c, b, inv)
    chk.extra["model_bugs_caught"] = [b for _, _, b, _ in bugs]


# --------------------------------------------------------------------------------------------
# trace validation of writer logs (chunks in parallel; a rejected scenario is classified with
# the property-layer configuration and removed, the rest of its chunk is validated again)
# --------------------------------------------------------------------------------------------
def _validate_file(args):
    path, cfg = args
    return vlib.validate_trace(SPECD, "VectoredTrace", cfg, path, timeout=900)


def validate_writer_traces(chk, prop, trace_path, meta_path, kind, nchunks=4, max_rejects=6):
    metas = vlib.read_ndjson(meta_path)
    with open(trace_path) as f:
        lines = f.readlines()
    per = max(1, (len(metas) + nchunks - 1) // nchunks)
    chunks = [metas[i:i + per] for i in range(0, len(metas), per)]
    accepted = 0
    rejected = []

    def write_chunk(ms, path):
        with open(path, "w") as f:
            for m in ms:
                f.writelines(vlib.lines_for(lines, m))

    def work(ci_ms):
        ci, ms = ci_ms
        ms = [m for m in ms if not m.get("bad")]     # already reported from the byte-level checks
        rej, acc = [], 0
        while ms:
            path = f"{trace_path}.c{ci}"
            write_chunk(ms, path)
            v = _validate_file((path, "VectoredTrace.cfg"))
            if v.accepted:
                return acc + len(ms), rej
            # find the scenario that contains the rejected line; everything before it was accepted
            pos, hit = 0, None
            for k, m in enumerate(ms):
                if pos + m["events"] >= (v.line or 1):
                    hit = k
                    break
                pos += m["events"]
            if hit is None:
                hit = len(ms) - 1
            m = ms[hit]
            acc += hit
            ms = ms[hit + 1:]
            one = f"{trace_path}.r{m['id']}"
            write_chunk([m], one)
            strict = _validate_file((one, "VectoredTrace.cfg"))
            absv = _validate_file((one, "VectoredTraceAbs.cfg"))
            rej.append((m, strict, absv, one))
            if len(rej) >= max_rejects:
                return acc, rej
        return acc, rej

    with ThreadPoolExecutor(max_workers=nchunks) as ex:
        for acc, rej in ex.map(work, list(enumerate(chunks))):
            accepted += acc
            rejected += rej
    for m, strict, absv, one in rejected:
        with open(one) as f:
            tr = [json.loads(l) for l in f]
        if not absv.accepted:
            what = (f"{kind} {m['id']}: the writer's call log is not a behaviour of VectoredWrite (property layer): "
                    + (f"invariant {absv.invariant}" if absv.invariant else f"event {json.dumps(absv.event)} (line {absv.line}) is not enabled")
                    + f"; model state <<phase, pc, last answer, remaining slices, delivered>> = {absv.state}")
            chk.violation(what, {"kind": kind, "scenario": m["scenario"], "trace": tr}, key=f"{prop}:{kind}:trace")
        elif not strict.accepted:
            if len(chk.drift) < 20:
                chk.drift.append({"kind": kind, "id": m["id"], "what": "offered slice lengths differ from the model's slices",
                                  "event": strict.event, "line": strict.line, "model": strict.state})
    return accepted, len(rejected)


def direct_bad(chk, prop, metas, kind):
    nbad = 0
    for m in metas:
        if m["bad"]:
            nbad += 1
            chk.violation(f"{kind} {m['id']}: " + "; ".join(m["bad"][:3]), {"kind": kind, "scenario": m["scenario"], "bad": m["bad"]},
                          key=f"{prop}:{kind}:bytes")
    return nbad


def run_writer_scripts(chk, prop, tier, scripts=None, tag="scripts"):
    if scripts is None:
        cfg = "MC_vw_replay.cfg" if tier == "quick" else "MC_vw_replay_thorough.cfg"
        r = vlib.tlc(SPECD, "VectoredWriteReplay", cfg, timeout=1800)
        if r.errors or not r.no_error:
            raise vlib.ToolError(f"VectoredWriteReplay/{cfg}: {r.errors[:2]}")
        chk.add_model("VectoredWriteReplay/" + cfg, r)
        scripts = vlib.replay_lines(r)
        for i, s in enumerate(scripts):
            s["id"] = i + 1
    if not scripts:
        raise vlib.ToolError("no writer scripts generated")
    sp, tp, mp = (os.path.join(chk.dir, f"{tag}-{x}.ndjson") for x in ("in", "trace", "meta"))
    vlib.write_ndjson(sp, scripts)
    vlib.run_bin("vw", ["scripts", "--scripts", sp, "--out", tp, "--meta", mp], timeout=1800)
    metas = vlib.read_ndjson(mp)
    if len(metas) != len(scripts):
        raise vlib.ToolError("vw scripts: result count mismatch")
    nbad = direct_bad(chk, prop, metas, "writer-script")
    acc, nrej = validate_writer_traces(chk, prop, tp, mp, "writer-script", nchunks=4 if tier == "quick" else 8)
    for m in metas:
        chk.evaluations += 1
        if not m["agrees"] and not m["bad"] and len(chk.drift) < 20:
            chk.drift.append({"kind": "writer-script", "id": m["id"], "what": "result differs from the model", "real": m["res"], "model": m["model_res"]})
        chk.nontrivial.add("ws:" + json.dumps([m["scenario"]["lens"], [(c["ans"], c["k"]) for c in m["scenario"]["calls"]]]))
    chk.traces += max(0, acc - nbad)
    st = chk.extra.setdefault("writer_scripts", {})
    st["scripts"] = len(scripts)
    st["with_interrupt"] = sum(1 for s in scripts if any(c["ans"] == "intr" for c in s["calls"]))
    st["ending_zero"] = sum(1 for s in scripts if s["calls"] and s["calls"][-1]["ans"] == "zero")
    st["ending_hard"] = sum(1 for s in scripts if s["calls"] and s["calls"][-1]["ans"] == "hard")
    st["with_empty_buffers"] = sum(1 for s in scripts if 0 in s["lens"])
    st["trace_events"] = sum(m["events"] for m in metas)
    st["traces_accepted"] = acc
    st["traces_rejected"] = nrej
    chk.sample({"writer_script": scripts[len(scripts) // 2]})


# --------------------------------------------------------------------------------------------
# random writer behaviour on real EMF records
# --------------------------------------------------------------------------------------------
SHAPES = {
    "v1": ["scalar", "hist", "entryDims", "allNaN", "split1", "split2", "dupField", "large"],       # single namespace
    "v2d": ["scalar", "hist", "split1", "split2", "missingDim", "large", "entryDims"],              # two namespaces
    "v3dd": ["scalar", "split1", "split2", "hist", "errValue", "large", "twoTs"],                   # three namespaces, directive
    "n1": ["scalar", "split2", "dupField", "emptyName", "large"],
}


def gen_records(rng, n):
    out = []
    for i in range(n):
        cfg = rng.choice(list(SHAPES))
        kinds = [rng.choice(SHAPES[cfg]) for _ in range(rng.randint(3, 7))]
        mode = rng.choice(["calm", "calm", "faulty", "hostile", "interrupts"])
        p = {"calm": (50, 0, 0), "faulty": (100, 15, 15), "hostile": (150, 60, 60), "interrupts": (500, 0, 5)}[mode]
        out.append({"id": i + 1, "cfg": cfg, "kinds": kinds, "seed": rng.randrange(1 << 30), "intr": p[0], "zero": p[1], "hard": p[2],
                    "small": rng.random() < 0.5 and "large" not in kinds, "mode": mode})
    return out


def run_records(chk, prop, tier, scen=None, tag="records"):
    rng = random.Random(chk.seed * 104729 + 16)
    if scen is None:
        scen = gen_records(rng, 400 if tier == "quick" else 20000)
    sp, tp, mp = (os.path.join(chk.dir, f"{tag}-{x}.ndjson") for x in ("in", "trace", "meta"))
    vlib.write_ndjson(sp, scen)
    vlib.run_bin("vw", ["records", "--scenarios", sp, "--out", tp, "--meta", mp], timeout=3600)
    metas = vlib.read_ndjson(mp)
    nbad = direct_bad(chk, prop, metas, "record-scenario")
    acc, nrej = validate_writer_traces(chk, prop, tp, mp, "record-scenario", nchunks=4 if tier == "quick" else 8)
    chk.traces += max(0, acc - nbad)
    st = chk.extra.setdefault("record_scenarios", {"scenarios": 0, "entries": 0, "io_errors": 0, "entries_after_io_error_ok": 0,
                                                   "multi_line_entries": 0, "calls": 0, "trace_events": 0})
    st["scenarios"] += len(metas)
    st["trace_events"] += sum(m["events"] for m in metas)
    st["traces_accepted"] = st.get("traces_accepted", 0) + acc
    st["traces_rejected"] = st.get("traces_rejected", 0) + nrej
    for m in metas:
        prev_io = False
        for e in m["entries"]:
            chk.evaluations += 1
            st["entries"] += 1
            st["calls"] += e["calls"]
            st["io_errors"] += e["res"] == "io"
            st["multi_line_entries"] += e["lines"] > 1
            if prev_io and e["res"] == "ok":
                st["entries_after_io_error_ok"] += 1
            prev_io = e["res"] == "io"
            chk.nontrivial.add("rec:" + json.dumps([m["scenario"]["cfg"], e["kind"], e["res"], e["calls"], e["received"]]))
    # multi-megabyte records: bytes compared by the harness only (not modelled byte by byte)
    if tag == "records":
        big = [{"id": i + 1, "cfg": rng.choice(["v1", "v2d"]), "kinds": rng.choice([["huge", "scalar"], ["scalar", "huge", "split2"], ["huge", "huge"]]),
                "seed": rng.randrange(1 << 30), "intr": 100, "zero": z, "hard": z, "small": False, "mode": "huge"}
               for i, z in enumerate([0, 0, 30, 60] * (1 if tier == "quick" else 10))]
        bp, bt, bm = (os.path.join(chk.dir, f"big-{x}.ndjson") for x in ("in", "trace", "meta"))
        vlib.write_ndjson(bp, big)
        vlib.run_bin("vw", ["records", "--scenarios", bp, "--out", bt, "--meta", bm], timeout=3600)
        bmetas = vlib.read_ndjson(bm)
        direct_bad(chk, prop, bmetas, "record-scenario")
        chk.extra["multi_megabyte_entries_byte_checked"] = sum(1 for m in bmetas for e in m["entries"] if e["kind"] == "huge")
        chk.evaluations += sum(len(m["entries"]) for m in bmetas)
        os.remove(bt)
    chk.sample({"record_scenario": metas[0]["scenario"], "entries": metas[0]["entries"][:4]})


# --------------------------------------------------------------------------------------------
# sinks: FlushImmediately / Tee (R) and BackgroundQueue (T, QueueTrace.tla)
# --------------------------------------------------------------------------------------------
def sink_scripts(chk, tier):
    out = []
    for cfg, sinks in (("MC_sink1_replay.cfg", ["imm_typed", "imm_boxed", "imm_any"]),
                       ("MC_sink2_replay_quick.cfg" if tier == "quick" else "MC_sink2_replay.cfg", ["tee", "tee_any"])):
        r = vlib.tlc(SPECD, "SinkErrorsReplay", cfg, timeout=1800)
        if r.errors or not r.no_error:
            raise vlib.ToolError(f"SinkErrorsReplay/{cfg}: {r.errors[:2]}")
        chk.add_model("SinkErrorsReplay/" + cfg, r)
        beh = vlib.replay_lines(r)
        if not beh:
            raise vlib.ToolError(f"SinkErrorsReplay/{cfg}: no scripts")
        for b in beh:
            for s in sinks:
                out.append(dict(b, sink=s))
    for i, s in enumerate(out):
        s["id"] = i + 1
    return out


def run_sinks(chk, prop, tier, scripts=None, tag="sinks"):
    if scripts is None:
        scripts = sink_scripts(chk, tier)
    sp, op = (os.path.join(chk.dir, f"{tag}-{x}.ndjson") for x in ("in", "out"))
    vlib.write_ndjson(sp, scripts)
    vlib.run_bin("vw", ["sinks", "--scripts", sp, "--out", op], timeout=1800)
    outs = {o["id"]: o for o in vlib.read_ndjson(op)}
    os.remove(op) if tier == "thorough" and tag == "sinks" else None
    nok = 0
    st = chk.extra.setdefault("sink_scripts", {"scripts": 0, "appends": 0, "failing_results": 0, "flush_drift": 0})
    for s in scripts:
        o = outs[s["id"]]
        n = len(s["steps"])
        streams = ["a", "b"] if s["streams"] == 2 else ["a"]
        problems = []
        if o["panics"]:
            problems.append(f"append panicked: {o['panics'][0]}")
        for t in streams:
            got = [e["e"] for e in o["events"] if e["ev"] == "Next" and e.get("s") == t]
            want = s["handed"][t]
            if got != want:
                problems.append(f"stream {t} was handed entries {got}, expected each of {want} exactly once in order "
                                f"(results scripted: {[(x['a'], x['b']) for x in s['steps']]})")
            # harness sanity: the stream answered what the script says
            ans = [e["res"] for e in o["events"] if e["ev"] == "Next" and e.get("s") == t]
            if got == want and ans != [x[t] for x in s["steps"]]:
                raise vlib.ToolError(f"sink script {s['id']}: the scripted stream did not answer as scripted")
            fl = sum(1 for e in o["events"] if e["ev"] == "Flush" and e.get("s") == t)
            if fl != s["flushes"][t] and not problems:
                st["flush_drift"] += 1
                if len(chk.drift) < 20:
                    chk.drift.append({"kind": "sink", "sink": s["sink"], "stream": t, "what": "number of stream flushes differs from the model",
                                      "real": fl, "model": s["flushes"][t], "steps": s["steps"]})
        chk.evaluations += 1
        st["scripts"] += 1
        st["appends"] += n
        st["failing_results"] += sum(1 for x in s["steps"] for t in streams if x[t] != "ok")
        chk.nontrivial.add("sink:" + json.dumps([s["sink"], s["steps"]]))
        if problems:
            chk.violation(f"sink {s['sink']}: " + "; ".join(problems[:2]),
                          {"kind": "sink", "script": s, "events": o["events"], "panics": o["panics"]}, key=f"{prop}:sink:{s['sink']}")
        else:
            nok += 1
    chk.traces += nok
    mid = scripts[len(scripts) // 2]
    chk.sample({"sink_script": {"sink": mid["sink"], "steps": mid["steps"]}, "events": outs[mid["id"]]["events"][:10]})


def queue_scenarios(chk, tier):
    """BackgroundQueue under the result scripts of SinkErrorsReplay (one stream) plus longer seeded ones."""
    r = vlib.tlc(SPECD, "SinkErrorsReplay", "MC_sink1_replay.cfg", timeout=600)
    beh = vlib.replay_lines(r)
    rng = random.Random(chk.seed * 31337 + 16)
    seen, scen = set(), []
    for b in beh:
        res = tuple(x["a"] for x in b["steps"])
        ferr = any(x["fa"] for x in b["steps"])
        if (res, ferr) in seen:
            continue
        seen.add((res, ferr))
        scen.append({"cap": 8, "boxed": len(scen) % 2 == 1, "flush_us": rng.choice([50, 1000, 59_000_000]),
                     "producers": [{"n": len(res), "pace_us": 0}],
                     "results": {str(10001 + i): x for i, x in enumerate(res) if x != "ok"},
                     "report_res": ["ok", "io", "val"][len(scen) % 3], "flushers": [{"count": 1, "delay_us": 0, "gap_us": 0}] if len(scen) % 4 == 0 else [],
                     "end": ["drop", "live"][len(scen) % 2], "flush_err": ferr, "permille": 0, "max_us": 0})
    for i in range(20 if tier == "quick" else 600):
        nprod = rng.choice([1, 1, 2, 3])
        prods = [{"n": rng.randint(4, 30), "pace_us": rng.choice([0, 0, 20])} for _ in range(nprod)]
        results = {}
        pv, pi = rng.choice([(0.3, 0.3), (0.5, 0.5), (0.1, 0.6), (1.0, 0.0), (0.0, 1.0)])
        for p_i, p in enumerate(prods):
            for k in range(1, p["n"] + 1):
                x = rng.random()
                if x < pv:
                    results[str((p_i + 1) * 10000 + k)] = "val"
                elif x < pv + pi:
                    results[str((p_i + 1) * 10000 + k)] = "io"
        total = sum(p["n"] for p in prods)
        scen.append({"cap": total + 4, "boxed": rng.random() < 0.5, "flush_us": rng.choice([1, 100, 59_000_000]), "producers": prods,
                     "results": results, "report_res": rng.choice(["ok", "io", "val"]),
                     "flushers": [{"count": rng.randint(1, 2), "delay_us": rng.randint(0, 300), "gap_us": 100}] if rng.random() < 0.5 else [],
                     "end": rng.choice(["drop", "live"]), "flush_err": rng.random() < 0.5, "permille": rng.choice([0, 300]), "max_us": 100})
    for i, s in enumerate(scen):
        s["id"] = i + 1
        s["seed"] = chk.seed * 100000 + i
    return scen


def run_queue(chk, prop, tier, scen=None, tag="bq"):
    if scen is None:
        scen = queue_scenarios(chk, tier)
    sp, tp, mp = (os.path.join(chk.dir, f"{tag}-{x}.ndjson") for x in ("scen", "trace", "meta"))
    vlib.write_ndjson(sp, scen)
    vlib.run_bin("bq", ["run", "--scenarios", sp, "--out", tp, "--meta", mp], timeout=3600)

    def on_reject(meta, v, lines):
        what = (f"BackgroundQueue scenario {meta['id']} with scripted stream results is not a behaviour of QueueAbs: "
                + (f"invariant {v.invariant} violated" if v.invariant else f"event {json.dumps(v.event)} (line {v.rel_line}) is not enabled")
                + f"; abstract state before it: {v.state}")
        ev = v.event if isinstance(v.event, dict) else {}
        chk.violation(what, {"kind": "queue", "scenario": meta["scenario"], "event": v.event, "trace": [json.loads(l) for l in lines]},
                      key=f"{prop}:queue:{ev.get('ev')}")

    acc = vlib.validate_scenarios(QSPECD, "QueueTrace", "QueueTrace.cfg", tp, mp, on_reject, stats=chk.extra)
    chk.traces += acc
    metas = vlib.read_ndjson(mp)
    st = chk.extra.setdefault("queue_scenarios", {"scenarios": 0, "failing_results": 0, "flush_err": 0, "events": 0})
    for m in metas:
        s = m["scenario"]
        chk.evaluations += 1
        st["scenarios"] += 1
        st["failing_results"] += len(s["results"])
        st["flush_err"] += bool(s.get("flush_err"))
        st["events"] += m["events"]
        chk.nontrivial.add("bq:" + json.dumps([s["results"], s.get("flush_err"), s.get("report_res"), s.get("end"), s.get("boxed")], sort_keys=True))


# --------------------------------------------------------------------------------------------
def run(prop, tier):
    chk = vlib.Check(prop, tier)
    chk.rule = ("evaluations = TLC writer scripts played against the real write_all_vectored + entries of real EMF records formatted "
                "into a randomly answering writer + TLC result scripts on FlushImmediately/Tee + BackgroundQueue scenarios; "
                "distinct_nontrivial = distinct (buffers, script) / (configuration, kind, result, #calls, #bytes) / (sink, script) / queue parameter tuples")
    chk.assumptions = [
        "exhaustive writer scripts: <= 3 buffers of <= 3 bytes, <= 1 interruption per call sequence in the quick tier, <= 2 in thorough and in model checking; larger ones are seeded random on real records",
        "the reference bytes of a record are those an all-accepting writer receives from a freshly built formatter",
        "multi-megabyte records are byte-compared by the harness but not validated by TLC (the model numbers every byte)",
        "a skipped stream flush after a failed append is not forbidden by the property statement: reported as MODEL-DRIFT",
        "BackgroundQueue: crossbeam queue trusted linearizable; completion observed with a 10 s budget (see C01)",
    ]
    vlib.cargo_build(["vw", "bq"])
    import time
    steps = [("models", model_runs), ("writer scripts", lambda c, t: run_writer_scripts(c, prop, t)),
             ("records", lambda c, t: run_records(c, prop, t)), ("sinks", lambda c, t: run_sinks(c, prop, t)),
             ("queue", lambda c, t: run_queue(c, prop, t))]
    for name, step in steps:
        t0 = time.time()
        step(chk, tier)
        log(f"[{prop}] {name}: {time.time() - t0:.1f}s")
    return chk.finish()


def replay(prop, path):
    with open(path) as f:
        v = json.load(f)
    rp = v["replay"]
    vlib.cargo_build(["vw", "bq"])
    chk = vlib.Check(prop + "-replay", "quick")
    kind = rp.get("kind")
    if kind == "writer-script":
        run_writer_scripts(chk, prop, "quick", scripts=[dict(rp["scenario"], id=1)], tag="replay")
    elif kind == "record-scenario":
        run_records(chk, prop, "quick", scen=[dict(rp["scenario"], id=1)], tag="replay")
    elif kind == "sink":
        run_sinks(chk, prop, "quick", scripts=[dict(rp["script"], id=1)], tag="replay")
    elif kind == "queue":
        run_queue(chk, prop, "quick", scen=[dict(rp["scenario"], id=i + 1) for i in range(5)], tag="replay")
    else:
        raise vlib.ToolError(f"unknown replay kind {kind}")
    log("replay:", "violation reproduced" if chk.violations else "no violation")
    return 1 if chk.violations else 0
