SPECIFICATION CSpec
CONSTRAINT Track
POSTCONDITION Accepted
CHECK_DEADLOCK FALSE
