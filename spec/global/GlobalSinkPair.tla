-------------------------- MODULE GlobalSinkPair --------------------------
(***************************************************************************)
(* C17 - two `global_entry_sink!` types in one process.                    *)
(*                                                                         *)
(* Every invocation of the macro defines its own global: its own attached  *)
(* slot, its own thread-local test sink per thread and its own runtime     *)
(* test sink per tokio runtime.  Threads and runtimes are shared by the    *)
(* two globals, their state is not: this module is the product of two      *)
(* copies of GlobalSink.tla in which every operation belongs to exactly    *)
(* one copy.                                                               *)
(*   Independent   an operation on one global leaves every variable of the *)
(*                 other - in particular Dest(t, c) of every caller, what  *)
(*                 its sinks received, and whether an install on it panics *)
(*                 - unchanged;                                            *)
(* so the behaviour of each global is a function of the operations on it   *)
(* only, and each satisfies all of GlobalSink's properties by itself.      *)
(* Conformance: the driver runs a history on one global next to a second   *)
(* global (the "bystander") that was set up by another history on the same *)
(* threads and runtimes, and checks both against their own oracle.         *)
(***************************************************************************)
EXTENDS Naturals, Sequences, FiniteSets, TLC

CONSTANTS Threads, Runtimes, MaxSinks, MaxEntries

VARIABLES att1, hs1, tl1, rt1, asyncs1, pend1, recv1, closed1, back1, gone1, nsink1, nent1, poisoned1, last1,
          att2, hs2, tl2, rt2, asyncs2, pend2, recv2, closed2, back2, gone2, nsink2, nent2, poisoned2, last2

vars1 == <<att1, hs1, tl1, rt1, asyncs1, pend1, recv1, closed1, back1, gone1, nsink1, nent1, poisoned1, last1>>
vars2 == <<att2, hs2, tl2, rt2, asyncs2, pend2, recv2, closed2, back2, gone2, nsink2, nent2, poisoned2, last2>>

G1 == INSTANCE GlobalSink WITH
    att <- att1,
    hs <- hs1,
    tl <- tl1,
    rt <- rt1,
    asyncs <- asyncs1,
    pend <- pend1,
    recv <- recv1,
    closed <- closed1,
    back <- back1,
    gone <- gone1,
    nsink <- nsink1,
    nent <- nent1,
    poisoned <- poisoned1,
    last <- last1
G2 == INSTANCE GlobalSink WITH
    att <- att2,
    hs <- hs2,
    tl <- tl2,
    rt <- rt2,
    asyncs <- asyncs2,
    pend <- pend2,
    recv <- recv2,
    closed <- closed2,
    back <- back2,
    gone <- gone2,
    nsink <- nsink2,
    nent <- nent2,
    poisoned <- poisoned2,
    last <- last2

Init == G1!Init /\ G2!Init
Next == (G1!Next /\ UNCHANGED vars2) \/ (G2!Next /\ UNCHANGED vars1)
Spec == Init /\ [][Next]_<<vars1, vars2>>

Inv == G1!Inv /\ G2!Inv
\* every step is an operation on exactly one global and does not touch the other one
Independent == [][ (vars1' # vars1 => UNCHANGED vars2) /\ (vars2' # vars2 => UNCHANGED vars1) ]_<<vars1, vars2>>
\* ... so no caller's destination on the other global moves
DestStable == [][ \A t \in Threads, c \in {0} \cup Runtimes :
                    /\ (vars1' # vars1 => G2!DestP(t, c) = G2!Dest(t, c))
                    /\ (vars2' # vars2 => G1!DestP(t, c) = G1!Dest(t, c)) ]_<<vars1, vars2>>
Routed1 == G1!Routed
Routed2 == G2!Routed
=============================================================================
