------------------------------ MODULE EmfReplay ------------------------------
(***************************************************************************)
(* Behaviour generator for EmfFormat: every reachable state is an entry    *)
(* (configuration + call sequence); it is printed once, as one JSON line,  *)
(* TOGETHER WITH the result the model computes for it with validations on  *)
(* (`on`) and off (`off`).  `emf replay` issues exactly these calls        *)
(* against the real formatter and checks/chk_emf.py compares.              *)
(***************************************************************************)
EXTENDS EmfFormat, Json

Emit == PrintT(<<"REPLAY", ToJson([cfg |-> cfg, calls |-> calls, on |-> ResOn, off |-> ResOff])>>)
=============================================================================
