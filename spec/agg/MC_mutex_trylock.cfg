\* self-test: close with try_lock (seeded mutant C10-m4) does NOT refine MutexAbs
CONSTANTS
  Mergers = {1, 2}
  NIn = 2
  NClose = 2
  TryLock = TRUE
SPECIFICATION Spec
INVARIANTS AbsInv AtEnd
PROPERTY Refines
CHECK_DEADLOCK FALSE
