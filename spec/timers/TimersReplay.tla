---------------------------- MODULE TimersReplay ----------------------------
(***************************************************************************)
(* Behaviour generator for the Timer / Timestamp / TimestampOnClose         *)
(* machines of Stopwatch.tla, stepped through the real types by `tm tm`.    *)
(* After every step: timer = what closing &Timer must report (-2: no timer  *)
(* yet), ts = the wall-clock tick &Timestamp must report (-1: none yet);    *)
(* ret = the value returned by Timer::stop resp. the wall-clock tick a      *)
(* TimestampOnClose reports when it is closed in this step.                 *)
(* The header carries the unit table: reported number = seconds since the   *)
(* epoch * perSec, printed as a whole number iff integral.                  *)
(***************************************************************************)
EXTENDS Stopwatch, Json

CONSTANTS Depth
VARIABLE hist

RInit == Init /\ hist = <<>>

H(op, d, ret) == hist' = Append(hist, [op |-> op, d |-> d, ret |-> ret,
                                       timer |-> IF tmSt' = "live" THEN TimerReport' ELSE -2,
                                       ts |-> TsCloseVal'])
LastOp == IF hist = <<>> THEN "" ELSE hist[Len(hist)].op

RNext ==
    \/ \E d \in Ds : LastOp # "Advance" /\ Advance(d) /\ H("Advance", d, None)
    \/ TimerNew /\ H("TimerNew", 0, None)
    \/ TimerStop /\ H("TimerStop", 0, TimerStopRet)
    \/ TsNew /\ H("TsNew", 0, None)
    \/ TocNew /\ H("TocNew", 0, None)
    \/ TocClose /\ H("TocClose", 0, TocCloseVal)

RSpec == RInit /\ [][RNext]_<<vars, hist>>
Bound == Len(hist) <= Depth
UnitTable == [u \in Units |-> [perSec |-> PerSecond(u), integral |-> Integral(u)]]
Emit == (Len(hist) = Depth) => PrintT(<<"REPLAY", ToJson([w0 |-> W0, units |-> UnitTable, steps |-> hist])>>)
=============================================================================
