------------------------- MODULE BackgroundQueue -------------------------
(***************************************************************************)
(* Implementation-shaped model of metrique-writer/src/sink/background.rs:  *)
(* one action per critical section / scheduling point of the code.         *)
(*                                                                         *)
(*   producers  AStart ; Push (= ArrayQueue::force_push) ; PUnpark          *)
(*   flushers   FSend (mpsc send of the FlushSignal) ; FUnpark ; wait       *)
(*   handle     HSetFlag ; HUnpark ; HJoin      or  HForget                 *)
(*   writer     Receiver::run, drain_until_deadline, WakerTracker::        *)
(*              handle_waiting_wakers (exact arithmetic), park_deadline,    *)
(*              the outer flush, the two exit checks, shut_down             *)
(*   time       one boolean dl = "the current flush deadline has passed"   *)
(*                                                                         *)
(* TLC checks, for every interleaving within the constants of the MC_*.cfg *)
(* files, that this model refines the property layer QueueAbs (C01 exactly *)
(* once / order, C04 barrier, C05 shutdown, C09 drop-oldest) plus liveness *)
(* (flush completes, forgotten queue terminates).  Entry(p,n) = 100*p+n.   *)
(***************************************************************************)
EXTENDS Naturals, Sequences, FiniteSets, TLC

CONSTANTS Producers,    \* set of producer ids (1..9)
          MaxApp,       \* entries appended per producer
          Cap,          \* queue capacity
          Flushers,     \* set of flush-request ids
          K,            \* the clock is read every K entries while draining (32 in the code)
          Results,      \* possible stream results per entry, subset of {"ok","val","io"}
          AllowForget,  \* the handle may be forgotten
          AllowTick     \* the flush deadline may pass (FALSE models flush_interval = 59s)

VARIABLES queue, token, wpc, cnt, status, cur, chan, waiting, ebw, written, fl, closed,
          ppc, pn, fpc, failed, before, flag, hstate, snap, refs, mainHeld, dl, displaced,
          done, lastRes, rep,
          consSince     \* history: entries handed to the stream since the tracked batch of flush requests was collected

vars == <<queue, token, wpc, cnt, status, cur, chan, waiting, ebw, written, fl, closed,
          ppc, pn, fpc, failed, before, flag, hstate, snap, refs, mainHeld, dl, displaced,
          done, lastRes, rep, consSince>>

Entry(p, n) == 100 * p + n
SeqRange(s) == {s[i] : i \in 1..Len(s)}
\* entries whose append has returned
Ended == UNION {{Entry(p, i) : i \in 1..(IF ppc[p] = "unpark" THEN pn[p] - 1 ELSE pn[p])} : p \in Producers}

Init ==
    /\ queue = <<>> /\ token = FALSE /\ wpc = "OuterStart" /\ cnt = 0 /\ status = "Drained"
    /\ cur = 0 /\ chan = <<>> /\ waiting = {} /\ ebw = 0 /\ written = <<>> /\ fl = 0
    /\ closed = FALSE
    /\ ppc = [p \in Producers |-> "idle"] /\ pn = [p \in Producers |-> 0]
    /\ fpc = [f \in Flushers |-> "idle"] /\ failed = [f \in Flushers |-> FALSE]
    /\ before = [f \in Flushers |-> {}]
    /\ flag = FALSE /\ hstate = "held" /\ snap = {} /\ refs = 1 + Cardinality(Producers)
    /\ mainHeld = TRUE /\ dl = FALSE /\ displaced = {} /\ done = {} /\ lastRes = "none"
    /\ rep = FALSE /\ consSince = 0

\* ---------------- producers (Inner::push) ----------------------------------------------
PVars == <<ppc, pn>>
AStart(p) ==
    /\ ppc[p] = "idle" /\ pn[p] < MaxApp
    /\ ppc' = [ppc EXCEPT ![p] = "push"]
    /\ UNCHANGED <<queue, token, wpc, cnt, status, cur, chan, waiting, ebw, written, fl, closed,
                   pn, fpc, failed, before, flag, hstate, snap, refs, mainHeld, dl, displaced,
                   done, lastRes, rep>>
    /\ UNCHANGED consSince
Push(p) ==
    /\ ppc[p] = "push"
    /\ LET e == Entry(p, pn[p] + 1) IN
         IF Len(queue) = Cap
           THEN /\ queue' = Append(Tail(queue), e)
                /\ displaced' = displaced \cup {Head(queue)}
           ELSE /\ queue' = Append(queue, e)
                /\ UNCHANGED displaced
    /\ pn' = [pn EXCEPT ![p] = @ + 1]
    /\ ppc' = [ppc EXCEPT ![p] = "unpark"]
    /\ UNCHANGED <<token, wpc, cnt, status, cur, chan, waiting, ebw, written, fl, closed, fpc,
                   failed, before, flag, hstate, snap, refs, mainHeld, dl, done, lastRes, rep>>
    /\ UNCHANGED consSince
PUnpark(p) ==
    /\ ppc[p] = "unpark"
    /\ token' = TRUE
    /\ ppc' = [ppc EXCEPT ![p] = "idle"]
    /\ UNCHANGED <<queue, wpc, cnt, status, cur, chan, waiting, ebw, written, fl, closed, pn,
                   fpc, failed, before, flag, hstate, snap, refs, mainHeld, dl, displaced, done,
                   lastRes, rep>>
    /\ UNCHANGED consSince
DropSink(p) ==
    /\ ppc[p] = "idle" /\ pn[p] = MaxApp
    /\ ppc' = [ppc EXCEPT ![p] = "dropped"]
    /\ refs' = refs - 1
    /\ UNCHANGED <<queue, token, wpc, cnt, status, cur, chan, waiting, ebw, written, fl, closed,
                   pn, fpc, failed, before, flag, hstate, snap, mainHeld, dl, displaced, done,
                   lastRes, rep>>
    /\ UNCHANGED consSince
\* the harness's own queue handle, dropped once the join handle has been dealt with
DropMain ==
    /\ mainHeld /\ hstate \in {"forgotten", "joined"}
    /\ mainHeld' = FALSE /\ refs' = refs - 1
    /\ UNCHANGED <<queue, token, wpc, cnt, status, cur, chan, waiting, ebw, written, fl, closed,
                   ppc, pn, fpc, failed, before, flag, hstate, snap, dl, displaced, done,
                   lastRes, rep>>
    /\ UNCHANGED consSince

\* ---------------- flushers (Inner::flush_async) ----------------------------------------
FSend(f) ==
    /\ fpc[f] = "idle" /\ mainHeld
    /\ IF wpc = "Done"
         THEN failed' = [failed EXCEPT ![f] = TRUE] /\ UNCHANGED chan  \* receiver gone: signal dropped
         ELSE chan' = Append(chan, f) /\ UNCHANGED failed
    /\ before' = [before EXCEPT ![f] = Ended]
    /\ fpc' = [fpc EXCEPT ![f] = "unpark"]
    /\ UNCHANGED <<queue, token, wpc, cnt, status, cur, waiting, ebw, written, fl, closed, ppc,
                   pn, flag, hstate, snap, refs, mainHeld, dl, displaced, done, lastRes, rep>>
    /\ UNCHANGED consSince
FUnpark(f) ==
    /\ fpc[f] = "unpark"
    /\ token' = TRUE
    /\ fpc' = [fpc EXCEPT ![f] = "wait"]
    /\ UNCHANGED <<queue, wpc, cnt, status, cur, chan, waiting, ebw, written, fl, closed, ppc, pn,
                   failed, before, flag, hstate, snap, refs, mainHeld, dl, displaced, done,
                   lastRes, rep>>
    /\ UNCHANGED consSince
\* a request whose signal was dropped by a failed send completes by itself
FComplete(f) ==
    /\ fpc[f] \in {"unpark", "wait"} /\ failed[f] /\ f \notin done
    /\ done' = done \cup {f}
    /\ UNCHANGED <<queue, token, wpc, cnt, status, cur, chan, waiting, ebw, written, fl, closed,
                   ppc, pn, fpc, failed, before, flag, hstate, snap, refs, mainHeld, dl,
                   displaced, lastRes, rep>>
    /\ UNCHANGED consSince

\* ---------------- join handle ----------------------------------------------------------
HSetFlag ==
    /\ hstate = "held" /\ flag' = TRUE /\ hstate' = "unpark" /\ snap' = Ended
    /\ UNCHANGED <<queue, token, wpc, cnt, status, cur, chan, waiting, ebw, written, fl, closed,
                   ppc, pn, fpc, failed, before, refs, mainHeld, dl, displaced, done, lastRes, rep>>
    /\ UNCHANGED consSince
HUnpark ==
    /\ hstate = "unpark" /\ token' = TRUE /\ hstate' = "joining"
    /\ UNCHANGED <<queue, wpc, cnt, status, cur, chan, waiting, ebw, written, fl, closed, ppc, pn,
                   fpc, failed, before, flag, snap, refs, mainHeld, dl, displaced, done, lastRes,
                   rep>>
    /\ UNCHANGED consSince
HJoin ==
    /\ hstate = "joining" /\ wpc = "Done" /\ hstate' = "joined"
    /\ UNCHANGED <<queue, token, wpc, cnt, status, cur, chan, waiting, ebw, written, fl, closed,
                   ppc, pn, fpc, failed, before, flag, snap, refs, mainHeld, dl, displaced, done,
                   lastRes, rep>>
    /\ UNCHANGED consSince
HForget ==
    /\ AllowForget /\ hstate = "held" /\ hstate' = "forgotten"
    /\ UNCHANGED <<queue, token, wpc, cnt, status, cur, chan, waiting, ebw, written, fl, closed,
                   ppc, pn, fpc, failed, before, flag, snap, refs, mainHeld, dl, displaced, done,
                   lastRes, rep>>
    /\ UNCHANGED consSince

\* ---------------- time -------------------------------------------------------------------
Tick ==
    /\ AllowTick /\ ~dl /\ wpc # "Done" /\ dl' = TRUE
    /\ UNCHANGED <<queue, token, wpc, cnt, status, cur, chan, waiting, ebw, written, fl, closed,
                   ppc, pn, fpc, failed, before, flag, hstate, snap, refs, mainHeld, displaced,
                   done, lastRes, rep>>
    /\ UNCHANGED consSince

\* ---------------- writer thread (Receiver::run) -----------------------------------------
WUnch == UNCHANGED <<ppc, pn, fpc, failed, before, flag, hstate, snap, refs, mainHeld, displaced>>

OuterStart ==
    /\ wpc = "OuterStart" /\ ~rep
    /\ dl' = FALSE /\ wpc' = "Drain" /\ cnt' = 0
    /\ UNCHANGED <<queue, token, status, cur, chan, waiting, ebw, written, fl, closed, done,
                   lastRes, rep>> /\ WUnch
    /\ UNCHANGED consSince

\* drain_until_deadline: queue.pop()
PopSome(at) ==
    /\ wpc = at /\ ~rep /\ cur = 0 /\ queue # <<>>
    /\ cur' = Head(queue) /\ queue' = Tail(queue)
    /\ UNCHANGED <<token, wpc, cnt, status, chan, waiting, ebw, written, fl, closed, dl, done,
                   lastRes, rep>> /\ WUnch
    /\ UNCHANGED consSince
PopNone(at, next) ==
    /\ wpc = at /\ ~rep /\ cur = 0 /\ queue = <<>>
    /\ status' = "Drained" /\ wpc' = next
    /\ UNCHANGED <<queue, token, cnt, cur, chan, waiting, ebw, written, fl, closed, dl, done,
                   lastRes, rep>> /\ WUnch
    /\ UNCHANGED consSince
\* consume(entry): stream.next, whatever its result
Consume(at, hit) ==
    /\ wpc = at /\ ~rep /\ cur # 0
    /\ \E r \in Results :
         /\ written' = Append(written, <<cur, r>>)
         /\ lastRes' = r
         /\ rep' = (r = "val")
    /\ cur' = 0 /\ cnt' = cnt + 1
    /\ consSince' = (IF waiting # {} THEN consSince + 1 ELSE 0)
    /\ IF at = "Drain" /\ (cnt + 1) % K = 0 /\ dl
         THEN status' = "Hit" /\ wpc' = hit
         ELSE UNCHANGED <<status, wpc>>
    /\ UNCHANGED <<queue, token, chan, waiting, ebw, fl, closed, dl, done>> /\ WUnch
\* the rate-limited in-band report after a validation failure: written, or suppressed
Report ==
    /\ rep /\ rep' = FALSE /\ lastRes' = "report"
    /\ UNCHANGED <<queue, token, wpc, cnt, status, cur, chan, waiting, ebw, written, fl, closed,
                   dl, done>> /\ WUnch
    /\ UNCHANGED consSince
SkipReport ==
    /\ rep /\ rep' = FALSE
    /\ UNCHANGED <<queue, token, wpc, cnt, status, cur, chan, waiting, ebw, written, fl, closed,
                   dl, done, lastRes>> /\ WUnch
    /\ UNCHANGED consSince

\* what a drain pass is credited with against the tracked batch: the number of entries it POPPED
\* (handed to the stream), whatever the stream answered. UnderCount is FALSE; the negative
\* configuration MC_neg_credit.cfg overrides it (a pass that ended with a rejected entry is not
\* credited) to show that EbwExact is not vacuous.
UnderCount == FALSE
BugOn == TRUE
Credit == IF UnderCount /\ lastRes \in {"val", "io", "report"} THEN 0 ELSE cnt
\* WakerTracker::handle_waiting_wakers, first half: count down, flush if the batch is due
Handle ==
    /\ wpc = "Handle" /\ ~rep
    /\ IF waiting = {}
         THEN /\ wpc' = "HCollect" /\ UNCHANGED <<ebw, fl>>
         ELSE LET e1 == IF ebw > Credit THEN ebw - Credit ELSE 0 IN
              IF e1 = 0 \/ status = "Drained"
                THEN /\ fl' = Len(written) /\ ebw' = 0 /\ wpc' = "HWake"   \* flush_stream()
                ELSE /\ ebw' = e1 /\ wpc' = "HCollect" /\ UNCHANGED fl
    /\ UNCHANGED consSince
    /\ UNCHANGED <<queue, token, cnt, status, cur, chan, waiting, written, closed, dl, done,
                   lastRes, rep>> /\ WUnch
\* waiting_wakers.clear(): the signals are dropped one after the other
HWake ==
    /\ wpc = "HWake"
    /\ IF waiting = {}
         THEN wpc' = "HCollect" /\ UNCHANGED <<waiting, done>>
         ELSE \E f \in waiting : waiting' = waiting \ {f} /\ done' = done \cup {f} /\ UNCHANGED wpc
    /\ UNCHANGED <<queue, token, cnt, status, cur, chan, ebw, written, fl, closed, dl, lastRes,
                   rep>> /\ WUnch
    /\ UNCHANGED consSince
\* second half: collect newly sent signals if no batch is being tracked; then the decisions of
\* the inner loop (deadline hit / shutdown flag / park or not)
HCollect ==
    /\ wpc = "HCollect"
    /\ IF waiting = {}
         THEN /\ waiting' = SeqRange(chan) /\ chan' = <<>>
              /\ ebw' = IF chan # <<>> THEN Cap ELSE ebw
              /\ consSince' = 0
         ELSE UNCHANGED <<waiting, chan, ebw, consSince>>
    /\ wpc' = IF status = "Hit" \/ flag THEN "OuterFlush"
              ELSE IF waiting' # {} THEN "AfterPark" ELSE "Park"
    /\ UNCHANGED <<queue, token, cnt, status, cur, written, fl, closed, dl, done, lastRes, rep>>
    /\ WUnch
\* parker.park_deadline(next_flush): returns on a token or when the deadline passes
Park ==
    /\ wpc = "Park" /\ (token \/ dl)
    /\ token' = FALSE /\ wpc' = "AfterPark"
    /\ UNCHANGED <<queue, cnt, status, cur, chan, waiting, ebw, written, fl, closed, dl, done,
                   lastRes, rep>> /\ WUnch
    /\ UNCHANGED consSince
AfterPark ==
    /\ wpc = "AfterPark"
    /\ wpc' = (IF dl THEN "OuterFlush" ELSE "Drain") /\ cnt' = 0
    /\ UNCHANGED <<queue, token, status, cur, chan, waiting, ebw, written, fl, closed, dl, done,
                   lastRes, rep>> /\ WUnch
    /\ UNCHANGED consSince
OuterFlush ==
    /\ wpc = "OuterFlush"
    /\ fl' = Len(written) /\ wpc' = "ExitCheck"
    /\ UNCHANGED <<queue, token, cnt, status, cur, chan, waiting, ebw, written, closed, dl, done,
                   lastRes, rep>> /\ WUnch
    /\ UNCHANGED consSince
\* shutdown flag, or no queue handle left (Arc::get_mut succeeds)
ExitCheck ==
    /\ wpc = "ExitCheck"
    /\ wpc' = (IF flag \/ refs = 0 THEN "SDrain" ELSE "OuterStart")
    /\ UNCHANGED <<queue, token, cnt, status, cur, chan, waiting, ebw, written, fl, closed, dl,
                   done, lastRes, rep>> /\ WUnch
    /\ UNCHANGED consSince
SFlush ==
    /\ wpc = "SFlush" /\ ~rep
    /\ fl' = Len(written) /\ wpc' = "Close"
    /\ UNCHANGED <<queue, token, cnt, status, cur, chan, waiting, ebw, written, closed, dl, done,
                   lastRes, rep>> /\ WUnch
    /\ UNCHANGED consSince
Close ==
    /\ wpc = "Close"
    /\ closed' = TRUE /\ wpc' = "ExitWake"
    /\ UNCHANGED <<queue, token, cnt, status, cur, chan, waiting, ebw, written, fl, dl, done,
                   lastRes, rep>> /\ WUnch
    /\ UNCHANGED consSince
\* returning from run drops the tracker and the receiver: every signal still held completes
ExitWake ==
    /\ wpc = "ExitWake"
    /\ IF waiting = {} /\ chan = <<>>
         THEN wpc' = "Done" /\ UNCHANGED <<waiting, chan, done>>
         ELSE IF waiting # {}
           THEN \E f \in waiting : /\ waiting' = waiting \ {f} /\ done' = done \cup {f}
                                    /\ UNCHANGED <<chan, wpc>>
           ELSE /\ done' = done \cup {Head(chan)} /\ chan' = Tail(chan)
                /\ UNCHANGED <<waiting, wpc>>
    /\ UNCHANGED <<queue, token, cnt, status, cur, ebw, written, fl, closed, dl, lastRes, rep>>
    /\ WUnch
    /\ UNCHANGED consSince

Writer ==
    \/ OuterStart
    \/ PopSome("Drain") \/ PopNone("Drain", "Handle") \/ Consume("Drain", "Handle")
    \/ Report \/ SkipReport
    \/ Handle \/ HWake \/ HCollect \/ Park \/ AfterPark \/ OuterFlush \/ ExitCheck
    \/ PopSome("SDrain") \/ PopNone("SDrain", "SFlush") \/ Consume("SDrain", "SFlush")
    \/ SFlush \/ Close \/ ExitWake

Next ==
    \/ \E p \in Producers : AStart(p) \/ Push(p) \/ PUnpark(p) \/ DropSink(p)
    \/ \E f \in Flushers : FSend(f) \/ FUnpark(f) \/ FComplete(f)
    \/ HSetFlag \/ HUnpark \/ HJoin \/ HForget \/ DropMain \/ Tick \/ Writer

Spec == Init /\ [][Next]_vars
FairSpec == Spec /\ WF_vars(Writer) /\ WF_vars(Tick) /\ WF_vars(HUnpark) /\ WF_vars(HJoin)
            /\ \A f \in Flushers : WF_vars(FComplete(f))

\* ---------------- refinement of the property layer ---------------------------------------
AllEntries == {Entry(p, i) : p \in Producers, i \in 1..MaxApp}
Written(n) == {written[i][1] : i \in 1..n}
InFlight(st) == {<<p, Entry(p, IF st = "push" THEN pn[p] + 1 ELSE pn[p])>> : p \in {x \in Producers : ppc[x] = st}}

Abs == INSTANCE QueueAbs WITH
    cap <- Cap,
    q <- queue,
    pending <- InFlight("push"),
    linned <- InFlight("unpark"),
    ended <- Ended,
    cur <- cur,
    nexted <- [i \in 1..Len(written) |-> written[i][1]],
    lastRes <- lastRes,
    lost <- displaced,
    flushed <- Written(fl),
    unflushed <- Len(written) - fl,
    closed <- closed,
    before <- [f \in {x \in Flushers : fpc[x] # "idle"} |-> before[f]],
    fdone <- done,
    hs <- CASE hstate = "held" -> "held" [] hstate = "forgotten" -> "forgotten"
            [] hstate = "joined" -> "dropped" [] OTHER -> "dropping",
    snap <- snap,
    sinks <- refs

ANext ==
    \/ \E p \in Producers, e \in AllEntries : Abs!AppStart(p, e) \/ Abs!Lin(p, e) \/ Abs!AppEnd(p, e)
    \/ Abs!Pop
    \/ \E e \in AllEntries, r \in Results : Abs!Next(e, r)
    \/ Abs!Report \/ Abs!Flush \/ Abs!Close
    \/ \E f \in Flushers : Abs!FlushReq(f) \/ Abs!FlushDone(f)
    \/ Abs!DropStart \/ Abs!DropEnd \/ Abs!Forget \/ Abs!SinkDrop

\* every step of the implementation-shaped model is a step of the property layer or stutters
Refines == [][ANext]_(Abs!avars)
AbsInv == Abs!AbsInv

\* ---------------- further invariants ----------------------------------------------------------
Pos(e) == CHOOSE i \in 1..Len(written) : written[i][1] = e
ProducerOrder == \A i, j \in 1..Len(written) :
    (written[i][1] \div 100 = written[j][1] \div 100 /\ written[i][1] < written[j][1]) => i < j
OnlyAppended == Written(Len(written)) \subseteq AllEntries
\* C01: at quiescence without overflow everything appended has been written
NoLossAtEnd == (wpc = "Done" /\ displaced = {} /\ hstate = "joined") =>
                   \A e \in snap : e \in Written(Len(written))
\* C04 (L1, bounded progress): a batch of wakers is woken before Cap further entries are
\* counted against it; ebw never exceeds Cap and is positive exactly while a batch waits
BoundedBatch == /\ ebw <= Cap
                /\ (wpc \in {"Park", "AfterPark", "Drain", "OuterStart"} /\ waiting # {}) => ebw > 0
\* C04 (bounded progress, integration of run / drain_until_deadline / the tracker): every entry handed to
\* the stream since the batch was collected has been credited against it once the pass has been handled -
\* so the batch is released after at most Cap further hand-offs plus the pass in progress, whatever the
\* stream answers and however long producers keep the queue non-empty
EbwExact == (wpc = "HCollect" /\ waiting # {}) => ebw = (IF Cap > consSince THEN Cap - consSince ELSE 0)
\* S2: the writer never parks while a batch is waiting (no lost wake-up of a flush)
NoParkWithWaiters == wpc = "Park" => waiting = {}
\* C05
JoinedMeansClosed == hstate = "joined" => (closed /\ fl = Len(written) /\ wpc = "Done")
TypeOK == /\ cnt \in 0..(Cardinality(Producers) * MaxApp) /\ ebw \in 0..Cap /\ fl \in 0..Len(written)
          /\ Len(queue) <= Cap

\* ---------------- liveness (FairSpec) -------------------------------------------------------
FlushLive == \A f \in Flushers : (fpc[f] = "wait") ~> (f \in done)
ForgetTerminates == (hstate = "forgotten" /\ refs = 0) ~> (wpc = "Done")
DropTerminates == (hstate = "joining") ~> (hstate = "joined")
=============================================================================
