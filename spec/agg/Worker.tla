------------------------------ MODULE Worker ------------------------------
(***************************************************************************)
(* C10, worker part - implementation-shaped model of WorkerSink            *)
(* (metrique-aggregation/src/sink/worker.rs) around a keyed aggregator:    *)
(* an mpsc channel of Entry | Flush(ack) messages, cloned sender handles,  *)
(* and the worker loop                                                     *)
(*                                                                         *)
(*   loop { match receiver.recv_timeout(time_until_flush) {                *)
(*       Ok(Entry(e))   => { merge(e); if interval elapsed { flush } }     *)
(*       Ok(Flush(ack)) => { flush; ack.send(()) }                         *)
(*       Err(Timeout)   => { flush }                                       *)
(*       Err(Disconnected) => { flush; break }      -- BreakOnDisconnect   *)
(*   } }                                                                   *)
(*                                                                         *)
(* "interval elapsed" and "timeout" are nondeterministic (time is not      *)
(* modelled).  With BreakOnDisconnect = FALSE the last arm is the code as  *)
(* found on the pinned tree (`Err(_) => flush`, D5): the loop spins and    *)
(* Terminates fails.  TLC checks, for every interleaving, that the model   *)
(* refines WorkerAbs (conservation per key, flush barrier, exit only with  *)
(* everything emitted) and, under fairness, that the worker terminates     *)
(* once the last handle is gone.                                           *)
(*                                                                         *)
(* Producer p sends inputs p*10+1 .. p*10+NSend, optionally awaits a       *)
(* flush, then drops its handle.  Input i has key (i % NK) + 1.            *)
(***************************************************************************)
EXTENDS Naturals, Sequences, FiniteSets, TLC

CONSTANTS Producers, NSend, NK, Flushing, BreakOnDisconnect
\* Flushing: producers that call flush().await after their sends

VARIABLES
    chan,     \* FIFO of <<"e", i>> / <<"f", q>>
    ppc, pn,  \* producer program counter / entries sent
    acc,      \* key -> [ids, obs, last] (partial): the aggregator's map
    wpc,      \* worker: "recv" | "flush" | "emit" | "after"
    why,      \* why the worker flushes: <<"timer", 0>> | <<"ack", q>> | <<"exit", 0>>
    acked,    \* flush requests whose ack has been sent
    hist      \* history variables of the refinement mapping: started, ended, mseq, cut, emitted, need, fdone, batchK

vars == <<chan, ppc, pn, acc, wpc, why, acked, hist>>

KeyOf(i) == (i % NK) + 1
Cur(p) == p * 10 + pn[p] + 1
Live == {p \in Producers : ppc[p] # "dropped"}

Init ==
    /\ chan = <<>> /\ ppc = [p \in Producers |-> "idle"] /\ pn = [p \in Producers |-> 0]
    /\ acc = <<>> /\ wpc = "recv" /\ why = <<"timer", 0>> /\ acked = {}
    /\ hist = [started |-> {}, ended |-> {}, mseq |-> <<>>, cut |-> 0, emitted |-> {}, need |-> <<>>,
               fdone |-> {}, batchK |-> {}]

\* ---- producers ---------------------------------------------------------------------
PStart(p) == /\ ppc[p] = "idle" /\ pn[p] < NSend
             /\ ppc' = [ppc EXCEPT ![p] = "send"]
             /\ hist' = [hist EXCEPT !.started = @ \cup {Cur(p)}]
             /\ UNCHANGED <<chan, pn, acc, wpc, why, acked>>
\* Sender::send: the message is in the channel
PEnqueue(p) == /\ ppc[p] = "send"
               /\ chan' = Append(chan, <<"e", Cur(p)>>)
               /\ ppc' = [ppc EXCEPT ![p] = "sent"]
               /\ UNCHANGED <<pn, acc, wpc, why, acked, hist>>
PEnd(p) == /\ ppc[p] = "sent"
           /\ hist' = [hist EXCEPT !.ended = @ \cup {Cur(p)}]
           /\ pn' = [pn EXCEPT ![p] = @ + 1] /\ ppc' = [ppc EXCEPT ![p] = "idle"]
           /\ UNCHANGED <<chan, acc, wpc, why, acked>>
\* flush(): Flush(tx) goes into the channel, then rx.await
PFlush(p) == /\ ppc[p] = "idle" /\ pn[p] = NSend /\ p \in Flushing /\ p \notin DOMAIN hist.need
             /\ chan' = Append(chan, <<"f", p>>)
             /\ hist' = [hist EXCEPT !.need = @ @@ (p :> hist.ended)]
             /\ ppc' = [ppc EXCEPT ![p] = "await"]
             /\ UNCHANGED <<pn, acc, wpc, why, acked>>
PFlushDone(p) == /\ ppc[p] = "await" /\ p \in acked
                 /\ hist' = [hist EXCEPT !.fdone = @ \cup {p}]
                 /\ ppc' = [ppc EXCEPT ![p] = "idle"]
                 /\ UNCHANGED <<chan, pn, acc, wpc, why, acked>>
PDrop(p) == /\ ppc[p] = "idle" /\ pn[p] = NSend /\ (p \in Flushing => p \in hist.fdone)
            /\ ppc' = [ppc EXCEPT ![p] = "dropped"]
            /\ UNCHANGED <<chan, pn, acc, wpc, why, acked, hist>>

\* ---- worker -------------------------------------------------------------------------
Fold(i) == LET k == KeyOf(i) IN
           IF k \in DOMAIN acc THEN [acc EXCEPT ![k] = [ids |-> @.ids \cup {i}, obs |-> Append(@.obs, i), last |-> i]]
           ELSE acc @@ (k :> [ids |-> {i}, obs |-> <<i>>, last |-> i])

\* Ok(Entry(e)): merge; then flush if the interval has elapsed (either way is possible)
WEntry(elapsed) ==
    /\ wpc = "recv" /\ chan # <<>> /\ Head(chan)[1] = "e"
    /\ chan' = Tail(chan) /\ acc' = Fold(Head(chan)[2])
    /\ hist' = [hist EXCEPT !.mseq = Append(@, Head(chan)[2])]
    /\ wpc' = (IF elapsed THEN "flush" ELSE "recv") /\ why' = <<"timer", 0>>
    /\ UNCHANGED <<ppc, pn, acked>>
WFlushMsg ==
    /\ wpc = "recv" /\ chan # <<>> /\ Head(chan)[1] = "f"
    /\ chan' = Tail(chan) /\ wpc' = "flush" /\ why' = <<"ack", Head(chan)[2]>>
    /\ UNCHANGED <<ppc, pn, acc, acked, hist>>
\* Err(Timeout): nothing in the channel for the rest of the interval, senders alive
WTimeout ==
    /\ wpc = "recv" /\ chan = <<>> /\ Live # {}
    /\ wpc' = "flush" /\ why' = <<"timer", 0>>
    /\ UNCHANGED <<chan, ppc, pn, acc, acked, hist>>
\* Err(Disconnected): channel empty and every sender dropped
WDisconnected ==
    /\ wpc = "recv" /\ chan = <<>> /\ Live = {}
    /\ wpc' = "flush" /\ why' = IF BreakOnDisconnect THEN <<"exit", 0>> ELSE <<"timer", 0>>
    /\ UNCHANGED <<chan, ppc, pn, acc, acked, hist>>
\* inner.flush(): drain the map, one append per key
WFlushBegin ==
    /\ wpc = "flush" /\ wpc' = "emit"
    /\ hist' = [hist EXCEPT !.batchK = {}]
    /\ UNCHANGED <<chan, ppc, pn, acc, why, acked>>
WEmit(k) ==
    /\ wpc = "emit" /\ k \in DOMAIN acc
    /\ acc' = [x \in DOMAIN acc \ {k} |-> acc[x]]
    /\ hist' = [hist EXCEPT !.emitted = @ \cup acc[k].ids, !.batchK = @ \cup {k}]
    /\ UNCHANGED <<chan, ppc, pn, wpc, why, acked>>
WFlushEnd ==
    /\ wpc = "emit" /\ DOMAIN acc = {}
    /\ wpc' = "after"
    /\ hist' = [hist EXCEPT !.cut = Len(hist.mseq), !.batchK = {}]
    /\ UNCHANGED <<chan, ppc, pn, acc, why, acked>>
\* after the flush: send the ack / leave the loop (the inner aggregator is dropped) / loop
WAfter ==
    /\ wpc = "after"
    /\ wpc' = (IF why[1] = "exit" THEN "done" ELSE "recv")
    /\ acked' = (IF why[1] = "ack" THEN acked \cup {why[2]} ELSE acked)
    /\ why' = <<"timer", 0>>
    /\ UNCHANGED <<chan, ppc, pn, acc, hist>>

Producer(p) == PStart(p) \/ PEnqueue(p) \/ PEnd(p) \/ PFlush(p) \/ PFlushDone(p) \/ PDrop(p)
WorkerStep == (\E b \in BOOLEAN : WEntry(b)) \/ WFlushMsg \/ WTimeout \/ WDisconnected \/ WFlushBegin
              \/ (\E k \in 1..NK : WEmit(k)) \/ WFlushEnd \/ WAfter
Next == (\E p \in Producers : Producer(p)) \/ WorkerStep

Spec == Init /\ [][Next]_vars
FairSpec == Spec /\ WF_vars(WorkerStep) /\ \A p \in Producers : WF_vars(Producer(p))

\* ---- refinement of the property layer ------------------------------------------------
AllIn == {p * 10 + n : p \in Producers, n \in 1..NSend}
Abs == INSTANCE WorkerAbs WITH
    info <- [i \in hist.started |-> [key |-> KeyOf(i), p |-> i \div 10]],
    started <- hist.started, ended <- hist.ended, mseq <- hist.mseq, cut <- hist.cut,
    inFlush <- (wpc = "emit"), batchK <- hist.batchK, emitted <- hist.emitted,
    need <- hist.need, fdone <- hist.fdone,
    handles <- Cardinality(Live), exited <- (wpc = "done")

ANext ==
    \/ \E p \in Producers, i \in AllIn : Abs!SendStart(p, i, KeyOf(i)) \/ Abs!SendEnd(i) \/ Abs!Merged(i)
    \/ Abs!FlushBegin \/ Abs!FlushEnd \/ Abs!HandleDrop \/ Abs!Exited
    \/ \E k \in DOMAIN acc : Abs!Emit(k, acc[k].ids, acc[k].obs, acc[k].last)
    \/ \E q \in Producers : Abs!FlushReq(q) \/ Abs!FlushDone(q)
Refines == [][ANext]_(Abs!wvars)
AbsInv == Abs!WAbsInv

\* ---- further invariants / liveness ------------------------------------------------------
\* conservation with the channel: every started-and-enqueued input is in the channel, in an
\* accumulator or emitted - exactly one of them
InChan == {chan[i][2] : i \in {j \in 1..Len(chan) : chan[j][1] = "e"}}
InAcc == UNION {acc[k].ids : k \in DOMAIN acc}
Enqueued == {i \in hist.started : ~(\E p \in Producers : ppc[p] = "send" /\ Cur(p) = i)}
Conserved == /\ Enqueued = InChan \cup InAcc \cup hist.emitted
             /\ InChan \cap InAcc = {} /\ InChan \cap hist.emitted = {} /\ InAcc \cap hist.emitted = {}
DoneMeansAll == wpc = "done" => hist.emitted = AllIn /\ chan = <<>>
Terminates == <>(wpc = "done")
FlushLive == \A p \in Flushing : (ppc[p] = "await") ~> (p \in hist.fdone)
=============================================================================
