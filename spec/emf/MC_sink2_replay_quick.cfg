CONSTANTS
  Streams = {"a", "b"}
  MaxEntries = 2
  Bug = "none"
SPECIFICATION RSpec
INVARIANT Emit
CHECK_DEADLOCK FALSE
