---------------------------- MODULE VectoredWrite ----------------------------
(***************************************************************************)
(* C16 (writer part): write_all_vectored / advance_slices of buf.rs        *)
(* against a writer that may accept any non-empty prefix of what it is     *)
(* offered, return Ok(0), fail with Interrupted, or fail hard.             *)
(*                                                                         *)
(* Bytes are numbered 1..Total in the order of the concatenation of the    *)
(* buffers, so "what the writer received" can be compared with "the        *)
(* entry's record" position by position.                                   *)
(*                                                                         *)
(*   bufs       the buffers handed to write_all_vectored (some may be      *)
(*              empty), chosen at Init                                     *)
(*   slices     implementation state: the remaining slices                 *)
(*   delivered  the bytes the writer accepted so far, in order             *)
(*   pc         init | loop | ok | err                                     *)
(*   last       the writer's last answer                                   *)
(*   intr       number of Interrupted answers so far (bounded: MaxIntr)    *)
(*                                                                         *)
(* Property layer (what C16 states): DeliveredIsPrefix, OkMeansAll,        *)
(* ErrMeansWriterFailed, OfferIsSuffix, NeverOffersNothing, Terminates.    *)
(* Implementation-shaped: Advance mirrors advance_slices (leading empty    *)
(* slices are dropped, later ones stay until they are reached).            *)
(* CONSTANT Bug re-introduces one defect at a time (sensitivity runs).     *)
(***************************************************************************)
EXTENDS Naturals, Sequences, FiniteSets, TLC

CONSTANTS MaxSlices, MaxLen, MaxIntr, Bug

VARIABLES bufs, slices, delivered, pc, last, intr
vars == <<bufs, slices, delivered, pc, last, intr>>

RECURSIVE Flatten(_), Advance(_, _), Build(_, _)
Flatten(ss) == IF ss = <<>> THEN <<>> ELSE Head(ss) \o Flatten(Tail(ss))
Total(ss) == Len(Flatten(ss))
Lens(ss) == [i \in 1..Len(ss) |-> Len(ss[i])]

\* buffers with the given lengths over consecutively numbered bytes
Build(ls, from) == IF ls = <<>> THEN <<>>
                   ELSE <<[i \in 1..Head(ls) |-> from + i - 1]>> \o Build(Tail(ls), from + Head(ls))

\* advance_slices(slices, n): drop whole slices while n covers them (an empty slice is covered
\* by n = 0), then cut the first remaining one
Advance(ss, n) ==
  IF ss = <<>> THEN <<>>
  ELSE IF (IF Bug = "offByOne" THEN n > Len(Head(ss)) ELSE n >= Len(Head(ss)))
         THEN Advance(Tail(ss), IF n >= Len(Head(ss)) THEN n - Len(Head(ss)) ELSE 0)
         ELSE <<SubSeq(Head(ss), n + 1, Len(Head(ss)))>> \o Tail(ss)

LenSeqs == UNION {[1..n -> 0..MaxLen] : n \in 1..MaxSlices}

Init == /\ bufs \in {Build(ls, 1) : ls \in LenSeqs}
        /\ slices = <<>> /\ delivered = <<>> /\ pc = "init" /\ last = "none" /\ intr = 0

\* advance_slices(&mut slices, 0) before the loop
Start == /\ pc = "init"
         /\ slices' = Advance(bufs, 0)
         /\ pc' = "loop"
         /\ UNCHANGED <<bufs, delivered, last, intr>>

\* one call of write_vectored with everything that remains; the writer accepts k bytes
Accept(k) == /\ pc = "loop" /\ slices # <<>>
             /\ k \in 1..Total(slices)
             /\ delivered' = delivered \o SubSeq(Flatten(slices), 1, k)
             /\ slices' = Advance(slices, k)
             /\ last' = "acc"
             /\ UNCHANGED <<bufs, pc, intr>>

\* Ok(0): an error (WriteZero), never "progress"
Zero == /\ pc = "loop" /\ slices # <<>>
        /\ last' = "zero"
        /\ IF Bug = "zeroIsProgress" THEN pc' = pc ELSE pc' = "err"
        /\ UNCHANGED <<bufs, slices, delivered, intr>>

\* ErrorKind::Interrupted: the same offer is made again
Interrupted == /\ pc = "loop" /\ slices # <<>> /\ intr < MaxIntr
               /\ last' = "intr" /\ intr' = intr + 1
               /\ IF Bug = "interruptedIsFatal" THEN pc' = "err" ELSE pc' = pc
               /\ UNCHANGED <<bufs, slices, delivered>>

Hard == /\ pc = "loop" /\ slices # <<>>
        /\ last' = "hard" /\ pc' = "err"
        /\ UNCHANGED <<bufs, slices, delivered, intr>>

Finish == /\ pc = "loop" /\ slices = <<>>
          /\ pc' = "ok"
          /\ UNCHANGED <<bufs, slices, delivered, last, intr>>

Next == Start \/ (\E k \in 1..(MaxSlices * MaxLen) : Accept(k)) \/ Zero \/ Interrupted \/ Hard \/ Finish
Spec == Init /\ [][Next]_vars /\ WF_vars(Next)

\* ---- property layer -----------------------------------------------------------
All == Flatten(bufs)
\* nothing duplicated, omitted or reordered in what the writer received
DeliveredIsPrefix == delivered = SubSeq(All, 1, Len(delivered))
\* what is offered at every call is exactly the undelivered suffix
OfferIsSuffix == pc = "loop" => Flatten(slices) = SubSeq(All, Len(delivered) + 1, Len(All))
\* no write call without bytes, and no leading empty slice (a writer that looks at the first
\* slice only would report Ok(0))
NeverOffersNothing == pc = "loop" /\ slices # <<>> => Len(slices[1]) > 0
OkMeansAll == pc = "ok" => delivered = All
\* an error is returned only because the writer failed, and then nothing further is offered
ErrMeansWriterFailed == pc = "err" => last \in {"zero", "hard"}
\* Ok(0) and hard errors end the call at once (no stall, nothing further offered);
\* Interrupted does not
FailureIsFinal == last \in {"zero", "hard"} => pc = "err"
InterruptedIsNot == last = "intr" => pc = "loop"
VInv == /\ DeliveredIsPrefix /\ OfferIsSuffix /\ NeverOffersNothing /\ OkMeansAll
        /\ ErrMeansWriterFailed /\ FailureIsFinal /\ InterruptedIsNot
\* no stall: with finitely many interruptions every call sequence ends
Terminates == <>(pc \in {"ok", "err"})
=============================================================================
