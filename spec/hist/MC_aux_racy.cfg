CONSTANTS
  Mode = "racy"
  Procs = {1, 2, 3}
  NB = 3
SPECIFICATION ASpec
INVARIANT CloseReportsAll
CHECK_DEADLOCK FALSE
