---------------------------- MODULE QueueTrace ----------------------------
(***************************************************************************)
(* Trace validation: is an execution recorded from the real                *)
(* BackgroundQueue (ndjson, one event per line, several scenarios          *)
(* separated by Reset events) a behaviour of QueueAbs?                      *)
(* Lin and Pop are not observable without touching the lock-free queue,    *)
(* so they are silent steps that TLC places wherever an explanation needs  *)
(* them.  Acceptance: the whole file is consumed (POSTCONDITION).          *)
(***************************************************************************)
EXTENDS QueueAbs, Integers, Json, IOUtils

Rec == ndJsonDeserialize(IOEnv.TRACE)
N == Len(Rec)

VARIABLES l,   \* next line of the trace
          rk,  \* search hint: entry |-> position in the hand-off sequence (0 = never), see SilentLin
          sub  \* 1 = a tracing subscriber is installed in the recorded process (then the queue must not
               \* write its in-band error report: C01 allows it only when none is installed)
          \* burst: -1 outside a burst, else the number of in-band reports since BurstBegin (the harness
          \* marks a quick burst of failing entries after a quiet period: the report is rate limited)
VARIABLE burst
\* prog (C04, bounded progress): [b |-> bound on further hand-offs before an outstanding flush request
\* completes (0 = not checked; the scenario generator derives it from capacity, flush interval and the
\* per-entry delay of the recorded stream), at |-> flush request :> Len(nexted) when it was issued]
VARIABLE prog
tvars == <<avars, l, rk, sub, burst, prog>>

Ev(name) == l <= N /\ Rec[l].ev = name
Adv == l' = l + 1

TInit ==
    /\ l = 1
    /\ AInit(1, 1)
    /\ rk = <<>> /\ sub = 0 /\ burst = -1 /\ prog = [b |-> 0, at |-> <<>>]
    /\ TLCSet(1, 1) /\ TLCSet(2, "nothing consumed")

TReset ==
    /\ Ev("Reset") /\ Adv
    /\ cap' = Rec[l].cap /\ q' = <<>> /\ pending' = {} /\ linned' = {} /\ ended' = {} /\ cur' = 0
    /\ nexted' = <<>> /\ lastRes' = "none" /\ lost' = {} /\ flushed' = {} /\ unflushed' = 0
    /\ closed' = FALSE /\ before' = <<>> /\ fdone' = {} /\ hs' = "held" /\ snap' = {}
    /\ sinks' = Rec[l].sinks
    /\ rk' = <<>> /\ sub' = Rec[l].sub /\ burst' = -1
    /\ prog' = [b |-> (IF "lbound" \in DOMAIN Rec[l] THEN Rec[l].lbound ELSE 0), at |-> <<>>]

TAppStart == Ev("AppStart") /\ Adv /\ AppStart(Rec[l].p, Rec[l].e) /\ rk' = (Rec[l].e :> Rec[l].r) @@ rk /\ UNCHANGED <<sub, burst, prog>>
TAppEnd   == Ev("AppEnd") /\ Adv /\ AppEnd(Rec[l].p, Rec[l].e) /\ UNCHANGED <<rk, sub, burst, prog>>
\* bounded progress: the writer does not hand over `prog.b` further entries while a flush request is outstanding
ProgressOK == prog.b = 0 \/ \A f \in DOMAIN prog.at : f \in fdone \/ Len(nexted) - prog.at[f] < prog.b
TNext     == Ev("Next") /\ Adv /\ ProgressOK /\ Next(Rec[l].e, Rec[l].res) /\ UNCHANGED <<rk, sub, burst, prog>>
TReport   == Ev("Report") /\ Adv /\ sub = 0 /\ Report /\ burst' = (IF burst >= 0 THEN burst + 1 ELSE burst) /\ UNCHANGED <<rk, sub, prog>>
TFlush    == Ev("Flush") /\ Adv /\ Flush /\ UNCHANGED <<rk, sub, burst, prog>>
TClose    == Ev("Close") /\ Adv /\ Close /\ UNCHANGED <<rk, sub, burst, prog>>
TFlushReq == Ev("FlushReq") /\ Adv /\ FlushReq(Rec[l].f) /\ prog' = [prog EXCEPT !.at = (Rec[l].f :> Len(nexted)) @@ prog.at] /\ UNCHANGED <<rk, sub, burst>>
TFlushDone == Ev("FlushDone") /\ Adv /\ FlushDone(Rec[l].f) /\ UNCHANGED <<rk, sub, burst, prog>>
TDropStart == Ev("DropStart") /\ Adv /\ DropStart /\ UNCHANGED <<rk, sub, burst, prog>>
TDropEnd  == Ev("DropEnd") /\ Adv /\ DropEnd /\ UNCHANGED <<rk, sub, burst, prog>>
TForget   == Ev("Forget") /\ Adv /\ Forget /\ UNCHANGED <<rk, sub, burst, prog>>
TSinkClone == Ev("SinkClone") /\ Adv /\ SinkClone /\ UNCHANGED <<rk, sub, burst, prog>>
TSinkDrop == Ev("SinkDrop") /\ Adv /\ SinkDrop /\ UNCHANGED <<rk, sub, burst, prog>>
TQuiesce  == Ev("Quiesce") /\ Adv /\ Quiesced /\ UNCHANGED <<avars, rk, sub, burst, prog>>
\* the queue's own metrics are the subject of QueueMetricsTrace.tla (X04); here they are skipped
TSelfMetrics == Ev("SelfMetrics") /\ Adv /\ UNCHANGED <<avars, rk, sub, burst, prog>>
\* rate limit of the in-band report (interval 1 s, whole seconds): a burst that took less than a
\* second of wall time contains at most two reports (one per second it touches)
TBurstBegin == Ev("BurstBegin") /\ Adv /\ burst' = 0 /\ UNCHANGED <<avars, rk, sub, prog>>
TBurstEnd == /\ Ev("BurstEnd") /\ Adv
             /\ (Rec[l].short = 1 => burst <= 2)
             /\ burst' = -1 /\ UNCHANGED <<avars, rk, sub, prog>>
\* a tracing subscriber is installed from here on (bq scenario `after_sub`)
TSubInstalled == Ev("SubInstalled") /\ Adv /\ sub' = 1 /\ UNCHANGED <<avars, rk, burst, prog>>
TOverflows == Ev("Overflows") /\ Adv /\ OverflowCount(Rec[l].n) /\ UNCHANGED <<avars, rk, sub, burst, prog>>
\* events the harness logs when something that must happen did not (append took longer
\* than its budget, a flush never completed, the stream was never closed, a panic):
\* no action consumes them, so the trace is rejected there.

\* A FIFO hands entries over in linearization order: of two pending entries that are both
\* handed over later, the one handed over first is linearized first (rk is only a search
\* hint computed from the trace itself; it prunes runs that could never be accepted).
InOrder(e) == \A pe2 \in pending : rk[e] = 0 \/ rk[pe2[2]] = 0 \/ rk[e] <= rk[pe2[2]]
\* Likewise an entry that is handed over later is never displaced, and the writer pops exactly
\* the entry it hands over next.
SilentLin == /\ l <= N /\ \E pe \in pending : InOrder(pe[2]) /\ Lin(pe[1], pe[2])
             /\ (Len(q) >= cap => rk[Head(q)] = 0)
             /\ UNCHANGED <<l, rk, sub, burst, prog>>
SilentPop == /\ l <= N /\ Pop
             /\ rk[Head(q)] = Len(nexted) + 1
             /\ UNCHANGED <<l, rk, sub, burst, prog>>

TNext_ ==
    \/ TReset \/ TAppStart \/ TAppEnd \/ TNext \/ TReport \/ TFlush \/ TClose
    \/ TFlushReq \/ TFlushDone \/ TDropStart \/ TDropEnd \/ TForget \/ TSinkClone \/ TSinkDrop
    \/ TQuiesce \/ TOverflows \/ TSelfMetrics \/ TSubInstalled \/ TBurstBegin \/ TBurstEnd
    \/ SilentLin \/ SilentPop

TSpec == TInit /\ [][TNext_]_tvars

\* high-water mark of consumed lines (register 1); needs -workers 1
Track ==
    /\ IF l > TLCGet(1) THEN TLCSet(1, l) /\ TLCSet(2, <<cap, q, pending, linned, cur, lost, closed, hs, sinks, unflushed, lastRes, Len(nexted)>>) ELSE TRUE
    /\ IF l = N + 1 THEN TLCSet("exit", TRUE) ELSE TRUE

Accepted ==
    IF TLCGet(1) = N + 1 THEN PrintT(<<"ACCEPTED", N>>)
    ELSE /\ PrintT(<<"REJECTED", TLCGet(1), ToJson(Rec[TLCGet(1)]), TLCGet(2)>>)
         /\ FALSE
=============================================================================
