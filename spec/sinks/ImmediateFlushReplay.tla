------------------------ MODULE ImmediateFlushReplay ------------------------
(***************************************************************************)
(* Sequential behaviours of ImmediateFlush (one thread): every script of    *)
(* PerThread appends x stream answers (next: ok|val|io|panic, flush:        *)
(* ok|err|panic), with flush_async calls in between, printed as one JSON    *)
(* line with the stream calls and the outcome the model expects for every   *)
(* append; replayed by `imm seq` on FlushImmediately (typed), build_boxed   *)
(* and build_any.                                                           *)
(***************************************************************************)
EXTENDS ImmediateFlush, Json

VARIABLES hist, l0, an, af, nasync
rvars == <<hist, l0, an, af, nasync>>
T1 == CHOOSE t \in Threads : TRUE

RInit == Init /\ hist = <<>> /\ l0 = 0 /\ an = "-" /\ af = "-" /\ nasync = 0

Finish(out) ==
    hist' = Append(hist, [op |-> "Append", e |-> cur[T1], next |-> an', flush |-> af', outcome |-> out,
                          calls |-> SubSeq(log', l0 + 1, Len(log')), poisoned |-> poisoned'])

RStart == Start(T1) /\ l0' = Len(log) /\ an' = "-" /\ af' = "-" /\ nasync' = 0 /\ hist' = hist
RLock == /\ Lock(T1)
         /\ UNCHANGED <<l0, an, af, nasync>>
         /\ IF poisoned /\ Bug # "recover" THEN Finish("panicked") ELSE hist' = hist
RNext(r) == /\ Next(T1, r) /\ an' = r /\ UNCHANGED <<l0, af, nasync>>
            /\ IF r = "panic" THEN Finish("panicked") ELSE hist' = hist
RFlush(r) == /\ Flush(T1, r) /\ af' = r /\ UNCHANGED <<l0, an, nasync>>
             /\ IF r = "panic" THEN Finish("panicked") ELSE hist' = hist
RUnlock == Unlock(T1) /\ UNCHANGED <<l0, an, af, nasync>> /\ Finish("returned")
\* at most one flush_async between two appends (it changes nothing)
RAsync == /\ FlushAsync(T1) /\ nasync = 0 /\ nasync' = 1
          /\ hist' = Append(hist, [op |-> "FlushAsync", ready |-> TRUE, calls |-> <<>>])
          /\ UNCHANGED <<l0, an, af>>

RNext1 == RStart \/ RLock \/ RUnlock \/ RAsync
          \/ \E r \in NextRes : RNext(r)
          \/ \E q \in FlushRes : RFlush(q)
RSpec == RInit /\ [][RNext1]_<<vars, rvars>>

Emit == (pc[T1] = "idle" /\ left[T1] = 0) =>
          PrintT(<<"REPLAY", ToJson([steps |-> hist])>>)
=============================================================================
