#!/usr/bin/env python3
"""C07: turns the container chains printed by spec/naming/NamingReplay.tla into Rust programs that use
the real `#[metrics]` macro, and computes (from TLC's expectations only) what every program must emit.

Input   one `Line` per reachable container state of the specification:
          fam     enumeration family (bound only)
          chain   ':'-separated step tokens   R:k:ra:pk:tk:tsg | D:fk:opt:k:ra:pk:tk:tsg | V:vk:named:fk:cra:cpk
          attrs   the attribute strings as written (container prefix, flatten prefix, variant identifier/name,
                  rename_all of the value(string) enum used by this container)
          leaves  for every leaf kind the expected item  {p: present, n: name, k: kind, u: unit, v: value class, g: in sample group}
          tag     the expected tag item of an entry-enum variant
        plus one META line with the identifiers/overrides shared by all types.

Encoding (shared structure): a selected set of chains is a forest; every container node becomes one Rust type,
identical subtrees share a type (hash-consing on the full attribute signature), so all paths that run through
one container are decided by ONE struct definition.  The forest is cut into `bins` compilation units
(src/bin/gen_bNN.rs): a root is split by its flatten fields / variants so that the units are balanced.
Every program builds, for every root view, one value per (variant index k, runtime mode m), closes it, roots it
and prints what a recording EntryWriter saw.  Runtime mode bits: bit0 = Option leaves are Some and the
value(string) field holds its plain variant (else None / the renamed variant); bit L-1 = Option<Child> flatten
fields leading to level L are Some.
The generator never computes a name: names, kinds, units, string values come from TLC's lines.
"""
import re
import json, os, glob, collections

RA_ATTR = {"pascal": "PascalCase", "snake": "snake_case", "kebab": "kebab-case"}
SENUM_TY = {"preserve": "SEnumPreserve", "pascal": "SEnumPascal", "snake": "SEnumSnake", "kebab": "SEnumKebab"}
MODES = [7, 6, 3, 4]
M64 = (1 << 64) - 1
GS = ["g0", "g1", "g2", "g3"]
# field slots of a struct / struct variant, in declaration order (flatten fields go between HEAD and TAIL)
HEAD = ["plain", "named", "unit"]
TAIL = ["ignore", "opt", "valstruct", "senum", "sgroup", "sgnamed"]
SLOT_IDX = {"plain": 1, "named": 2, "unit": 3, "ignore": 4, "opt": 5, "valstruct": 6, "senum": 7, "sgroup": 8, "sgnamed": 9}
EMITTING = 8   # slots that emit an item in mode bit0=1


def v(s, i):
    return (((s ^ (s >> 17)) * 0x9E3779B1 + i) & M64) & 0x7FFFFFFF


def sub(s, j):
    return (s * 1000003 + j + 1) & M64


# Concretisation of the exact prefixes: Naming.tla treats an exact prefix as an opaque text that is copied, never
# inflected. For half of the animals the generated programs spell it with non-ASCII characters (same number of
# characters, 4 more bytes), in the attribute and hence in every expected name: names then exist whose length is <= 100
# in characters and > 100 in bytes, on either side of the macro's 100-byte const-string limit (C07-m7).
_WIDE = re.compile(r"(Ex|ex_)(?=(?:Ant|Cat|Eel|Gnu|Ibis|Kiwi|ant_|cat_|eel_|gnu_|ibis_|kiwi_))|(Cx)(?=:)")


def widen(text):
    return _WIDE.sub(lambda m: "\u8bf7\u6c42" + ("_" if m.group(1) == "ex_" else ""), text)


def parse_tlc_output(out):
    """-> (meta, [line dict]) from TLC stdout (PrintT(<<"REPLAY", ToJson(..)>>) lines)."""
    meta = None
    lines = []
    pre_r = '<<"REPLAY", '
    pre_m = '<<"META", '
    for l in out.splitlines():
        if l.startswith(pre_r):
            lines.append(json.loads(widen(json.loads(l[len(pre_r):-2]))))
        elif l.startswith(pre_m):
            meta = json.loads(json.loads(l[len(pre_m):-2]))
    return meta, lines


class Model:
    """All chains of one TLC run, indexed."""

    def __init__(self, meta, lines):
        self.meta = meta
        self.lines = {}
        self.kids = collections.defaultdict(list)
        for l in lines:
            key = (l["fam"],) + tuple(l["chain"])
            self.lines[key] = l
        for key in self.lines:
            if len(key) > 2:
                self.kids[key[:-1]].append(key)
        for k in self.kids:
            self.kids[k].sort()
        self.roots = sorted(k for k in self.lines if len(k) == 2)

    @staticmethod
    def tok(key):
        return key[-1].split(":")

    @staticmethod
    def depth(key):
        return sum(1 for t in key[1:] if t[0] in "RD")

    def is_absent(self, key):
        return self.lines[key]["absent"]

    def close(self, sel):
        """Close a selection under prefixes, tuple-variant children and the absent siblings of optional edges."""
        out = set()
        for key in sel:
            for i in range(2, len(key) + 1):
                out.add(key[:i])
        for key in list(out):
            t = self.tok(key)
            if t[0] == "V" and t[1] == "tuple":
                for c in self.kids.get(key, []):
                    out.add(c)
        for key in list(out):
            t = self.tok(key)
            if t[0] == "D" and t[2] == "some":
                sib = key[:-1] + (":".join(t[:2] + ["none"] + t[3:]),)
                if sib in self.lines:
                    out.add(sib)
        return out

    def names_under(self, key, sel):
        """Number of emitted names (cost unit of compilation) in the selected subtree of key."""
        l = self.lines[key]
        if l["absent"]:
            return 0
        n = EMITTING if l.get("leaves") else 0
        n += 1 if l.get("tag") else 0
        for c in self.kids.get(key, []):
            if c in sel:
                n += self.names_under(c, sel)
        return n


# ------------------------------------------------------------------------------------------------
# forest -> node trees
# ------------------------------------------------------------------------------------------------
class Fields:
    """The fields of a struct or of a struct/tuple variant."""

    def __init__(self):
        self.leaves = None      # dict lk -> expectation, or None
        self.senum = None       # style of the value(string) enum
        self.edges = []         # [Edge]
        self.key = None
        # the macro does not compile an entry-enum struct variant that has an #[metrics(ignore)] field
        # (the closed variant lacks the field but the generated patterns name it): not generated there
        self.no_ignore = False


class Edge:
    def __init__(self, fk, fprefix, optional, child, key):
        self.fk, self.fprefix, self.optional, self.child, self.key = fk, fprefix, optional, child, key


class Node:
    def __init__(self, kind, key, line):
        self.kind = kind          # 's' | 'e'
        self.key = key
        self.line = line
        t = Model.tok(key)
        off = 1 if t[0] == "R" else 3
        self.ra, self.pk, self.tk, self.tsg = t[off + 1], t[off + 2], t[off + 3], t[off + 4] == "1"
        self.cprefix = line["attrs"]["cprefix"]
        self.fields = None        # struct: Fields
        self.variants = []        # enum: [Variant]
        self.ty = None


class Variant:
    def __init__(self, key, line):
        t = Model.tok(key)
        self.key = key
        self.vk = t[1]
        self.ident = line["attrs"]["vident"]
        self.vname = line["attrs"]["vname"]
        self.tag = line["tag"][0] if line.get("tag") else None
        self.fields = Fields()


def build_fields(model, sel, key, fields, only=None, with_leaves=True):
    line = model.lines[key]
    fields.key = key
    if with_leaves and line.get("leaves"):
        fields.leaves = line["leaves"]
    groups = collections.OrderedDict()
    for c in model.kids.get(key, []):
        if c not in sel or (only is not None and c not in only):
            continue
        t = model.tok(c)
        if t[0] != "D":
            continue
        gid = tuple(t[:2] + t[3:])
        groups.setdefault(gid, {})[t[2]] = c
    for gid, g in groups.items():
        ck = g.get("no") or g.get("some")
        if ck is None:
            continue
        child = build_node(model, sel, ck)
        fields.edges.append(Edge(gid[1], model.lines[ck]["attrs"]["fprefix"], "some" in g, child, ck))
    # the macro names one const item after every flatten prefix and puts them into one block: the specification
    # must hand out distinct words (C07 quantifies over definitions that compile)
    seen = {}
    for e in fields.edges:
        if e.fk == "none":
            continue
        norm = "".join(ch for ch in e.fprefix.lower() if ch.isalnum())
        if norm in seen:
            raise ValueError("two flatten fields of %s share the prefix word %r / %r" % ("/".join(key[1:]), seen[norm], e.fprefix))
        seen[norm] = e.fprefix


def build_node(model, sel, key, only=None, with_leaves=True):
    line = model.lines[key]
    t = model.tok(key)
    kind = t[1] if t[0] == "R" else t[3]
    n = Node(kind, key, line)
    n.senum = line["attrs"]["senum"]
    if kind == "s":
        n.fields = Fields()
        build_fields(model, sel, key, n.fields, only, with_leaves)
    else:
        for c in model.kids.get(key, []):
            if c not in sel or (only is not None and c not in only):
                continue
            if model.tok(c)[0] != "V":
                continue
            var = Variant(c, model.lines[c])
            var.fields.no_ignore = True
            build_fields(model, sel, c, var.fields)
            if var.vk == "tuple" and not var.fields.edges:
                continue    # the child of a tuple variant was not selected
            n.variants.append(var)
    return n


# ------------------------------------------------------------------------------------------------
# node trees -> Rust
# ------------------------------------------------------------------------------------------------
def rs(s):
    return json.dumps(s, ensure_ascii=False)


class Emitter:
    """One compilation unit."""

    def __init__(self, meta):
        self.meta = meta
        self.types = {}       # signature -> type name
        self.defs = []
        self.child_types = set()
        self.nodes_by_ty = {}

    def sig_fields(self, f, senum):
        return ["F", sorted(f.leaves) if f.leaves else None, senum if f.leaves else None, f.no_ignore,
                [[e.fk, e.fprefix, e.optional, self.type_of(e.child, child=True)] for e in f.edges]]

    def type_of(self, n, child=False):
        if n.kind == "s":
            sig = ["s", n.ra, n.pk, n.cprefix, self.sig_fields(n.fields, n.senum)]
        else:
            sig = ["e", n.ra, n.pk, n.cprefix, n.tk, n.tsg,
                   [[va.ident, va.vname, va.vk, self.sig_fields(va.fields, n.senum)] for va in n.variants]]
        s = json.dumps(sig)
        ty = self.types.get(s)
        if ty is None:
            ty = ("T%d" if n.kind == "s" else "E%d") % len(self.types)
            self.types[s] = ty
            self.nodes_by_ty[ty] = n
            self.defs.append(ty)
        n.ty = ty
        if child:
            self.child_types.add(ty)
        return ty

    # --- definitions -------------------------------------------------------------------------
    def container_attr(self, n, is_child):
        parts = []
        if is_child:
            parts.append("subfield")
        if n.kind == "e" and n.tk != "none":
            key = "name" if n.tk == "name" else "name_exact"
            val = self.meta["tagname"] if n.tk == "name" else self.meta["tagexact"]
            parts.append("tag(%s = %s%s)" % (key, rs(val), ", sample_group" if n.tsg else ""))
        if n.ra != "none":
            parts.append("rename_all = %s" % rs(RA_ATTR[n.ra]))
        if n.pk == "infl":
            parts.append("prefix = %s" % rs(n.cprefix))
        elif n.pk == "exact":
            parts.append("exact_prefix = %s" % rs(n.cprefix))
        return "#[metrics(%s)]" % ", ".join(parts) if parts else "#[metrics]"

    def edge_attr(self, e):
        if e.fk == "infl":
            return "#[metrics(flatten, prefix = %s)]" % rs(e.fprefix)
        if e.fk == "exact":
            return "#[metrics(flatten, exact_prefix = %s)]" % rs(e.fprefix)
        return "#[metrics(flatten)]"

    def field_decls(self, f, senum, vis):
        m = self.meta
        out = []

        def leaf(slot):
            if not f.leaves or (slot == "ignore" and f.no_ignore):
                return
            idn = m["ident"]
            if slot == "plain":
                out.append("%s%s: u64," % (vis, idn["plain"]))
            elif slot == "named":
                out.append("#[metrics(name = %s)] %sapi_call: u64," % (rs(m["override"]["named"]), vis))
            elif slot == "unit":
                out.append("#[metrics(unit = Byte)] %s%s: u64," % (vis, idn["unit"]))
            elif slot == "ignore":
                out.append("#[metrics(ignore)] %sign_me: u64," % vis)
            elif slot == "opt":
                out.append("%s%s: Option<u64>," % (vis, idn["optsome"]))
            elif slot == "valstruct":
                out.append("%s%s: ValC," % (vis, idn["valstruct"]))
            elif slot == "senum":
                out.append("#[metrics(sample_group)] %s%s: %s," % (vis, idn["senumA"], SENUM_TY[senum]))
            elif slot == "sgroup":
                out.append("#[metrics(sample_group)] %s%s: &'static str," % (vis, idn["sgroup"]))
            elif slot == "sgnamed":
                out.append("#[metrics(sample_group, name = %s)] %sgrp_val: ValW," % (rs(m["override"]["sgnamed"]), vis))

        for s in HEAD:
            leaf(s)
        for j, e in enumerate(f.edges):
            ty = e.child.ty
            out.append("%s %sf%d: %s," % (self.edge_attr(e), vis, j, "Option<%s>" % ty if e.optional else ty))
        for s in TAIL:
            leaf(s)
        return out

    def field_inits(self, f):
        m = self.meta
        idn = m["ident"]
        out = []

        def leaf(slot):
            if not f.leaves or (slot == "ignore" and f.no_ignore):
                return
            i = SLOT_IDX[slot]
            if slot == "plain":
                out.append("%s: v(s, %d)," % (idn["plain"], i))
            elif slot == "named":
                out.append("api_call: v(s, %d)," % i)
            elif slot == "unit":
                out.append("%s: v(s, %d)," % (idn["unit"], i))
            elif slot == "ignore":
                out.append("ign_me: v(s, %d)," % i)
            elif slot == "opt":
                out.append("%s: if m & 1 == 1 { Some(v(s, %d)) } else { None }," % (idn["optsome"], i))
            elif slot == "valstruct":
                out.append("%s: ValC(v(s, %d) as u32)," % (idn["valstruct"], i))
            elif slot == "senum":
                out.append("%s: if m & 1 == 1 { SE::%s } else { SE::WriteData }," % (idn["senumA"], m["senumvariant"]))
            elif slot == "sgroup":
                out.append("%s: GS[(v(s, %d) %% 4) as usize]," % (idn["sgroup"], i))
            elif slot == "sgnamed":
                out.append("grp_val: ValW(GS[(v(s, %d) %% 4) as usize])," % i)

        for s in HEAD:
            leaf(s)
        for j, e in enumerate(f.edges):
            call = "mk_%s(sub(s, %d), m, k, lvl + 1)" % (e.child.ty.lower(), j)
            if e.optional:
                call = "if (m >> lvl) & 1 == 1 { Some(%s) } else { None }" % call
            out.append("f%d: %s," % (j, call))
        for s in TAIL:
            leaf(s)
        return out

    def define(self, ty):
        n = self.nodes_by_ty[ty]
        is_child = ty in self.child_types
        o = []
        attr = self.container_attr(n, is_child)
        fn = "mk_" + ty.lower()
        if n.kind == "s":
            o.append(attr)
            o.append("pub struct %s {" % ty)
            o += ["    " + d for d in self.field_decls(n.fields, n.senum, "pub ")]
            o.append("}")
            o.append("fn %s(s: u64, m: u32, k: u32, lvl: u32) -> %s {" % (fn, ty))
            o.append("    let _ = (s, m, k, lvl);")
            if n.fields.leaves:
                o.append("    use %s as SE;" % SENUM_TY[n.senum])
            o.append("    %s {" % ty)
            o += ["        " + d for d in self.field_inits(n.fields)]
            o.append("    }")
            o.append("}")
        else:
            o.append(attr)
            o.append("pub enum %s {" % ty)
            for va in n.variants:
                nm = "#[metrics(name = %s)] " % rs(va.vname) if va.vname else ""
                if va.vk == "unit":
                    o.append("    %s%s," % (nm, va.ident))
                elif va.vk == "struct":
                    o.append("    %s%s {" % (nm, va.ident))
                    o += ["        " + d for d in self.field_decls(va.fields, n.senum, "")]
                    o.append("    },")
                else:
                    e = va.fields.edges[0]
                    cty = "Option<%s>" % e.child.ty if e.optional else e.child.ty
                    o.append("    %s%s(%s %s)," % (nm, va.ident, self.edge_attr(e), cty))
            o.append("}")
            o.append("fn %s(s: u64, m: u32, k: u32, lvl: u32) -> %s {" % (fn, ty))
            o.append("    let _ = (s, m, k, lvl);")
            o.append("    use %s as SE;" % SENUM_TY[n.senum])
            o.append("    match k %% %d {" % len(n.variants))
            for i, va in enumerate(n.variants):
                pat = "_" if i == len(n.variants) - 1 else str(i)
                if va.vk == "unit":
                    o.append("        %s => %s::%s," % (pat, ty, va.ident))
                elif va.vk == "struct":
                    o.append("        %s => %s::%s {" % (pat, ty, va.ident))
                    o += ["            " + d for d in self.field_inits(va.fields)]
                    o.append("        },")
                else:
                    e = va.fields.edges[0]
                    call = "mk_%s(sub(s, 0), m, k, lvl + 1)" % e.child.ty.lower()
                    if e.optional:
                        call = "if (m >> lvl) & 1 == 1 { Some(%s) } else { None }" % call
                    o.append("        %s => %s::%s(%s)," % (pat, ty, va.ident, call))
            o.append("    }")
            o.append("}")
        return o


PRELUDE = '''// GENERATED by tools/gen_naming.py from the paths of spec/naming/NamingReplay.tla - do not edit
#![allow(dead_code, unused_imports, unused_variables, private_interfaces, clippy::all)]
use std::io::Write;
use metrique::unit::{Byte, Count};
use metrique::unit_of_work::metrics;
use metrique::{CloseValue, RootEntry};
use vharness_naming::record_catch;

#[metrics(value(string))]
pub enum SEnumPreserve { %(sv)s, #[metrics(name = %(so)s)] WriteData }
#[metrics(value(string), rename_all = "PascalCase")]
pub enum SEnumPascal { %(sv)s, #[metrics(name = %(so)s)] WriteData }
#[metrics(value(string), rename_all = "snake_case")]
pub enum SEnumSnake { %(sv)s, #[metrics(name = %(so)s)] WriteData }
#[metrics(value(string), rename_all = "kebab-case")]
pub enum SEnumKebab { %(sv)s, #[metrics(name = %(so)s)] WriteData }
#[metrics(value)]
pub struct ValC(#[metrics(unit = Count)] pub u32);
#[metrics(value, sample_group)]
pub struct ValW(pub &'static str);

const GS: [&str; 4] = ["g0", "g1", "g2", "g3"];
fn v(s: u64, i: u64) -> u64 { ((s ^ (s >> 17)).wrapping_mul(0x9E3779B1).wrapping_add(i)) & 0x7fff_ffff }
fn sub(s: u64, j: u64) -> u64 { s.wrapping_mul(1_000_003).wrapping_add(j + 1) }
'''


def max_variants(n):
    """Largest variant count of an entry enum in the tree (number of k values needed)."""
    best = 1
    if n.kind == "e":
        best = max(best, len(n.variants))
        fl = [va.fields for va in n.variants]
    else:
        fl = [n.fields]
    for f in fl:
        for e in f.edges:
            best = max(best, max_variants(e.child))
    return best


class Program:
    """One bin: its root views (node trees), source text, and the expected output per instance."""

    def __init__(self, name, meta, roots, seed):
        self.name = name
        self.meta = meta
        self.roots = roots          # [Node]
        self.seed = seed

    def source(self):
        em = Emitter(self.meta)
        for r in self.roots:
            em.type_of(r)
        out = [PRELUDE % {"sv": self.meta["senumvariant"], "so": rs(self.meta["senumoverride"])}]
        for ty in em.defs:
            out += em.define(ty)
            out.append("")
        out.append("fn main() {")
        out.append("    let stdout = std::io::stdout();")
        out.append("    let mut w = std::io::BufWriter::new(stdout.lock());")
        for ri, r in enumerate(self.roots):
            modes = "[" + ", ".join("%du32" % x for x in MODES) + "]"
            out.append("    for k in 0..%du32 { for m in %s { let id = format!(\"%s.r%d.k{}.m{}\", k, m);" %
                       (max_variants(r), modes, self.name, ri))
            out.append("        writeln!(w, \"{}\", record_catch(&id, move || RootEntry::new(mk_%s(%d, m, k, 1).close()))).unwrap(); } }"
                       % (r.ty.lower(), self.root_seed(ri)))
        out.append("}")
        return "\n".join(out) + "\n"

    def root_seed(self, ri):
        return (self.seed * 7919 + ri * 104729 + 12345) & 0xFFFFFFFF

    def instances(self):
        for ri, r in enumerate(self.roots):
            for k in range(max_variants(r)):
                for m in MODES:
                    yield "%s.r%d.k%d.m%d" % (self.name, ri, k, m), r, ri, k, m

    def expected(self, r, ri, k, m, absent=None):
        """-> (items [(name, kind, value, unit)], paths [(key, leaf)], sg [(k, v)]); `absent` collects the paths
        that TLC expects to contribute nothing in this instance (ignored fields, None leaves, None children)"""
        items, paths, sg = [], [], []
        expect_node(r, self.root_seed(ri), m, k, 1, items, paths, sg, absent)
        return items, paths, sg


def value_of(exp, s, i):
    vc = exp["v"]
    if vc == "num":
        return "u:%d" % v(s, i)
    if vc == "str":
        return GS[v(s, i) % 4]
    assert vc.startswith("="), vc
    return vc[1:]


def expect_fields(f, s, m, k, lvl, items, paths, sg, absent=None):
    def leaf(slot):
        if not f.leaves or (slot == "ignore" and f.no_ignore):
            return
        lk = slot
        if slot == "opt":
            lk = "optsome" if m & 1 else "optnone"
        elif slot == "senum":
            lk = "senumA" if m & 1 else "senumB"
        exp = f.leaves[lk]
        if not exp["p"]:
            if absent is not None:
                absent.add((f.key, "L:" + lk))
            return
        val = value_of(exp, s, SLOT_IDX[slot])
        items.append((exp["n"], exp["k"], val, exp["u"]))
        paths.append((f.key, "L:" + lk))
        if exp["g"]:
            sg.append((exp["n"], val))

    for sl in HEAD:
        leaf(sl)
    for j, e in enumerate(f.edges):
        if e.optional and not (m >> lvl) & 1:
            if absent is not None:      # TLC: the absent edge is a terminal path that contributes nothing
                absent.add((e.key, "None"))
            continue
        expect_node(e.child, sub(s, j), m, k, lvl + 1, items, paths, sg, absent)
    for sl in TAIL:
        leaf(sl)


def expect_node(n, s, m, k, lvl, items, paths, sg, absent=None):
    if n.kind == "s":
        expect_fields(n.fields, s, m, k, lvl, items, paths, sg, absent)
        return
    va = n.variants[k % len(n.variants)]
    if va.tag is not None and va.tag["p"]:
        val = value_of(va.tag, s, 0)
        items.append((va.tag["n"], va.tag["k"], val, va.tag["u"]))
        paths.append((va.key, "T"))
        if va.tag["g"]:
            sg.append((va.tag["n"], val))
    expect_fields(va.fields, s, m, k, lvl, items, paths, sg, absent)


# ------------------------------------------------------------------------------------------------
# selection -> programs
# ------------------------------------------------------------------------------------------------
def plan(model, sel, nbins, seed, prefix="gen_b"):
    """Cut the selected forest into `nbins` programs of balanced cost. A root with several selected children
    is split into views (root + subset of its flatten fields / variants); its own leaves go to one view."""
    sel = model.close(sel)
    units = []     # (weight, root, child or None)
    for r in model.roots:
        if r not in sel:
            continue
        if model.lines[r].get("leaves"):
            units.append((EMITTING, r, None))
        for c in model.kids.get(r, []):
            if c in sel and not model.is_absent(c):
                w = model.names_under(c, sel)
                if w:
                    units.append((w, r, c))
    units.sort(key=lambda u: (-u[0], u[1], u[2] or ()))
    nbins = max(1, min(nbins, len(units)))
    bins = [[0, collections.OrderedDict()] for _ in range(nbins)]
    for w, r, c in units:
        b = min(bins, key=lambda x: x[0])
        b[0] += w
        view = b[1].setdefault(r, {"leaves": False, "kids": set()})
        if c is None:
            view["leaves"] = True
        else:
            view["kids"].add(c)
            t = model.tok(c)
            if t[0] == "D" and t[2] == "some":
                view["kids"].add(c[:-1] + (":".join(t[:2] + ["none"] + t[3:]),))
    progs = []
    for i, (w, views) in enumerate(bins):
        roots = []
        for r, view in views.items():
            roots.append(build_node(model, sel, r, only=view["kids"], with_leaves=view["leaves"]))
        p = Program("%s%02d" % (prefix.replace("gen_", ""), i), model.meta, roots, seed)
        p.weight = w
        p.bin = "%s%02d" % (prefix, i)
        progs.append(p)
    return progs


def write_programs(crate_dir, progs, prefix="gen_"):
    bdir = os.path.join(crate_dir, "src", "bin")
    os.makedirs(bdir, exist_ok=True)
    for f in glob.glob(os.path.join(bdir, prefix + "*.rs")):
        os.remove(f)
    n = 0
    for p in progs:
        src = p.source()
        n += src.count("\n")
        with open(os.path.join(bdir, p.bin + ".rs"), "w", encoding="utf-8") as f:
            f.write(src)
    return n
