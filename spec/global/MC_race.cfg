\* lock-level race: 2 appenders x 2 try_appends against 2 controllers (attach, drop handle)
CONSTANTS
  Appenders = {1, 2}
  NApp = 2
  Ctls = {1, 2}
  AppendUnderLock = TRUE
  DropUnderLock = TRUE
SPECIFICATION Spec
INVARIANTS AbsInv NeverPoisoned LockOK NoLatePush AtEnd
PROPERTY Refines
CHECK_DEADLOCK FALSE
