//! Small helpers: argument parsing, seeded RNG, ndjson reading.

use rand::SeedableRng;
use rand_chacha::ChaCha8Rng;
use std::collections::HashMap;
use std::io::BufRead;

pub fn rng(seed: u64) -> ChaCha8Rng {
    ChaCha8Rng::seed_from_u64(seed)
}

/// `--key value` pairs after the sub-command.
pub fn args() -> (String, HashMap<String, String>) {
    let mut it = std::env::args().skip(1);
    let cmd = it.next().unwrap_or_default();
    let mut m = HashMap::new();
    while let Some(k) = it.next() {
        if let Some(k) = k.strip_prefix("--") {
            let v = it.next().unwrap_or_default();
            m.insert(k.to_string(), v);
        }
    }
    (cmd, m)
}

pub fn arg_u64(m: &HashMap<String, String>, k: &str, default: u64) -> u64 {
    m.get(k).and_then(|v| v.parse().ok()).unwrap_or(default)
}

pub fn arg_str<'a>(m: &'a HashMap<String, String>, k: &str, default: &'a str) -> &'a str {
    m.get(k).map(|s| s.as_str()).unwrap_or(default)
}

pub fn read_ndjson(path: &str) -> Vec<serde_json::Value> {
    let f = std::fs::File::open(path).unwrap_or_else(|e| panic!("open {path}: {e}"));
    std::io::BufReader::new(f)
        .lines()
        .map(|l| l.unwrap())
        .filter(|l| !l.trim().is_empty())
        .map(|l| serde_json::from_str(&l).unwrap_or_else(|e| panic!("bad json line {l}: {e}")))
        .collect()
}

/// Run `f`, converting a panic into `Err(message)`.
pub fn catch<T>(f: impl FnOnce() -> T) -> Result<T, String> {
    std::panic::catch_unwind(std::panic::AssertUnwindSafe(f)).map_err(|e| {
        if let Some(s) = e.downcast_ref::<&str>() {
            s.to_string()
        } else if let Some(s) = e.downcast_ref::<String>() {
            s.clone()
        } else {
            "panic".to_string()
        }
    })
}
