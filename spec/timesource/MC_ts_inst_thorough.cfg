CONSTANTS
  Users = {"t1", "t2"}
  Workers = {}
  Runtimes = {"r1", "r2"}
  Sources = {"m1", "tk", "st"}
  Static = {"st"}
  TLVals = {"m1"}
  RtVals = {"tk"}
  XVals = {"st"}
  MaxGuards = 1
  MaxEnter = 1
  MaxClock = 3
  MaxInst = 2
  Deltas = {1, 2}
  Actors = {"t1", "t2"}
  Ops = {"Set", "Drop", "Enter", "RtInstall", "RtDrop", "Take", "Advance"}
  Bug = "none"
SPECIFICATION Spec
INVARIANTS TypeOK Priority OneOverride LifoChain LifoRestores NoLeakUnderLifo InstantsOwnSource
PROPERTIES WithRestores ThreadLocal RuntimeScoped PanicChangesNothing InstantsStable EnterIsLocal LeakIsPermanent
CHECK_DEADLOCK FALSE
