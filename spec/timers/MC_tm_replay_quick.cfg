CONSTANTS
  Slots = {1}
  Ds = {1, 2}
  MaxClock = 1000
  W0 = 1700000
  W0B = 9000000
  Ambients = {"A"}
  Threads = {"main"}
  Resolution = "captured"
  UnwindDrops = FALSE
  Depth = 7
SPECIFICATION RSpec
INVARIANT Emit
INVARIANT TmInv
CONSTRAINT Bound
CHECK_DEADLOCK FALSE
