\* quick, C05 focus: drop or forget, deadline may pass, no flush request
CONSTANTS
  Producers = {1}
  MaxApp = 2
  Cap = 1
  Flushers = {}
  K = 1
  Results = {"ok"}
  AllowForget = TRUE
  AllowTick = TRUE
SPECIFICATION Spec
INVARIANTS TypeOK AbsInv ProducerOrder OnlyAppended NoLossAtEnd BoundedBatch EbwExact NoParkWithWaiters JoinedMeansClosed
PROPERTY Refines
CHECK_DEADLOCK FALSE
