--------------------------- MODULE GlobalSinkRace ---------------------------
(***************************************************************************)
(* C17, concurrent part - implementation-shaped model of try_append /      *)
(* attach / AttachHandle::drop of a `global_entry_sink!` at the            *)
(* granularity of the SINK RwLock (global.rs:481-521), with a background   *)
(* queue as the attached sink (its writer drains, flushes and closes when  *)
(* the join handle is dropped; pushes after the close are discarded, as    *)
(* in background.rs).                                                      *)
(*                                                                         *)
(*   try_append:  RLock . Look . Push . RUnlock . Ret                      *)
(*   attach:      WLock . Check ( Set . WUnlock . Ret | WUnlock . Panic )  *)
(*   handle drop: WLock . Take . [writer: drain, flush, close] . Join .    *)
(*                WUnlock . Ret         (the pair taken out of the slot is *)
(*                dropped before the write guard, a temporary of the same  *)
(*                statement)                                               *)
(*                                                                         *)
(* The detach takes effect - the abstract attached sink becomes none - at  *)
(* the release of the write lock: only then can anybody see the slot       *)
(* empty, and by then the queue has drained, flushed and closed.           *)
(* DropUnderLock = FALSE (release the lock, then drop the pair) lets other *)
(* threads see "detached" while accepted entries are unwritten: it does    *)
(* NOT refine (self-test).                                                 *)
(* TLC checks that every interleaving refines GlobalDetach (property       *)
(* layer).  AppendUnderLock = FALSE is the variant "clone the sink, drop   *)
(* the read lock, then append": it does NOT refine (an entry pushed after  *)
(* the close is accepted, reported Ok and never written) - used by the     *)
(* self-test to show that the model distinguishes.                         *)
(***************************************************************************)
EXTENDS Naturals, Sequences, FiniteSets, TLC

CONSTANTS Appenders,        \* e.g. {1, 2}
          NApp,             \* try_appends per appender
          Ctls,             \* controllers = sinks: controller c attaches sink c once and drops its handle
          AppendUnderLock,  \* TRUE = the code; FALSE = append after releasing the read lock
          DropUnderLock     \* TRUE = the code (the taken pair is dropped before the write guard);
                            \* FALSE = the write lock is released first, then the pair is dropped

VARIABLES
    readers, writer,   \* the RwLock: set of appenders holding it shared / controller holding it exclusively (0 = none)
    slot,              \* content of SINK: attached sink or 0
    apc, an, ad,       \* appender: program counter, entries done, looked-up sink
    cpc,               \* controller program counter
    q, out, fl, stop, qclosed,   \* per sink: queued entries, written entries, flushed prefix, shutdown requested, closed
    acc, oks, errs,    \* history: sink -> accepted entries; returned Ok / Err
    poisoned           \* a panic happened while the lock was held

vars == <<readers, writer, slot, apc, an, ad, cpc, q, out, fl, stop, qclosed, acc, oks, errs, poisoned>>

Entry(p) == p * 10 + an[p] + 1        \* the entry appender p is working on

Init ==
    /\ readers = {} /\ writer = 0 /\ slot = 0
    /\ apc = [p \in Appenders |-> "idle"] /\ an = [p \in Appenders |-> 0] /\ ad = [p \in Appenders |-> 0]
    /\ cpc = [c \in Ctls |-> "new"]
    /\ q = [s \in Ctls |-> <<>>] /\ out = [s \in Ctls |-> <<>>] /\ fl = [s \in Ctls |-> 0]
    /\ stop = [s \in Ctls |-> FALSE] /\ qclosed = [s \in Ctls |-> FALSE]
    /\ acc = [s \in Ctls |-> {}] /\ oks = {} /\ errs = {} /\ poisoned = FALSE

\* ---- try_append ------------------------------------------------------------------
AStart(p) == /\ apc[p] = "idle" /\ an[p] < NApp
             /\ apc' = [apc EXCEPT ![p] = "rlock"]
             /\ UNCHANGED <<readers, writer, slot, an, ad, cpc, q, out, fl, stop, qclosed, acc, oks, errs, poisoned>>
ARLock(p) == /\ apc[p] = "rlock" /\ writer = 0 /\ ~poisoned
             /\ readers' = readers \cup {p} /\ apc' = [apc EXCEPT ![p] = "look"]
             /\ UNCHANGED <<writer, slot, an, ad, cpc, q, out, fl, stop, qclosed, acc, oks, errs, poisoned>>
\* read.as_ref(): the linearization point
ALook(p) == /\ apc[p] = "look"
            /\ ad' = [ad EXCEPT ![p] = slot]
            /\ acc' = IF slot # 0 THEN [acc EXCEPT ![slot] = @ \cup {Entry(p)}] ELSE acc
            /\ apc' = [apc EXCEPT ![p] = IF AppendUnderLock THEN "push" ELSE "unlock"]
            /\ UNCHANGED <<readers, writer, slot, an, cpc, q, out, fl, stop, qclosed, oks, errs, poisoned>>
\* sink.append(entry): a queue that has shut down discards the entry silently
APush(p) == /\ apc[p] = "push"
            /\ q' = IF ad[p] # 0 /\ ~qclosed[ad[p]] THEN [q EXCEPT ![ad[p]] = Append(@, Entry(p))] ELSE q
            /\ apc' = [apc EXCEPT ![p] = IF AppendUnderLock THEN "unlock" ELSE "ret"]
            /\ UNCHANGED <<readers, writer, slot, an, ad, cpc, out, fl, stop, qclosed, acc, oks, errs, poisoned>>
AUnlock(p) == /\ apc[p] = "unlock"
              /\ readers' = readers \ {p}
              /\ apc' = [apc EXCEPT ![p] = IF AppendUnderLock THEN "ret" ELSE "push"]
              /\ UNCHANGED <<writer, slot, an, ad, cpc, q, out, fl, stop, qclosed, acc, oks, errs, poisoned>>
ARet(p) == /\ apc[p] = "ret"
           /\ oks' = IF ad[p] # 0 THEN oks \cup {Entry(p)} ELSE oks
           /\ errs' = IF ad[p] = 0 THEN errs \cup {Entry(p)} ELSE errs
           /\ an' = [an EXCEPT ![p] = @ + 1] /\ apc' = [apc EXCEPT ![p] = "idle"]
           /\ UNCHANGED <<readers, writer, slot, ad, cpc, q, out, fl, stop, qclosed, acc, poisoned>>

\* ---- attach -----------------------------------------------------------------------
C(c, from, to) == cpc[c] = from /\ cpc' = [cpc EXCEPT ![c] = to]
CStart(c) == /\ C(c, "new", "wlock")
             /\ UNCHANGED <<readers, writer, slot, apc, an, ad, q, out, fl, stop, qclosed, acc, oks, errs, poisoned>>
CWLock(c) == /\ cpc[c] \in {"wlock", "dwlock"} /\ writer = 0 /\ readers = {} /\ ~poisoned
             /\ writer' = c /\ cpc' = [cpc EXCEPT ![c] = IF cpc[c] = "wlock" THEN "check" ELSE "take"]
             /\ UNCHANGED <<readers, slot, apc, an, ad, q, out, fl, stop, qclosed, acc, oks, errs, poisoned>>
CCheckSet(c) == /\ cpc[c] = "check" /\ slot = 0
                /\ slot' = c /\ cpc' = [cpc EXCEPT ![c] = "setunlock"]
                /\ UNCHANGED <<readers, writer, apc, an, ad, q, out, fl, stop, qclosed, acc, oks, errs, poisoned>>
CCheckFail(c) == /\ cpc[c] = "check" /\ slot # 0
                 /\ cpc' = [cpc EXCEPT ![c] = "failunlock"]
                 /\ UNCHANGED <<readers, writer, slot, apc, an, ad, q, out, fl, stop, qclosed, acc, oks, errs, poisoned>>
\* drop(write) -- "don't poison" -- then panic
CUnlock(c) == /\ cpc[c] \in {"setunlock", "failunlock", "dunlock", "eunlock"} /\ writer = c
              /\ writer' = 0
              /\ cpc' = [cpc EXCEPT ![c] = CASE cpc[c] = "setunlock" -> "attret" [] cpc[c] = "failunlock" -> "panic"
                                              [] cpc[c] = "eunlock" -> "ejoin"
                                              [] OTHER -> "detret"]
              /\ UNCHANGED <<readers, slot, apc, an, ad, q, out, fl, stop, qclosed, acc, oks, errs, poisoned>>
CPanic(c) == /\ C(c, "panic", "failed") /\ poisoned' = (poisoned \/ writer = c)
             /\ UNCHANGED <<readers, writer, slot, apc, an, ad, q, out, fl, stop, qclosed, acc, oks, errs>>
CAttRet(c) == /\ C(c, "attret", "held")
              /\ UNCHANGED <<readers, writer, slot, apc, an, ad, q, out, fl, stop, qclosed, acc, oks, errs, poisoned>>

\* ---- drop of the attach handle -------------------------------------------------------
CDStart(c) == /\ C(c, "held", "dwlock")
              /\ UNCHANGED <<readers, writer, slot, apc, an, ad, q, out, fl, stop, qclosed, acc, oks, errs, poisoned>>
\* SINK.write().take(): the pair leaves the slot; dropping it asks the queue to shut down
CTake(c) == /\ cpc[c] = "take" /\ slot' = 0 /\ stop' = [stop EXCEPT ![c] = TRUE]
            /\ cpc' = [cpc EXCEPT ![c] = IF DropUnderLock THEN "join" ELSE "eunlock"]
            /\ UNCHANGED <<readers, writer, apc, an, ad, q, out, fl, qclosed, acc, oks, errs, poisoned>>
\* join() returns when the writer thread has closed the stream
CJoin(c) == /\ cpc[c] \in {"join", "ejoin"} /\ qclosed[c]
            /\ cpc' = [cpc EXCEPT ![c] = IF cpc[c] = "join" THEN "dunlock" ELSE "detret"]
            /\ UNCHANGED <<readers, writer, slot, apc, an, ad, q, out, fl, stop, qclosed, acc, oks, errs, poisoned>>
CDetRet(c) == /\ C(c, "detret", "done")
              /\ UNCHANGED <<readers, writer, slot, apc, an, ad, q, out, fl, stop, qclosed, acc, oks, errs, poisoned>>

\* ---- the queue's writer thread ------------------------------------------------------
WWrite(s) == /\ q[s] # <<>> /\ ~qclosed[s]
             /\ out' = [out EXCEPT ![s] = Append(@, Head(q[s]))] /\ q' = [q EXCEPT ![s] = Tail(@)]
             /\ UNCHANGED <<readers, writer, slot, apc, an, ad, cpc, fl, stop, qclosed, acc, oks, errs, poisoned>>
WFlush(s) == /\ ~qclosed[s] /\ fl[s] # Len(out[s]) /\ fl' = [fl EXCEPT ![s] = Len(out[s])]
             /\ UNCHANGED <<readers, writer, slot, apc, an, ad, cpc, q, out, stop, qclosed, acc, oks, errs, poisoned>>
\* shut_down: drain, flush, drop(stream)
WClose(s) == /\ stop[s] /\ ~qclosed[s] /\ q[s] = <<>> /\ fl[s] = Len(out[s])
             /\ qclosed' = [qclosed EXCEPT ![s] = TRUE]
             /\ UNCHANGED <<readers, writer, slot, apc, an, ad, cpc, q, out, fl, stop, acc, oks, errs, poisoned>>

Next ==
    \/ \E p \in Appenders : AStart(p) \/ ARLock(p) \/ ALook(p) \/ APush(p) \/ AUnlock(p) \/ ARet(p)
    \/ \E c \in Ctls : \/ CStart(c) \/ CWLock(c) \/ CCheckSet(c) \/ CCheckFail(c) \/ CUnlock(c) \/ CPanic(c)
                       \/ CAttRet(c) \/ CDStart(c) \/ CTake(c) \/ CJoin(c) \/ CDetRet(c)
    \/ \E s \in Ctls : WWrite(s) \/ WFlush(s) \/ WClose(s)

Spec == Init /\ [][Next]_vars
FairSpec == Spec /\ WF_vars(Next)

\* ---- refinement of the property layer -------------------------------------------------
AState(c) == CASE cpc[c] = "new" -> "new"
               [] cpc[c] \in {"wlock", "check"} -> "attaching"
               [] cpc[c] \in {"setunlock", "attret"} -> "attlin"
               [] cpc[c] = "held" -> "held"
               [] cpc[c] \in {"failunlock", "panic"} -> "faillin"
               [] cpc[c] = "failed" -> "failed"
               [] cpc[c] \in {"dwlock", "take", "join", "dunlock", "eunlock"} -> "detaching"
               [] cpc[c] \in {"ejoin", "detret"} -> "detlin"
               [] OTHER -> "detached"

\* the sink somebody has taken out of the slot while still holding the write lock is, for every
\* other thread, still attached
Taking == {c \in Ctls : cpc[c] \in {"join", "dunlock", "eunlock"}}
Abs == INSTANCE GlobalDetach WITH
    aatt <- IF Taking # {} THEN CHOOSE c \in Taking : TRUE ELSE slot,
    pendApp <- {<<p, Entry(p)>> : p \in {x \in Appenders : apc[x] \in {"rlock", "look"}}},
    linApp <- {<<p, Entry(p), ad[p]>> : p \in {x \in Appenders : apc[x] \in {"push", "unlock", "ret"}}},
    okd <- oks, errd <- errs, accepted <- acc, nexted <- out, nflushed <- fl,
    closedS <- {s \in Ctls : qclosed[s]},
    astate <- [c \in Ctls |-> AState(c)],
    obs <- <<>>

AllE == {p * 10 + i : p \in Appenders, i \in 1..NApp}
ANext ==
    \/ \E p \in Appenders, e \in AllE : Abs!TryStart(p, e) \/ Abs!LinApp(p, e)
                                         \/ \E ok \in BOOLEAN : Abs!TryEnd(p, e, ok)
    \/ \E s \in Ctls : \/ Abs!AttachStart(s) \/ Abs!LinAttach(s) \/ Abs!LinAttachFail(s)
                       \/ \E ok \in BOOLEAN : Abs!AttachEnd(s, ok)
                       \/ Abs!DetachStart(s) \/ Abs!LinDetach(s) \/ Abs!DetachEnd(s)
                       \/ Abs!Flush(s) \/ Abs!Close(s)
                       \/ \E e \in AllE : Abs!Next(s, e)
Refines == [][ANext]_(Abs!dvars)
AbsInv == Abs!DInv

\* ---- further invariants -----------------------------------------------------------------
NeverPoisoned == ~poisoned
LockOK == (writer # 0 => readers = {}) /\ (writer \in Ctls \cup {0})
\* nothing is ever pushed into a queue that has shut down
NoLatePush == \A s \in Ctls : qclosed[s] => acc[s] = {out[s][i] : i \in 1..Len(out[s])}
\* when everybody is done every entry is in exactly one place
Finished == /\ \A p \in Appenders : apc[p] = "idle" /\ an[p] = NApp
            /\ \A c \in Ctls : cpc[c] \in {"done", "failed"}
AtEnd == Finished => Abs!Quiesced
\* progress: nobody is stuck (a controller that panicked holds no lock, a detach always completes)
Terminates == <>Finished
=============================================================================
