CONSTANTS
  Streams = {"a"}
  MaxEntries = 4
  Bug = "none"
SPECIFICATION Spec
INVARIANT SInv
CHECK_DEADLOCK FALSE
