SPECIFICATION TSpec
CONSTRAINT Track
INVARIANT SvcInv
POSTCONDITION Accepted
CHECK_DEADLOCK FALSE
