CONSTANTS
  Slots = {1}
  Ds = {0, 1, 2}
  MaxClock = 8
  W0 = 5
SPECIFICATION TmSpec
INVARIANT TmTypeOK
INVARIANT TmInv
CHECK_DEADLOCK FALSE
