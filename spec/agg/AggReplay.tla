---------------------------- MODULE AggReplay ----------------------------
(***************************************************************************)
(* Behaviour generators for Aggregation.tla (R direction).                 *)
(*                                                                         *)
(* RSpecA  exhaustive: every history of merge / flush / guard create,      *)
(*         mutate, drop up to Depth (BFS over the history variable).       *)
(*         Keys and value symbols are interchangeable (the driver maps     *)
(*         them to concrete keys / numbers by seeded tables), so a history *)
(*         uses key 2 / value 2 only after key 1 / value 1.                *)
(* RSpecB  -simulate walks (3 keys: the coarse key function then merges    *)
(*         keys 1 and 2 and keeps 3 apart), no symmetry reduction.         *)
(* Every Flush step carries the batch the property layer expects for each  *)
(* key function (Batch of the segment that ends there).                    *)
(***************************************************************************)
EXTENDS Aggregation, Json

CONSTANTS Depth
VARIABLE hist

SetToSeq(S) == LET RECURSIVE F(_) F(T) == IF T = {} THEN <<>> ELSE LET x == CHOOSE x \in T : TRUE IN <<x>> \o F(T \ {x})
               IN F(S)
\* aggregates as JSON-friendly records: bag as a sequence of counts (Vals = 1..n), ids as a sequence
J(a) == [key |-> a.key, sum |-> a.sum, bag |-> [i \in 1..Cardinality(Vals) |-> a.bag[i]],
         hbag |-> [i \in 1..Cardinality(Vals) |-> a.hbag[i]],
         pbag |-> [i \in 1..Cardinality(Vals) |-> a.pbag[i]], last |-> a.last,
         ids |-> SetToSeq(a.ids)]
JBatch(f) == SetToSeq({J(a) : a \in out'[f][Len(out'[f])]})

UsedKey(k) == \E i \in 1..Len(hist) : hist[i].op \in {"Merge", "GCreate"} /\ hist[i].k = k
UsedVal(v) == \E i \in 1..Len(hist) : hist[i].op \in {"Merge", "GCreate", "GMutate"} /\ hist[i].v = v
CanonK(k) == k = 1 \/ UsedKey(k - 1)
CanonV(v) == v = 1 \/ UsedVal(v - 1)

H(op, g, k, v) ==
    hist' = Append(hist, [op |-> op, g |-> g, k |-> k, v |-> v, id |-> IF op \in {"Merge", "GCreate"} THEN nin' ELSE 0,
                          fine |-> IF op = "Flush" THEN JBatch("fine") ELSE <<>>,
                          coarse |-> IF op = "Flush" THEN JBatch("coarse") ELSE <<>>,
                          all |-> IF op = "Flush" THEN JBatch("all") ELSE <<>>])

Steps(canon) ==
    \/ \E k \in Keys, v \in Vals : (canon => CanonK(k) /\ CanonV(v)) /\ Merge(k, v) /\ H("Merge", 0, k, v)
    \/ Flush /\ H("Flush", 0, 0, 0)
    \/ \E g \in 1..MaxGuards :
         \/ \E k \in Keys, v \in Vals : (canon => CanonK(k) /\ CanonV(v)) /\ GCreate(g, k, v) /\ H("GCreate", g, k, v)
         \/ \E v \in Vals : (canon => CanonV(v)) /\ GMutate(g, v) /\ H("GMutate", g, guards[g].key, v)
         \/ GDrop(g) /\ H("GDrop", g, guards[g].key, guards[g].v)

RInit == Init /\ hist = <<>>
RSpecA == RInit /\ [][Steps(TRUE)]_<<vars, hist>>
RSpecB == RInit /\ [][Steps(FALSE)]_<<vars, hist>>
Bound == Len(hist) <= Depth
\* shorter histories are prefixes of longer ones, so only leaves are printed
\* what a flush right after the history must emit (the driver always ends with one)
JHeld(f) == SetToSeq({J([key |-> kv] @@ acc[f][kv]) : kv \in DOMAIN acc[f]})
Emit == (Len(hist) = Depth) =>
          PrintT(<<"REPLAY", ToJson([steps |-> hist, nvals |-> Cardinality(Vals),
                                     final |-> [fine |-> JHeld("fine"), coarse |-> JHeld("coarse"), all |-> JHeld("all")]])>>)
=============================================================================
