\* model checking of the builder machine: every type tree with <= 3 fields in total, depth <= 3, over a
\* cross-section of the attribute domains; sanity invariants on every state, coverage of every action
CONSTANTS
  MaxDepth = 3
  MaxFields = 3
  MaxTotal = 3
  Styles = {"none", "PascalCase"}
  VStyles = {"inherit", "camelCase"}
  Kinds = {"u64", "sg@", "optnone", "ignore", "ts"}
  Forms = {"s_named", "s_tuple", "s_unit", "e3_named"}
  Edges = {"plain", "none"}
  ScriptKinds = {}
  ScriptRot = 0
  ScriptRev = FALSE
SPECIFICATION Spec
INVARIANT Sanity
CHECK_DEADLOCK FALSE
