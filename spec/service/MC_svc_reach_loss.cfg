\* vacuity guard (must be refuted): an entry appended through a sink clone while the handle is dropped is lost
CONSTANTS
  Plan <- Plan11
  ModesOf <- Direct
  NFlush = 0
  EarlyClose = FALSE
SPECIFICATION Spec
INVARIANTS ReachRaceLoss

CHECK_DEADLOCK FALSE
