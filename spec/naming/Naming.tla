------------------------------- MODULE Naming -------------------------------
(***************************************************************************)
(* C07: the names, kinds, units and sample-group pairs that a type          *)
(* annotated with #[metrics] emits, as documented in metrique-macro/src/    *)
(* lib.rs (sections "Metric Names", "Enums", attribute tables), README and   *)
(* the repository's tests (renames.rs, rename_is_transitive.rs, enum_*.rs,   *)
(* sample-group.rs).                                                         *)
(*                                                                         *)
(* Names are independent per field, so a behaviour of this specification is *)
(* one root-to-leaf PATH through a tree of metric types:                    *)
(*                                                                         *)
(*   Root / Descend   enter a container (struct or entry enum) and choose   *)
(*                    its rename_all, prefix | exact_prefix, tag(...); for  *)
(*                    Descend also the flatten edge leading to it: field    *)
(*                    level prefix | exact_prefix | none, plain or Option   *)
(*                    (Some | None)                                        *)
(*   Variant          choose the variant of the current entry enum          *)
(*   Leaf             a value field of the current struct / struct variant  *)
(*   TagLeaf          the tag item of the current entry enum                *)
(*                                                                         *)
(* The state carries what the documented rules depend on:                   *)
(*   sty   the style in force = nearest explicit rename_all on the path     *)
(*         (self included), "preserve" if there is none                     *)
(*   pre   the flatten prefixes passed so far, as ALREADY RENDERED segments:*)
(*         an inflectable flatten prefix is rendered in the style in force  *)
(*         at the container that declares the flatten field; an exact one   *)
(*         is copied                                                        *)
(* At the end of a path `out` is the expected emission: present?, the final *)
(* NAME STRING, string-or-metric kind, unit, value class, sample-group       *)
(* pairs.  TLC enumerates every path within the bounds (BFS over the history *)
(* variable `steps`) and checks the sanity invariants below; NamingReplay    *)
(* prints the paths, tools/gen_naming.py turns them into Rust types using    *)
(* the real macro and checks/chk_naming.py compares what the compiled        *)
(* program emits.                                                           *)
(*                                                                         *)
(* Identifier domain: lowercase snake-case words (fields, prefixes) and      *)
(* PascalCase words (variants); digits and acronyms are out of scope.        *)
(***************************************************************************)
EXTENDS Naturals, Sequences, FiniteSets, TLC, Json

CONSTANTS MaxDepth,     \* containers on a path of family "struct" (1 = root only); the enum families have depth 2 and 3
          Families,     \* subset of {"struct", "enumroot", "enumnested"}: bounds the enumeration only
          ChildRAs,     \* rename_all / prefix kinds of the struct below an entry enum (bound only)
          ChildPKs,
          NestRootPKs,  \* prefix kinds of the struct root into which an entry enum is flattened (bound only)
          DeepRAs,      \* rename_all / prefix kinds of the containers at level 3 of family "struct" (bound only;
          DeepPKs       \* the quick tier enumerates a seeded subset of the deepest level)

VARIABLES steps, sty, pre, cur, var, phase, depth, fam, out
vars == <<steps, sty, pre, cur, var, phase, depth, fam, out>>

-----------------------------------------------------------------------------
(* words *)
RAs == {"none", "pascal", "snake", "kebab"}      \* rename_all absent | "PascalCase" | "snake_case" | "kebab-case"
PKs == {"none", "infl", "exact"}                 \* no prefix | prefix = ".." | exact_prefix = ".."
FKs == PKs                                       \* the same three at flatten level
TKs == {"none", "name", "exact"}                 \* no tag | tag(name = "..") | tag(name_exact = "..")
RaIdx == [none |-> 0, pascal |-> 1, snake |-> 2, kebab |-> 3]
PkIdx == [none |-> 0, infl |-> 1, exact |-> 2]
Idx(ra, pk) == 3 * RaIdx[ra] + PkIdx[pk] + 1     \* 1..12, identifies a container variant

Animals == <<"ant", "bee", "cat", "dog", "eel", "fox", "gnu", "hen", "ibis", "jay", "kiwi", "lynx">>
FkWord == [none |-> "non", infl |-> "inf", exact |-> "exa"]

Cap == ( "foo" :> "Foo" @@ "bar" :> "Bar" @@ "size" :> "Size" @@ "of" :> "Of" @@ "opt" :> "Opt" @@ "val" :> "Val"
      @@ "wrap" :> "Wrap" @@ "str" :> "Str" @@ "enum" :> "Enum" @@ "grp" :> "Grp" @@ "key" :> "Key"
      @@ "op" :> "Op" @@ "tag" :> "Tag" @@ "pre" :> "Pre" @@ "fix" :> "Fix" @@ "via" :> "Via"
      @@ "ant" :> "Ant" @@ "bee" :> "Bee" @@ "cat" :> "Cat" @@ "dog" :> "Dog" @@ "eel" :> "Eel" @@ "fox" :> "Fox"
      @@ "gnu" :> "Gnu" @@ "hen" :> "Hen" @@ "ibis" :> "Ibis" @@ "jay" :> "Jay" @@ "kiwi" :> "Kiwi" @@ "lynx" :> "Lynx"
      @@ "non" :> "Non" @@ "inf" :> "Inf" @@ "exa" :> "Exa"
      @@ "this" :> "This" @@ "is" :> "Is" @@ "a" :> "A" @@ "rather" :> "Rather" @@ "long" :> "Long"
      @@ "prefix" :> "Prefix" @@ "segment" :> "Segment" @@ "that" :> "That" @@ "alone" :> "Alone"
      @@ "takes" :> "Takes" @@ "most" :> "Most" @@ "the" :> "The" @@ "one" :> "One" @@ "hundred" :> "Hundred"
      @@ "bytes" :> "Bytes" @@ "read" :> "Read" @@ "data" :> "Data" @@ "write" :> "Write" @@ "unit" :> "Unit"
      @@ "var" :> "Var" @@ "tup" :> "Tup" @@ "nam" :> "Nam" @@ "nsg" :> "Nsg" @@ "esg" :> "Esg" )

LongTail == <<"this", "is", "a", "rather", "long", "prefix", "segment", "that", "alone", "takes", "most", "of",
              "the", "one", "hundred", "bytes">>

RECURSIVE JoinFrom(_, _, _)
JoinFrom(ps, sep, i) == IF i > Len(ps) THEN "" ELSE sep \o ps[i] \o JoinFrom(ps, sep, i + 1)
Join(ps, sep) == IF ps = <<>> THEN "" ELSE ps[1] \o JoinFrom(ps, sep, 2)
RECURSIVE PascalFrom(_, _)
PascalFrom(ps, i) == IF i > Len(ps) THEN "" ELSE Cap[ps[i]] \o PascalFrom(ps, i + 1)
Pascal(ps) == PascalFrom(ps, 1)
RECURSIVE ConcatFrom(_, _)
ConcatFrom(ss, i) == IF i > Len(ss) THEN "" ELSE ss[i].text \o ConcatFrom(ss, i + 1)
Concat(ss) == ConcatFrom(ss, 1)

\* a snake-case Rust identifier (field name, inflectable tag name) in a style
Ident(s, ps) == CASE s = "preserve" -> Join(ps, "_")
                  [] s = "pascal"   -> Pascal(ps)
                  [] s = "snake"    -> Join(ps, "_")
                  [] s = "kebab"    -> Join(ps, "-")
\* a PascalCase Rust identifier (enum variant) in a style
VariantText(s, ps) == CASE s = "preserve" -> Pascal(ps)
                        [] s = "pascal"   -> Pascal(ps)
                        [] s = "snake"    -> Join(ps, "_")
                        [] s = "kebab"    -> Join(ps, "-")

\* an inflectable prefix as written in the attribute: words, delimiter, trailing delimiter?
Written(p) == Join(p.parts, p.sep) \o (IF p.trail THEN p.sep ELSE "")
\* ... on a flatten field: "Prefix will get inflected to the right case style" (NameStyle::apply_prefix:
\* snake_case and kebab-case always end in their delimiter, PascalCase has none, no style = as written)
FlattenPrefixText(s, p) == CASE s = "preserve" -> Written(p)
                             [] s = "pascal"   -> Pascal(p.parts)
                             [] s = "snake"    -> Join(p.parts, "_") \o "_"
                             [] s = "kebab"    -> Join(p.parts, "-") \o "-"
\* ... on a container: prefix and field name are inflected together ("rename_all applies to combined
\* prefix+name"); the prefix must end in a delimiter (the macro rejects it otherwise)
ContainerPrefixed(s, p, base) == CASE s = "preserve" -> Written(p) \o Join(base, "_")
                                   [] s = "pascal"   -> Pascal(p.parts \o base)
                                   [] s = "snake"    -> Join(p.parts \o base, "_")
                                   [] s = "kebab"    -> Join(p.parts \o base, "-")

\* the prefix words used by the generated programs (every flatten field of one struct needs its own
\* word: the macro emits one const item per prefix, named after it, into one block)
\* pi, ci: parent / child container variant; ti: tag variant of a child entry enum (0 = none / struct child), which
\* adds a word so that sibling enums that differ only in their tag get different prefixes
TagIdx(tk, tsg) == CASE tk = "none" -> 0 [] tk = "name" -> (IF tsg THEN 2 ELSE 1) [] tk = "exact" -> (IF tsg THEN 4 ELSE 3)
TagWords == <<"nam", "nsg", "exa", "esg">>
FlattenInfl(pi, ci, ti) ==
    LET w == <<"via", Animals[ci]>> \o (IF ti = 0 THEN <<>> ELSE <<TagWords[ti]>>)
        sh == (pi + ci) % 4
    IN CASE sh = 0 -> [parts |-> w, sep |-> "_", trail |-> TRUE]        \* via_cat_
         [] sh = 1 -> [parts |-> w, sep |-> "_", trail |-> FALSE]       \* via_cat
         [] sh = 2 -> [parts |-> w, sep |-> "-", trail |-> TRUE]        \* via-cat-
         [] sh = 3 -> [parts |-> w \o LongTail, sep |-> "_", trail |-> TRUE]   \* 92/93 bytes (+4 with a tag word)
\* one exact prefix in three is long (90+ characters): with a short item name behind it the full name lies on either
\* side of the macro's 100-byte const-string limit, and the generator spells half of the exact prefixes with
\* non-ASCII characters (tools/gen_naming.py: widen), so that "length" in characters and in bytes differ there
FlattenExact(pi, ci, ti) ==
    LET long == (pi + ci) % 3 = 0 IN
    IF (pi + ci) % 2 = 0 THEN "Ex" \o Cap[Animals[ci]] \o (IF ti = 0 THEN "" ELSE Cap[TagWords[ti]])
                                   \o (IF long THEN "_" \o Join(LongTail, "_") ELSE "") \o ":"
                         ELSE "ex_" \o Animals[ci] \o "_" \o (IF ti = 0 THEN "" ELSE TagWords[ti] \o "_")
                                    \o (IF long THEN Join(LongTail, "_") \o "_" ELSE "")
ContainerInfl(ra) == IF ra \in {"none", "kebab"} THEN [parts |-> <<"pre", "fix">>, sep |-> "_", trail |-> TRUE]
                                                ELSE [parts |-> <<"pre", "fix">>, sep |-> "-", trail |-> TRUE]
ContainerExact(ra) == IF ra \in {"none", "snake"} THEN "Cx:" ELSE "cx_p_"
\* whether the flatten field is declared as Option<Child> (deterministic, so that the type forest stays small)
OptEdge(pi, ci) == (pi + 2 * ci) % 5 = 0
\* the value(string) enum used by the `str_enum` field of a container: its own rename_all
SEnumStyle(idx) == <<"preserve", "pascal", "snake", "kebab">>[(idx % 4) + 1]

-----------------------------------------------------------------------------
(* the documented naming function *)
Own(ra, inherited) == IF ra = "none" THEN inherited ELSE ra

\* name of an item declared in container c (style in force s) from identifier words `base`
FieldName(c, s, base) ==
    CASE c.pk = "none"  -> Ident(s, base)
      [] c.pk = "infl"  -> ContainerPrefixed(s, ContainerInfl(c.ra), base)
      [] c.pk = "exact" -> ContainerExact(c.ra) \o Ident(s, base)

\* leaf kinds: plain u64 | name = ".." | unit = Byte | ignore | Option<u64> None / Some | #[metrics(value)] struct
\* with unit = Count | sample_group value(string) enum holding its plain (A) / renamed (B) variant | sample_group
\* &str | sample_group + name = ".." on a #[metrics(value, sample_group)] struct
\* (the macro fails to compile an entry-enum struct variant with an `ignore` field, so "ignore" is bound to the
\* code only in structs)
LeafKinds == {"plain", "named", "unit", "ignore", "optnone", "optsome", "valstruct", "senumA", "senumB", "sgroup", "sgnamed"}
LeafBase == [plain |-> <<"foo", "bar">>, unit |-> <<"size", "of">>, optnone |-> <<"opt", "val">>,
             optsome |-> <<"opt", "val">>, valstruct |-> <<"val", "wrap">>, senumA |-> <<"str", "enum">>,
             senumB |-> <<"str", "enum">>, sgroup |-> <<"grp", "key">>,
             named |-> <<>>, sgnamed |-> <<>>, ignore |-> <<>>]
Override == [named |-> "Name_Over", sgnamed |-> "Grp_Named"]
TagInflWords == <<"op", "tag">>           \* tag(name = "op_tag")
TagExactName == "Op_Tag"                  \* tag(name_exact = "Op_Tag")
SEnumVariantWords == <<"read", "data">>   \* value(string) enum: variant ReadData ...
SEnumOverride == "Named_Var"              \* ... and #[metrics(name = "Named_Var")] WriteData

NoOut == [present |-> FALSE, name |-> "", kind |-> "", unit |-> "", val |-> "", sg |-> <<>>, len |-> 0]
Item(n, k, u, v, sgp) == [present |-> TRUE, name |-> n, kind |-> k, unit |-> u, val |-> v,
                          sg |-> IF sgp THEN <<[k |-> n, v |-> v]>> ELSE <<>>, len |-> Len(n)]

LeafOut(lk, c, s, p) ==
    LET flat == Concat(p)
        nm == IF lk \in DOMAIN Override THEN flat \o Override[lk]            \* `name`: flatten prefixes only
              ELSE flat \o FieldName(c, s, LeafBase[lk])
    IN CASE lk \in {"ignore", "optnone"} -> NoOut
         [] lk \in {"plain", "named", "optsome"} -> Item(nm, "metric", "None", "num", FALSE)
         [] lk = "unit"      -> Item(nm, "metric", "Bytes", "num", FALSE)
         [] lk = "valstruct" -> Item(nm, "metric", "Count", "num", FALSE)
         [] lk = "senumA"    -> Item(nm, "string", "", "=" \o VariantText(SEnumStyle(c.idx), SEnumVariantWords), TRUE)
         [] lk = "senumB"    -> Item(nm, "string", "", "=" \o SEnumOverride, TRUE)
         [] lk \in {"sgroup", "sgnamed"} -> Item(nm, "string", "", "str", TRUE)

\* variants of an entry enum
NoV == [vk |-> "na", named |-> FALSE, fk |-> "na", cra |-> "na", cpk |-> "na"]
VariantWords(v) == CASE v.vk = "struct" -> <<"read", "data">>
                     [] v.vk = "unit"   -> IF v.named THEN <<"write", "data">> ELSE <<"unit", "var">>
                     [] v.vk = "tuple"  -> <<"tup", FkWord[v.fk], Animals[Idx(v.cra, v.cpk)]>>
VariantOverride(v) == "Named_" \o Pascal(VariantWords(v))
TupleNamed(fk, ci) == (ci + PkIdx[fk]) % 3 = 0

\* tag item (attribute table of #[metrics]): `name_exact` is "exact, not affected by prefix or rename_all", so it is
\* copied behind the flatten prefixes like a `name` override; `name` is "inflectable, respects prefix and
\* rename_all", i.e. it is named like a field of the container with that identifier.  The value is the variant
\* name in the enum's OWN rename_all ("respects rename_all and variant name, but not prefix"); an inherited style
\* does not reach it (inflect_no_prefix, tests/enum_attributes.rs).
TagOut(c, s, p, v) ==
    LET nm == Concat(p) \o (IF c.tk = "exact" THEN TagExactName ELSE FieldName(c, s, TagInflWords))
        val == IF v.named THEN VariantOverride(v) ELSE VariantText(Own(c.ra, "preserve"), VariantWords(v))
    IN Item(nm, "string", "", "=" \o val, c.tsg)

-----------------------------------------------------------------------------
NoC == [k |-> "na", ra |-> "none", pk |-> "none", tk |-> "none", tsg |-> FALSE, idx |-> 0]

Init == /\ steps = <<>> /\ sty = "preserve" /\ pre = <<>> /\ cur = NoC /\ var = NoV
        /\ phase = "root" /\ depth = 0 /\ fam \in Families /\ out = NoOut

\* which container kind the bounded families allow at a level ("s" struct, "e" entry enum)
KindAt(f, lvl) == CASE f = "struct"     -> "s"
                    [] f = "enumroot"   -> IF lvl = 1 THEN "e" ELSE "s"
                    [] f = "enumnested" -> IF lvl = 2 THEN "e" ELSE "s"
DepthOf(f) == CASE f = "struct" -> MaxDepth [] f = "enumroot" -> 2 [] f = "enumnested" -> 3
Restricted(f, lvl) == (f = "enumroot" /\ lvl = 2) \/ (f = "enumnested" /\ lvl = 3)

Enter(k, ra, pk, tk, tsg) ==
    /\ k = KindAt(fam, depth + 1)
    /\ depth + 1 <= DepthOf(fam)
    /\ (k = "s" => tk = "none")
    /\ (tk = "none" => ~tsg)
    /\ (Restricted(fam, depth + 1) => ra \in ChildRAs /\ pk \in ChildPKs)
    /\ (fam = "enumnested" /\ depth = 0 => pk \in NestRootPKs)
    /\ (fam = "struct" /\ depth >= 2 => ra \in DeepRAs /\ pk \in DeepPKs)
    /\ cur' = [k |-> k, ra |-> ra, pk |-> pk, tk |-> tk, tsg |-> tsg, idx |-> Idx(ra, pk)]
    /\ sty' = Own(ra, sty)            \* nearest explicit rename_all wins, for this container and below
    /\ var' = NoV
    /\ phase' = "in"
    /\ depth' = depth + 1

Root(k, ra, pk, tk, tsg) ==
    /\ phase = "root"
    /\ Enter(k, ra, pk, tk, tsg)
    /\ steps' = <<[t |-> "R", k |-> k, ra |-> ra, pk |-> pk, tk |-> tk, tsg |-> tsg]>>
    /\ UNCHANGED <<pre, fam, out>>

CanHoldFields == (cur.k = "s") \/ (cur.k = "e" /\ var.vk = "struct")
CanFlatten == CanHoldFields \/ (cur.k = "e" /\ var.vk = "tuple")

\* flatten edge (declared in `cur`, style in force `sty`) + the container it leads to
Descend(fk, opt, k, ra, pk, tk, tsg) ==
    /\ CanFlatten
    /\ ~(fam = "enumnested" /\ cur.k = "e" /\ var.vk = "struct")   \* bound only
    /\ (var.vk = "tuple" => fk = var.fk /\ ra = var.cra /\ pk = var.cpk)
    /\ opt \in (IF OptEdge(cur.idx, Idx(ra, pk)) THEN {"some", "none"} ELSE {"no"})
    /\ LET ci == Idx(ra, pk)
           ti == TagIdx(tk, tsg)
           seg == CASE fk = "none"  -> <<>>
                    [] fk = "infl"  -> <<[text |-> FlattenPrefixText(sty, FlattenInfl(cur.idx, ci, ti)),
                                          exact |-> FALSE, written |-> Written(FlattenInfl(cur.idx, ci, ti)), at |-> sty]>>
                    [] fk = "exact" -> <<[text |-> FlattenExact(cur.idx, ci, ti),
                                          exact |-> TRUE, written |-> FlattenExact(cur.idx, ci, ti), at |-> sty]>>
           st == [t |-> "D", fk |-> fk, opt |-> opt, k |-> k, ra |-> ra, pk |-> pk, tk |-> tk, tsg |-> tsg]
       IN IF opt = "none"
          THEN \* an absent Option<Child>: the whole subtree contributes nothing
               /\ k = KindAt(fam, depth + 1) /\ depth + 1 <= DepthOf(fam)
               /\ (k = "s" => tk = "none") /\ (tk = "none" => ~tsg)
               /\ (Restricted(fam, depth + 1) => ra \in ChildRAs /\ pk \in ChildPKs)
               /\ (fam = "struct" /\ depth >= 2 => ra \in DeepRAs /\ pk \in DeepPKs)
               /\ steps' = Append(steps, st) /\ out' = NoOut /\ phase' = "done"
               /\ UNCHANGED <<sty, pre, cur, var, depth, fam>>
          ELSE /\ Enter(k, ra, pk, tk, tsg)
               /\ pre' = pre \o seg
               /\ steps' = Append(steps, st)
               /\ UNCHANGED <<fam, out>>

Variant(v) ==
    /\ cur.k = "e" /\ var = NoV
    /\ \/ v.vk = "struct" /\ ~v.named /\ v.fk = "na" /\ v.cra = "na" /\ v.cpk = "na"
       \/ v.vk = "unit" /\ v.fk = "na" /\ v.cra = "na" /\ v.cpk = "na"
       \/ /\ v.vk = "tuple" /\ v.fk \in FKs /\ v.cra \in RAs /\ v.cpk \in PKs
          /\ depth + 1 <= DepthOf(fam)
          /\ (Restricted(fam, depth + 1) => v.cra \in ChildRAs /\ v.cpk \in ChildPKs)
          /\ v.named = TupleNamed(v.fk, Idx(v.cra, v.cpk))
    /\ var' = v
    /\ steps' = Append(steps, [t |-> "V", vk |-> v.vk, named |-> v.named, fk |-> v.fk, cra |-> v.cra, cpk |-> v.cpk])
    /\ UNCHANGED <<sty, pre, cur, phase, depth, fam, out>>

Leaf(lk) ==
    /\ CanHoldFields
    /\ ~(fam = "enumnested" /\ depth = 1)       \* the root struct's own leaves belong to family "struct"
    /\ out' = LeafOut(lk, cur, sty, pre)
    /\ steps' = Append(steps, [t |-> "L", lk |-> lk])
    /\ phase' = "done"
    /\ UNCHANGED <<sty, pre, cur, var, depth, fam>>

TagLeaf ==
    /\ cur.k = "e" /\ var # NoV /\ cur.tk # "none"
    /\ out' = TagOut(cur, sty, pre, var)
    /\ steps' = Append(steps, [t |-> "T"])
    /\ phase' = "done"
    /\ UNCHANGED <<sty, pre, cur, var, depth, fam>>

VariantRecs == [vk : {"struct", "unit", "tuple"}, named : BOOLEAN, fk : FKs \cup {"na"}, cra : RAs \cup {"na"}, cpk : PKs \cup {"na"}]

\* (the phase guard stands before the quantifiers so that TLC does not enumerate them in vain)
RootAny == phase = "root" /\ \E k \in {"s", "e"}, ra \in RAs, pk \in PKs, tk \in TKs, tsg \in BOOLEAN : Root(k, ra, pk, tk, tsg)
DescendAny == phase = "in" /\ \E fk \in FKs, opt \in {"no", "some", "none"}, k \in {"s", "e"}, ra \in RAs, pk \in PKs,
                                  tk \in TKs, tsg \in BOOLEAN : Descend(fk, opt, k, ra, pk, tk, tsg)
VariantAny == phase = "in" /\ \E v \in VariantRecs : Variant(v)
LeafAny == phase = "in" /\ \E lk \in LeafKinds : Leaf(lk)
TagLeafAny == phase = "in" /\ TagLeaf

Next == RootAny \/ DescendAny \/ VariantAny \/ LeafAny \/ TagLeafAny

Spec == Init /\ [][Next]_vars

-----------------------------------------------------------------------------
(* model-level sanity: the incremental state agrees with the rules read off the whole path *)
ContainerSteps == SelectSeq(steps, LAMBDA st : st.t \in {"R", "D"} /\ (st.t = "D" => st.opt # "none"))
RECURSIVE NearestFrom(_, _)
NearestFrom(cs, i) == IF i = 0 THEN "preserve" ELSE IF cs[i].ra # "none" THEN cs[i].ra ELSE NearestFrom(cs, i - 1)

\* the style in force is the nearest explicit rename_all on the path (self included)
StyleIsNearest == phase \in {"in", "done"} => sty = NearestFrom(ContainerSteps, Len(ContainerSteps))
\* one rendered segment per prefixed flatten edge, in path order
SegmentsMatchEdges == Len(pre) = Cardinality({i \in 1..Len(ContainerSteps) : ContainerSteps[i].t = "D" /\ ContainerSteps[i].fk # "none"})
\* an exact prefix is never re-inflected; an inflectable one in no style is left as written
ExactNeverInflected == \A i \in 1..Len(pre) : (pre[i].exact \/ pre[i].at = "preserve") => pre[i].text = pre[i].written
\* snake_case / kebab-case prefixes end in their delimiter, whatever was written
DelimiterClosed == \A i \in 1..Len(pre) : ~pre[i].exact =>
                      LET n == Len(pre[i].text) IN
                      /\ (pre[i].at = "snake" => SubSeq(pre[i].text, n, n) = "_")
                      /\ (pre[i].at = "kebab" => SubSeq(pre[i].text, n, n) = "-")
LastStep == steps[Len(steps)]
\* a `name` override (and name_exact) is prefixed by the flatten prefixes only - never by the container prefix,
\* never inflected
OverrideOnlyFlattenPrefixed ==
    (phase = "done" /\ LastStep.t = "L" /\ LastStep.lk \in DOMAIN Override) => out.name = Concat(pre) \o Override[LastStep.lk]
ExactTagOnlyFlattenPrefixed ==
    (phase = "done" /\ LastStep.t = "T" /\ cur.tk = "exact") => out.name = Concat(pre) \o TagExactName
\* absent / ignored fields contribute nothing, present ones have a non-empty name that starts with the flatten chain
AbsentEmitsNothing == (phase = "done" /\ ~out.present) => out.sg = <<>> /\ out.name = ""
PresentHasName == (phase = "done" /\ out.present) =>
                     /\ out.len > Len(Concat(pre))
                     /\ SubSeq(out.name, 1, Len(Concat(pre))) = Concat(pre)
\* sample-group pairs use the item's own name and value (known finding C07:sample-group-flatten-prefix: the code
\* drops the flatten prefixes from the pair's name)
SampleGroupSameName == (phase = "done" /\ out.sg # <<>>) => out.sg[1].k = out.name /\ out.sg[1].v = out.val
DepthBound == depth <= DepthOf(fam) /\ Len(pre) < depth + 1

Sanity == /\ StyleIsNearest /\ SegmentsMatchEdges /\ ExactNeverInflected /\ DelimiterClosed
          /\ OverrideOnlyFlattenPrefixed /\ ExactTagOnlyFlattenPrefixed /\ AbsentEmitsNothing /\ PresentHasName
          /\ SampleGroupSameName /\ DepthBound

=============================================================================
