SPECIFICATION TSpec
CONSTRAINT Track
INVARIANT WAbsInv
POSTCONDITION Accepted
CHECK_DEADLOCK FALSE
