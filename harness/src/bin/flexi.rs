//! Driver for X03 (b) `Flex` dynamic fields and (c) `Instrumented` (spec/flex/Flex.tla,
//! spec/instrument/Instrument.tla, checks/chk_x_entryderive.py).
//!
//! `flexi instr <behaviours.ndjson>` / `flexi flex <behaviours.ndjson>`: every input line is one
//! TLC behaviour (a JSON array of steps `{a, args, obs}`); the steps are executed on the real
//! objects and one line `{"id":n,"obs":[..one observation per step..]}` is printed.  The driver
//! only OBSERVES; the comparison with TLC's `obs` is made by the check.
#![allow(dead_code)]
use std::cell::RefCell;
use std::future::Future;
use std::pin::Pin;
use std::task::{Context, Poll, Waker};
use std::time::SystemTime;

use metrique::instrument::Instrumented;
use metrique::unit_of_work::metrics;
use metrique::writer::test_util::{Inspector, test_entry_sink};
use metrique::writer::{BoxEntrySink, Entry, EntryConfig, EntryWriter, Observation, Unit, ValidationError, Value, ValueWriter};
use metrique::{CloseValue, Flex, RootEntry};
use metrique_writer_core::value::MetricFlags;
use serde_json::{Value as J, json};
use vharness::util;

// ------------------------------------------------------------------------------------------
// (c) Instrumented
// ------------------------------------------------------------------------------------------
#[metrics]
#[derive(Default)]
struct IM {
    steps: usize,
    err: bool,
    succ: bool,
    fin: usize,
}

type R = Result<u32, u32>;
type Guard = metrique::AppendAndCloseOnDrop<IM, BoxEntrySink>;

trait MObj: Sized + 'static {
    fn im(&mut self) -> &mut IM;
    /// `Instrumented::emit` exists for the guard only
    fn emit(i: Instrumented<R, Self>) -> Option<R>;
    fn make(sink: &BoxEntrySink, steps: usize) -> Self;
}

impl MObj for IM {
    fn im(&mut self) -> &mut IM {
        self
    }
    fn emit(_i: Instrumented<R, Self>) -> Option<R> {
        None
    }
    fn make(_sink: &BoxEntrySink, steps: usize) -> Self {
        IM { steps, ..Default::default() }
    }
}

impl MObj for Guard {
    fn im(&mut self) -> &mut IM {
        &mut *self
    }
    fn emit(i: Instrumented<R, Self>) -> Option<R> {
        Some(i.emit())
    }
    fn make(sink: &BoxEntrySink, steps: usize) -> Self {
        IM { steps, ..Default::default() }.append_on_drop(sink.clone())
    }
}

/// Pending once, then ready (the driver polls by hand; no waker is needed)
struct YieldOnce(bool);
impl Future for YieldOnce {
    type Output = ();
    fn poll(mut self: Pin<&mut Self>, _cx: &mut Context<'_>) -> Poll<()> {
        if self.0 {
            Poll::Ready(())
        } else {
            self.0 = true;
            Poll::Pending
        }
    }
}

enum Loc<U: MObj> {
    None,
    Future(Pin<Box<dyn Future<Output = Instrumented<R, U>>>>),
    Inst(Instrumented<R, U>),
    Parts(U),
    Target(Option<U>),
    Gone,
}

fn result(out: &str) -> R {
    if out == "ok" { Ok(7) } else { Err(9) }
}

fn im_json(m: &IM) -> J {
    json!({"steps": m.steps, "err": m.err, "succ": m.succ, "fin": m.fin})
}

fn instr_obs<U: MObj>(loc: &mut Loc<U>, val: &Option<R>, insp: &Inspector) -> J {
    let emitted: Vec<J> = insp
        .entries()
        .iter()
        .map(|e| {
            json!({"steps": e.metrics["steps"].as_u64(), "err": e.metrics["err"].as_bool(),
                   "succ": e.metrics["succ"].as_bool(), "fin": e.metrics["fin"].as_u64()})
        })
        .collect();
    let readable: Vec<J> = match loc {
        Loc::Parts(u) => vec![im_json(u.im())],
        Loc::Target(Some(u)) => vec![im_json(u.im())],
        _ => vec![],
    };
    let name = match loc {
        Loc::None => "none",
        Loc::Future(_) => "future",
        Loc::Inst(_) => "inst",
        Loc::Parts(_) => "parts",
        Loc::Target(_) => "target",
        Loc::Gone => "gone",
    };
    json!({"emitted": emitted,
           "val": match val { None => "none", Some(Ok(_)) => "ok", Some(Err(_)) => "err" },
           "pending": matches!(loc, Loc::Future(_)), "readable": readable, "loc": name})
}

fn run_instr<U: MObj>(steps: &[J]) -> Vec<J> {
    let ts = test_entry_sink();
    let sink = ts.sink.clone();
    let insp = ts.inspector.clone();
    let mut loc: Loc<U> = Loc::None;
    let mut val: Option<R> = None;
    let mut pre = false;
    let mut obs = Vec::new();
    let waker = Waker::noop();
    for st in steps {
        let a = st["a"].as_str().unwrap();
        let args = &st["args"];
        let cur = std::mem::replace(&mut loc, Loc::Gone);
        loc = match (a, cur) {
            ("Start", Loc::None) => {
                let out = args["out"].as_str().unwrap().to_string();
                let y = args["y"].as_u64().unwrap();
                pre = args["pre"].as_bool().unwrap();
                let metrics = U::make(&sink, 0);
                if args["mode"] == "sync" {
                    Loc::Inst(Instrumented::instrument(metrics, |m: &mut U| {
                        m.im().steps += 1;
                        result(&out)
                    }))
                } else {
                    Loc::Future(Box::pin(Instrumented::instrument_async(metrics, async move |m: &mut U| {
                        for _ in 0..y {
                            m.im().steps += 1;
                            YieldOnce(false).await;
                        }
                        m.im().steps += 1;
                        result(&out)
                    })))
                }
            }
            ("Poll", Loc::Future(mut f)) => {
                let mut cx = Context::from_waker(waker);
                match f.as_mut().poll(&mut cx) {
                    Poll::Ready(i) => Loc::Inst(i),
                    Poll::Pending => Loc::Future(f),
                }
            }
            ("DropFuture", Loc::Future(f)) => {
                drop(f);
                Loc::Gone
            }
            ("Callback", Loc::Inst(i)) => Loc::Inst(match args["which"].as_str().unwrap() {
                "on_error" => i.on_error(|_e, m: &mut U| m.im().err = true),
                "on_success" => i.on_success(|_v, m: &mut U| m.im().succ = true),
                _ => i.finalize_metrics(|_r, m: &mut U| m.im().fin += 1),
            }),
            ("Emit", Loc::Inst(i)) => {
                val = U::emit(i);
                Loc::Gone
            }
            ("IntoParts", Loc::Inst(i)) => {
                let (v, m) = i.into_parts();
                val = Some(v);
                Loc::Parts(m)
            }
            ("Touch", Loc::Parts(mut m)) => {
                m.im().fin += 1;
                Loc::Parts(m)
            }
            ("DropParts", Loc::Parts(m)) => {
                drop(m);
                Loc::Gone
            }
            ("SplitTo", Loc::Inst(i)) => {
                let mut target: Option<U> = if pre { Some(U::make(&sink, 100)) } else { None };
                val = Some(i.split_metrics_to(&mut target));
                Loc::Target(target)
            }
            ("DropTarget", Loc::Target(t)) => {
                drop(t);
                Loc::Gone
            }
            ("Discard", Loc::Inst(i)) => {
                val = Some(i.discard_metrics());
                Loc::Gone
            }
            ("DropInst", Loc::Inst(i)) => {
                drop(i);
                Loc::Gone
            }
            (a, _) => panic!("driver: step {a} does not apply (behaviour of another specification?)"),
        };
        obs.push(instr_obs(&mut loc, &val, &insp));
    }
    obs
}

// ------------------------------------------------------------------------------------------
// (b) Flex
// ------------------------------------------------------------------------------------------
thread_local! {
    static CLOSES: RefCell<Vec<u64>> = const { RefCell::new(Vec::new()) };
}

/// A value whose `CloseValue::close` calls are counted
struct Probe {
    id: u64,
}
impl Default for Probe {
    fn default() -> Self {
        Probe { id: 100 }
    }
}
impl CloseValue for Probe {
    type Closed = u64;
    fn close(self) -> u64 {
        CLOSES.with(|c| c.borrow_mut().push(self.id));
        self.id
    }
}

trait FlexVal: Sized + 'static {
    fn of(id: u64) -> Self;
}
impl FlexVal for u64 {
    fn of(id: u64) -> Self {
        id
    }
}
impl FlexVal for Probe {
    fn of(id: u64) -> Self {
        Probe { id }
    }
}

/// Recording writer: (name, value) per item in call order
#[derive(Default)]
struct Rec {
    items: Vec<(String, String)>,
}
struct RecV<'b> {
    name: String,
    out: &'b mut Vec<(String, String)>,
}
impl ValueWriter for RecV<'_> {
    fn string(self, value: &str) {
        self.out.push((self.name, format!("s:{value}")));
    }
    fn metric<'a>(
        self,
        distribution: impl IntoIterator<Item = Observation>,
        _unit: Unit,
        _dimensions: impl IntoIterator<Item = (&'a str, &'a str)>,
        _flags: MetricFlags<'_>,
    ) {
        let v: Vec<String> = distribution
            .into_iter()
            .map(|o| match o {
                Observation::Unsigned(u) => u.to_string(),
                Observation::Floating(f) => format!("{f:?}"),
                _ => "other".into(),
            })
            .collect();
        self.out.push((self.name, v.join(",")));
    }
    fn error(self, error: ValidationError) {
        self.out.push((self.name, format!("error:{error}")));
    }
}
impl<'a> EntryWriter<'a> for Rec {
    fn timestamp(&mut self, _t: SystemTime) {
        self.items.push(("".into(), "timestamp".into()));
    }
    fn value(&mut self, name: impl Into<std::borrow::Cow<'a, str>>, value: &(impl Value + ?Sized)) {
        let name = name.into().to_string();
        value.write(RecV { name, out: &mut self.items });
    }
    fn config(&mut self, _c: &'a dyn EntryConfig) {}
}

fn written(e: &impl Entry) -> Vec<(String, String)> {
    let mut r = Rec::default();
    e.write(&mut r);
    r.items
}

/// The surrounding definitions of spec/flex/Flex.tla (`Wraps`), for one value type
macro_rules! wraps {
    ($m:ident, $t:ty) => {
        mod $m {
            use super::*;
            #[metrics]
            pub struct Plain {
                pub before_it: u64,
                #[metrics(flatten)]
                pub dynamic: Flex<$t>,
                pub after_it: u64,
            }
            #[metrics(rename_all = "PascalCase")]
            pub struct Pascal {
                pub before_it: u64,
                #[metrics(flatten)]
                pub dynamic: Flex<$t>,
                pub after_it: u64,
            }
            #[metrics(rename_all = "kebab-case")]
            pub struct Kebab {
                pub before_it: u64,
                #[metrics(flatten)]
                pub dynamic: Flex<$t>,
                pub after_it: u64,
            }
            #[metrics(prefix = "pre_")]
            pub struct Prefix {
                pub before_it: u64,
                #[metrics(flatten)]
                pub dynamic: Flex<$t>,
                pub after_it: u64,
            }
            #[metrics(rename_all = "PascalCase", prefix = "pre_")]
            pub struct PascalPrefix {
                pub before_it: u64,
                #[metrics(flatten)]
                pub dynamic: Flex<$t>,
                pub after_it: u64,
            }
            #[metrics]
            pub struct FPrefix {
                pub before_it: u64,
                #[metrics(flatten, prefix = "fp_")]
                pub dynamic: Flex<$t>,
                pub after_it: u64,
            }
            #[metrics(subfield_owned)]
            pub struct Child {
                #[metrics(flatten)]
                pub dynamic: Flex<$t>,
                pub inner_it: u64,
            }
            #[metrics(rename_all = "PascalCase")]
            pub struct Nested {
                pub before_it: u64,
                #[metrics(flatten, prefix = "sub_")]
                pub child: Child,
                pub after_it: u64,
            }

            pub enum W {
                Bare(Flex<$t>),
                Plain(Plain),
                Pascal(Pascal),
                Kebab(Kebab),
                Prefix(Prefix),
                PascalPrefix(PascalPrefix),
                FPrefix(FPrefix),
                Nested(Nested),
            }
            impl W {
                pub fn new(wrap: &str, f: Flex<$t>) -> W {
                    match wrap {
                        "bare" => W::Bare(f),
                        "plain" => W::Plain(Plain { before_it: 1, dynamic: f, after_it: 2 }),
                        "pascal" => W::Pascal(Pascal { before_it: 1, dynamic: f, after_it: 2 }),
                        "kebab" => W::Kebab(Kebab { before_it: 1, dynamic: f, after_it: 2 }),
                        "prefix" => W::Prefix(Prefix { before_it: 1, dynamic: f, after_it: 2 }),
                        "pascalprefix" => W::PascalPrefix(PascalPrefix { before_it: 1, dynamic: f, after_it: 2 }),
                        "fprefix" => W::FPrefix(FPrefix { before_it: 1, dynamic: f, after_it: 2 }),
                        "nested" => W::Nested(Nested { before_it: 1, child: Child { dynamic: f, inner_it: 3 }, after_it: 2 }),
                        w => panic!("driver: unknown wrap {w}"),
                    }
                }
                pub fn flex(&mut self) -> &mut Flex<$t> {
                    match self {
                        W::Bare(f) => f,
                        W::Plain(s) => &mut s.dynamic,
                        W::Pascal(s) => &mut s.dynamic,
                        W::Kebab(s) => &mut s.dynamic,
                        W::Prefix(s) => &mut s.dynamic,
                        W::PascalPrefix(s) => &mut s.dynamic,
                        W::FPrefix(s) => &mut s.dynamic,
                        W::Nested(s) => &mut s.child.dynamic,
                    }
                }
                pub fn close_and_write(self) -> Vec<(String, String)> {
                    match self {
                        W::Bare(f) => written(&f.close()),
                        W::Plain(s) => written(&RootEntry::new(s.close())),
                        W::Pascal(s) => written(&RootEntry::new(s.close())),
                        W::Kebab(s) => written(&RootEntry::new(s.close())),
                        W::Prefix(s) => written(&RootEntry::new(s.close())),
                        W::PascalPrefix(s) => written(&RootEntry::new(s.close())),
                        W::FPrefix(s) => written(&RootEntry::new(s.close())),
                        W::Nested(s) => written(&RootEntry::new(s.close())),
                    }
                }
            }
        }
    };
}
wraps!(w_u64, u64);
wraps!(w_probe, Probe);

macro_rules! run_flex_for {
    ($fname:ident, $m:ident, $t:ty) => {
        fn $fname(steps: &[J], salt: u64) -> Vec<J> {
            CLOSES.with(|c| c.borrow_mut().clear());
            let nops = steps.iter().filter(|s| s["a"] != "New" && s["a"] != "Close").count() as u64;
            // the first `split` calls use the builder API on the bare Flex, the rest the &mut API inside the struct
            let split = salt % (nops + 1);
            let mut bare: Option<Flex<$t>> = None;
            let mut placed: Option<$m::W> = None;
            let mut wrap = String::new();
            let mut done = 0u64;
            let mut items: Vec<(String, String)> = vec![];
            let mut phase = "none";
            let mut obs = Vec::new();
            for st in steps {
                let a = st["a"].as_str().unwrap();
                let args = &st["args"];
                if a == "New" {
                    wrap = args["wrap"].as_str().unwrap().to_string();
                    bare = Some(Flex::new(args["key"].as_str().unwrap().to_string()));
                    phase = "open";
                } else if a == "Close" {
                    let w = match placed.take() {
                        Some(w) => w,
                        None => $m::W::new(&wrap, bare.take().unwrap()),
                    };
                    items = w.close_and_write();
                    phase = "closed";
                } else {
                    if done >= split && placed.is_none() {
                        placed = Some($m::W::new(&wrap, bare.take().unwrap()));
                    }
                    let variant = (salt + done) % 2;
                    if let Some(w) = placed.as_mut() {
                        let f = w.flex();
                        match a {
                            "With" => f.set_value(<$t as FlexVal>::of(args["id"].as_u64().unwrap())),
                            "WithNone" => f.clear_value(),
                            // there is no &mut default setter: T::default() by hand
                            "WithDefault" => f.set_value(<$t>::default()),
                            a => panic!("driver: unknown step {a}"),
                        }
                    } else {
                        let f = bare.take().unwrap();
                        bare = Some(match a {
                            "With" if variant == 0 => f.with_value(<$t as FlexVal>::of(args["id"].as_u64().unwrap())),
                            "With" => f.with_optional_value(Some(<$t as FlexVal>::of(args["id"].as_u64().unwrap()))),
                            "WithNone" => f.with_optional_value(None),
                            "WithDefault" => f.with_default_value(),
                            a => panic!("driver: unknown step {a}"),
                        });
                    }
                    done += 1;
                }
                let (key, has) = match (placed.as_mut(), bare.as_ref()) {
                    (Some(w), _) => {
                        let f = w.flex();
                        (f.key().to_string(), f.value().is_some())
                    }
                    (None, Some(f)) => (f.key().to_string(), f.value().is_some()),
                    _ => (String::new(), false),
                };
                let closed: Vec<u64> = CLOSES.with(|c| c.borrow().clone());
                obs.push(json!({"key": key, "has": has, "items": items, "closed": closed, "phase": phase}));
            }
            obs
        }
    };
}
run_flex_for!(run_flex_u64, w_u64, u64);
run_flex_for!(run_flex_probe, w_probe, Probe);

// ------------------------------------------------------------------------------------------
fn main() {
    let args: Vec<String> = std::env::args().collect();
    let cmd = args.get(1).map(|s| s.as_str()).unwrap_or("");
    let path = args.get(2).expect("usage: flexi instr|flex <behaviours.ndjson>");
    let mut out = String::new();
    for (n, b) in util::read_ndjson(path).iter().enumerate() {
        let steps = b.as_array().expect("a behaviour is an array of steps").clone();
        let first = &steps[0]["args"];
        let res = util::catch(|| match cmd {
            "instr" => {
                if first["u"] == "guard" {
                    run_instr::<Guard>(&steps)
                } else {
                    run_instr::<IM>(&steps)
                }
            }
            "flex" => {
                if first["t"] == "probe" {
                    run_flex_probe(&steps, n as u64)
                } else {
                    run_flex_u64(&steps, n as u64)
                }
            }
            c => panic!("unknown command {c}"),
        });
        let line = match res {
            Ok(obs) => json!({"id": n, "obs": obs}),
            Err(p) => json!({"id": n, "panic": p}),
        };
        out.push_str(&line.to_string());
        out.push('\n');
    }
    print!("{out}");
}
