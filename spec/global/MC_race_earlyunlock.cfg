\* self-test: write lock released before the detached pair is dropped (seeded mutant C17-m5): does NOT refine
\* lock-level race: 2 appenders x 1 try_append against 2 controllers (attach, drop handle)
CONSTANTS
  Appenders = {1, 2}
  NApp = 1
  Ctls = {1, 2}
  AppendUnderLock = TRUE
  DropUnderLock = FALSE
SPECIFICATION Spec
INVARIANTS AbsInv NeverPoisoned LockOK NoLatePush AtEnd
PROPERTY Refines
CHECK_DEADLOCK FALSE
