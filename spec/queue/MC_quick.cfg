\* quick: 1 producer x 2 entries, capacity 1
CONSTANTS
  Producers = {1}
  MaxApp = 2
  Cap = 1
  Flushers = {1}
  K = 1
  Results = {"ok", "val"}
  AllowForget = TRUE
  AllowTick = TRUE
SPECIFICATION Spec
INVARIANTS TypeOK AbsInv ProducerOrder OnlyAppended NoLossAtEnd BoundedBatch EbwExact NoParkWithWaiters JoinedMeansClosed
PROPERTY Refines
CHECK_DEADLOCK FALSE
