-------------------------- MODULE HistogramReplay --------------------------
(***************************************************************************)
(* Behaviour generator for Histogram: every sequential behaviour of length *)
(* Depth over Rec / Drain / Merge (BFS over the history variable) is        *)
(* printed as one JSON line; `hist beh` steps the real Histogram /           *)
(* SharedHistogram through it.  Observations are <<key, count>>: key is a   *)
(* bucket index (exponential strategies; the reported value is Mid(key) of  *)
(* the table) or the index of the recorded value (sort-and-merge).          *)
(***************************************************************************)
EXTENDS Histogram, Json

CONSTANTS Depth
VARIABLES hist, closed, has

rvars == <<vars, hist, closed, has>>
Idle == UNCHANGED <<pc, snap, dptr, before, dirty, out, emitted, drains, merged>>

RInit == Init /\ hist = <<>> /\ closed = <<>> /\ has = FALSE

RRec(i, n) == /\ store' = [store EXCEPT ![Key(i)] = @ + n]
              /\ recorded' = recorded + n
              /\ hist' = Append(hist, [op |-> "Rec", v |-> i, n |-> n])
              /\ UNCHANGED <<closed, has>> /\ Idle
\* close(): the histogram is drained and replaced by an empty one
RDrain == /\ closed' = Rle(store) /\ has' = TRUE
          /\ store' = Zero
          /\ hist' = Append(hist, [op |-> "Drain", obs |-> Rle(store)])
          /\ UNCHANGED recorded /\ Idle
\* the closed histogram is merged into the current one (consumed)
RMerge == /\ has
          /\ store' = Merge(store, closed)
          /\ closed' = <<>> /\ has' = FALSE
          /\ hist' = Append(hist, [op |-> "Merge"])
          /\ UNCHANGED recorded /\ Idle

RNext == \/ \E i \in ValIds, n \in Occs : RRec(i, n)
         \/ RDrain \/ RMerge
RSpec == RInit /\ [][RNext]_rvars

Bound == Len(hist) <= Depth
\* occurrences are neither lost nor invented by drain / merge
RConservation == Total(store) + (IF has THEN SumObs(closed, 1) ELSE 0) <= recorded
Emit == (Len(hist) = Depth) =>
          PrintT(<<"REPLAY", ToJson([strategy |-> Strategy, steps |-> hist, final |-> Rle(store),
                                     vals |-> [i \in ValIds |-> Vals[i]]])>>)
=============================================================================
