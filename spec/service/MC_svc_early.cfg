\* thorough: as quick A, but the stream may be closed at any moment (everything QueueAbs allows)
CONSTANTS
  Plan <- Plan11
  ModesOf <- Direct
  NFlush = 1
  EarlyClose = TRUE
SPECIFICATION Spec
INVARIANTS SvcInv AtEnd
PROPERTY SilentAfterDetach
CHECK_DEADLOCK FALSE
