//! prototype
use metrique::timers::{Timer, Timestamp};
use metrique::unit::Count;
use metrique::unit_of_work::metrics;
use metrique::writer::{AttachGlobalEntrySink, FormatExt, GlobalEntrySink};
use metrique::{CloseValue, Counter, OnParentDrop, RootEntry, ServiceMetrics, Slot};
use metrique_timesource::{TimeSource, fakes::ManuallyAdvancedTimeSource};
use metrique_writer::sink::BackgroundQueueBuilder;
use metrique_writer_format_emf::Emf;
use std::sync::{Arc, Mutex};
use std::time::{Duration, UNIX_EPOCH};

#[metrics(rename_all = "PascalCase")]
struct RequestMetrics {
    request_id: String,
    operation: &'static str,
    #[metrics(timestamp)]
    started: Timestamp,
    #[metrics(unit = Count)]
    items: usize,
    hits: Counter,
    latency: Timer,
    #[metrics(flatten)]
    sub: Slot<SubMetrics>,
}

#[metrics(subfield, rename_all = "PascalCase")]
#[derive(Default)]
struct SubMetrics {
    sub_items: usize,
}

struct W(Arc<Mutex<Vec<u8>>>);
impl std::io::Write for W {
    fn write(&mut self, b: &[u8]) -> std::io::Result<usize> {
        eprintln!("write {}", b.len());
        self.0.lock().unwrap().extend_from_slice(b);
        Ok(b.len())
    }
    fn flush(&mut self) -> std::io::Result<()> {
        eprintln!("flush");
        Ok(())
    }
}
impl Drop for W {
    fn drop(&mut self) {
        eprintln!("close");
    }
}

fn main() {
    let buf = Arc::new(Mutex::new(Vec::new()));
    let stream = Emf::all_validations("Svc".into(), vec![vec!["Operation".into()]]).output_to(W(buf.clone()));
    let (q, h) = BackgroundQueueBuilder::new().build_boxed(stream);
    let handle = ServiceMetrics::attach((q, h));
    let ts = ManuallyAdvancedTimeSource::at_time(UNIX_EPOCH + Duration::from_millis(1_700_000_000_123));
    let src = TimeSource::custom(ts.clone());
    {
        let mut m = RequestMetrics {
            request_id: "r1".into(),
            operation: "GetItem",
            started: Timestamp::new_from_time_source(src.clone()),
            items: 0,
            hits: Counter::default(),
            latency: Timer::start_now_with_timesource(src.clone()),
            sub: Default::default(),
        }
        .append_on_drop(ServiceMetrics::sink());
        m.items += 3;
        m.hits.increment();
        let fg = m.flush_guard();
        let mut sg = m.sub.open(OnParentDrop::Wait(fg)).unwrap();
        ts.update_time(UNIX_EPOCH + Duration::from_millis(1_700_000_000_123) + Duration::from_micros(1500));
        drop(m);
        sg.sub_items += 7;
        drop(sg);
    }
    {
        let m = RequestMetrics {
            request_id: "r2".into(),
            operation: "PutItem",
            started: Timestamp::new_from_time_source(src.clone()),
            items: 1,
            hits: Counter::default(),
            latency: Timer::start_now_with_timesource(src.clone()),
            sub: Default::default(),
        };
        let r = ServiceMetrics::try_append(RootEntry::new(m.close()));
        eprintln!("try ok={}", r.is_ok());
    }
    drop(handle);
    let m = RequestMetrics {
        request_id: "r3".into(),
        operation: "PutItem",
        started: Timestamp::new_from_time_source(src.clone()),
        items: 1,
        hits: Counter::default(),
        latency: Timer::start_now_with_timesource(src.clone()),
        sub: Default::default(),
    };
    let r = ServiceMetrics::try_append(RootEntry::new(m.close()));
    eprintln!("try ok={} sink={}", r.is_ok(), ServiceMetrics::try_sink().is_some());
    print!("{}", String::from_utf8_lossy(&buf.lock().unwrap()));
}
