CONSTANTS
  Updaters = {1, 2}
  NOps = 1
  NReadouts = 1
  CKeys = {"c1"}
  GKeys = {"g1"}
  HKeys = {"h1"}
  Buckets = {1}
  IncVals = {1}
  RecCounts = {1}
  ReaderMode = "snapshot_clear"
SPECIFICATION Spec
INVARIANT IntervalOK
INVARIANT FinalOK
CHECK_DEADLOCK FALSE
