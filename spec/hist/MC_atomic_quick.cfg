CONSTANTS
  Strategy = "atomic"
  Procs = {1, 2, 3}
  MaxOps = 1
  Occs = {1, 3}
  MaxDrains = 2
SPECIFICATION Spec
INVARIANT HInv
CHECK_DEADLOCK FALSE
