---------------------------- MODULE WorkerAbs ----------------------------
(***************************************************************************)
(* C10, worker part - property layer for a keyed aggregator behind a       *)
(* worker-thread sink (WorkerSink<T, KeyedAggregator>), in terms of what   *)
(* can be observed from outside:                                           *)
(*   SendStart/SendEnd   a producer handle's send(entry) call              *)
(*   Merged              the aggregator merges an input (observed by a     *)
(*                       wrapper around the inner aggregator)              *)
(*   FlushBegin/Emit/FlushEnd   one flush of the aggregator and the        *)
(*                       aggregates it appends downstream                  *)
(*   FlushReq/FlushDone  a handle's flush().await                          *)
(*   HandleDrop, Exited  handles dropped; the worker thread has dropped    *)
(*                       the inner aggregator (it terminated)              *)
(*                                                                         *)
(* What the property demands:                                              *)
(*   - every input is merged at most once and only after it was sent;      *)
(*   - a flush emits exactly one aggregate per distinct key merged since   *)
(*     the previous flush, containing exactly those inputs (sum and        *)
(*     distribution are decoded into sets of input ids by the harness:     *)
(*     every input has a distinct power of two as its summed value and its *)
(*     id as its observation), keep-last = the last of them merged;        *)
(*   - flush().await completes only after everything whose send returned   *)
(*     before the flush call has been emitted;                             *)
(*   - after the last handle is dropped the worker emits what it holds and *)
(*     terminates, everything sent having been emitted exactly once.       *)
(* Inputs are positive integers; info[i] = [key, p].                       *)
(***************************************************************************)
EXTENDS Naturals, Sequences, FiniteSets, TLC

VARIABLES
    info,     \* input -> [key |-> k, p |-> producer]
    started,  \* inputs whose send has been called
    ended,    \* inputs whose send has returned
    mseq,     \* inputs in the order the aggregator merged them
    cut,      \* length of the prefix of mseq that has been flushed
    inFlush,  \* a flush of the aggregator is in progress
    batchK,   \* keys emitted by the flush in progress
    emitted,  \* inputs contained in an emitted aggregate
    need,     \* flush request -> inputs whose send had returned when it was made
    fdone,    \* completed flush requests
    handles,  \* live handles of the worker sink
    exited    \* the worker thread has terminated (inner aggregator dropped)

wvars == <<info, started, ended, mseq, cut, inFlush, batchK, emitted, need, fdone, handles, exited>>

SeqRange(s) == {s[i] : i \in 1..Len(s)}
Pending == {i \in (cut + 1)..Len(mseq) : TRUE}                  \* positions merged since the last flush
PendingOfKey(k) == {i \in Pending : info[mseq[i]].key = k}
PendingKeys == {info[mseq[i]].key : i \in Pending}

WInit(h) ==
    /\ info = <<>> /\ started = {} /\ ended = {} /\ mseq = <<>> /\ cut = 0 /\ inFlush = FALSE /\ batchK = {}
    /\ emitted = {} /\ need = <<>> /\ fdone = {} /\ handles = h /\ exited = FALSE

SendStart(p, i, k) ==
    /\ i \notin started /\ handles > 0
    /\ started' = started \cup {i} /\ info' = info @@ (i :> [key |-> k, p |-> p])
    /\ UNCHANGED <<ended, mseq, cut, inFlush, batchK, emitted, need, fdone, handles, exited>>

SendEnd(i) ==
    /\ i \in started \ ended /\ ended' = ended \cup {i}
    /\ UNCHANGED <<info, started, mseq, cut, inFlush, batchK, emitted, need, fdone, handles, exited>>

\* the aggregator merges an input: sent before, never merged before, not during a flush
Merged(i) ==
    /\ i \in started /\ i \notin SeqRange(mseq) /\ ~inFlush /\ ~exited
    /\ mseq' = Append(mseq, i)
    /\ UNCHANGED <<info, started, ended, cut, inFlush, batchK, emitted, need, fdone, handles, exited>>

FlushBegin ==
    /\ ~inFlush /\ ~exited /\ inFlush' = TRUE /\ batchK' = {}
    /\ UNCHANGED <<info, started, ended, mseq, cut, emitted, need, fdone, handles, exited>>

\* one aggregate: key k, the inputs its sum / its distribution decode to, its keep-last input
Emit(k, sumIds, obsIds, last) ==
    /\ inFlush /\ k \notin batchK                               \* one aggregate per key per flush
    /\ PendingOfKey(k) # {}
    /\ LET ids == {mseq[i] : i \in PendingOfKey(k)} IN
         /\ sumIds = ids                                         \* summed fields conserved
         /\ SeqRange(obsIds) = ids /\ Len(obsIds) = Cardinality(ids)   \* observations, by count
         /\ last = mseq[CHOOSE i \in PendingOfKey(k) : \A j \in PendingOfKey(k) : j <= i]
         /\ emitted' = emitted \cup ids
    /\ batchK' = batchK \cup {k}
    /\ UNCHANGED <<info, started, ended, mseq, cut, inFlush, need, fdone, handles, exited>>

\* the flush is over: every key merged since the previous flush has been emitted
FlushEnd ==
    /\ inFlush /\ batchK = PendingKeys
    /\ inFlush' = FALSE /\ cut' = Len(mseq) /\ batchK' = {}
    /\ UNCHANGED <<info, started, ended, mseq, emitted, need, fdone, handles, exited>>

FlushReq(q) ==
    /\ q \notin DOMAIN need /\ handles > 0
    /\ need' = need @@ (q :> ended)
    /\ UNCHANGED <<info, started, ended, mseq, cut, inFlush, batchK, emitted, fdone, handles, exited>>

\* flush().await returned
FlushDone(q) ==
    /\ q \in DOMAIN need /\ q \notin fdone
    /\ need[q] \subseteq emitted
    /\ fdone' = fdone \cup {q}
    /\ UNCHANGED <<info, started, ended, mseq, cut, inFlush, batchK, emitted, need, handles, exited>>

HandleClone ==
    /\ handles > 0 /\ handles' = handles + 1
    /\ UNCHANGED <<info, started, ended, mseq, cut, inFlush, batchK, emitted, need, fdone, exited>>

HandleDrop ==
    /\ handles > 0 /\ handles' = handles - 1
    /\ UNCHANGED <<info, started, ended, mseq, cut, inFlush, batchK, emitted, need, fdone, exited>>

\* the worker terminates only without handles, having emitted everything that was sent
Exited ==
    /\ ~exited /\ handles = 0 /\ ~inFlush
    /\ started = ended /\ ended = SeqRange(mseq) /\ SeqRange(mseq) = emitted
    /\ exited' = TRUE
    /\ UNCHANGED <<info, started, ended, mseq, cut, inFlush, batchK, emitted, need, fdone, handles>>

\* the harness has waited its budget: without handles the worker must have terminated;
\* every flush request has completed
Quiesced == (handles = 0 => exited) /\ DOMAIN need = fdone

\* ---- invariants ---------------------------------------------------------------------------
MergedOnce == \A i, j \in 1..Len(mseq) : mseq[i] = mseq[j] => i = j
EmittedWereMerged == emitted \subseteq SeqRange(mseq) /\ SeqRange(mseq) \subseteq started
\* outside a flush exactly the flushed prefix has been emitted
CutOK == ~inFlush => emitted = {mseq[i] : i \in 1..cut}
WAbsInv == MergedOnce /\ EmittedWereMerged /\ CutOK
=============================================================================
