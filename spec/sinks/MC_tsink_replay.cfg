CONSTANTS
  MaxOps = 3
SPECIFICATION RSpec
INVARIANTS Emit EmitCatalogue TInv
CHECK_DEADLOCK FALSE
