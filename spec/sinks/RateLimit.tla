------------------------------ MODULE RateLimit ------------------------------
(***************************************************************************)
(* X02 (c): rate_limited!(interval, call) (metrique-writer/src/             *)
(* rate_limit.rs) as a shared-clock state machine: one static AtomicU64     *)
(* NEXT_CALL (whole seconds since an arbitrary epoch, initially 0) per call *)
(* site, shared by all threads.  One attempt of thread t:                   *)
(*   Sample   time = now - epoch                (Instant::now)              *)
(*   Load     next = NEXT_CALL.load()           ; give up if next > secs    *)
(*   Cas      compare_exchange(next, floor(time + interval)) ; call iff ok  *)
(* Time advances between any two steps (Tick), so a thread may act on a     *)
(* stale sample.                                                            *)
(*                                                                         *)
(* Properties:                                                              *)
(*   Spaced      in the order of their compare-exchanges, two calls were    *)
(*               sampled at least `interval` (rounded down to whole         *)
(*               seconds) apart: at most one call per interval across all   *)
(*               threads - in particular never two calls for one second     *)
(*   FirstCalls  the first attempt(s) ever lead to a call (NEXT_CALL = 0:   *)
(*               "log the first occurrence")                                *)
(*   Monotone    NEXT_CALL never decreases                                  *)
(*   Due         (one thread) an attempt sampled at or after NEXT_CALL      *)
(*               always calls                                               *)
(* Bug: lt (`<` for `<=`), nointerval (new_next = now), store (plain store   *)
(* instead of compare-exchange).                                            *)
(***************************************************************************)
EXTENDS Integers, Sequences, FiniteSets, TLC

CONSTANTS Threads, TicksPerSec, IntervalTicks, MaxTime, MaxAttempts, Bug

SecsOf(ticks) == ticks \div TicksPerSec
NewNext(ticks) == IF Bug = "nointerval" THEN SecsOf(ticks) ELSE SecsOf(ticks + IntervalTicks)
Allowed(next, ticks) == IF Bug = "lt" THEN next < SecsOf(ticks) ELSE next <= SecsOf(ticks)

VARIABLES now, nextCall, pc, samp, loaded, left, calls, done, maxNext
vars == <<now, nextCall, pc, samp, loaded, left, calls, done, maxNext>>

Init == /\ now = 0 /\ nextCall = 0
        /\ pc = [t \in Threads |-> "idle"] /\ samp = [t \in Threads |-> 0] /\ loaded = [t \in Threads |-> 0]
        /\ left = [t \in Threads |-> MaxAttempts] /\ calls = <<>> /\ done = 0 /\ maxNext = 0

Tick == now < MaxTime /\ now' = now + 1 /\ UNCHANGED <<nextCall, pc, samp, loaded, left, calls, done, maxNext>>

Sample(t) == /\ pc[t] = "idle" /\ left[t] > 0
             /\ samp' = [samp EXCEPT ![t] = now] /\ left' = [left EXCEPT ![t] = @ - 1]
             /\ pc' = [pc EXCEPT ![t] = "sampled"]
             /\ UNCHANGED <<now, nextCall, loaded, calls, done, maxNext>>

Load(t) == /\ pc[t] = "sampled"
           /\ loaded' = [loaded EXCEPT ![t] = nextCall]
           /\ IF Allowed(nextCall, samp[t])
                THEN pc' = [pc EXCEPT ![t] = "loaded"] /\ done' = done
                ELSE pc' = [pc EXCEPT ![t] = "idle"] /\ done' = done + 1
           /\ UNCHANGED <<now, nextCall, samp, left, calls, maxNext>>

Cas(t) == /\ pc[t] = "loaded"
          /\ IF nextCall = loaded[t] \/ Bug = "store"
               THEN /\ nextCall' = NewNext(samp[t])
                    /\ calls' = Append(calls, [t |-> t, at |-> samp[t]])
               ELSE UNCHANGED <<nextCall, calls>>
          /\ maxNext' = IF nextCall' > maxNext THEN nextCall' ELSE maxNext
          /\ pc' = [pc EXCEPT ![t] = "idle"] /\ done' = done + 1
          /\ UNCHANGED <<now, samp, loaded, left>>

Next == Tick \/ \E t \in Threads : Sample(t) \/ Load(t) \/ Cas(t)
Spec == Init /\ [][Next]_vars

Spaced == \A i \in 1..Len(calls) : i > 1 =>
             SecsOf(calls[i].at) >= SecsOf(calls[i - 1].at) + (IntervalTicks \div TicksPerSec)
FirstCalls == done > 0 => calls # <<>>
Monotone == nextCall = maxNext
Due == Cardinality(Threads) = 1 =>
         \A t \in Threads : pc[t] = "loaded" => nextCall = loaded[t]
RInv == Spaced /\ FirstCalls /\ Monotone /\ Due
=============================================================================
