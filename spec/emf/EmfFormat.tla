------------------------------ MODULE EmfFormat ------------------------------
(***************************************************************************)
(* One `Format::format` call of the EMF formatter                          *)
(* (metrique-writer-format-emf/src/emf.rs) as a state machine over the     *)
(* sequence of EntryWriter calls an entry issues:                          *)
(*                                                                         *)
(*   TS(t) | CFG(split|unroutable|entry dimensions) |                      *)
(*   STR(name, s) | MET(name, obs, unit, dims, flag) | ERR(name) |         *)
(*   EMPTY(name)                                                           *)
(*                                                                         *)
(* followed by `Finish`, which yields Reject(errs) or Accept(records).     *)
(* The machine is run twice in lock step: `son` with validations enabled   *)
(* and `soff` with validations disabled, so that every behaviour carries   *)
(* both expected results and TLC can compare them (C08 transparency).      *)
(*                                                                         *)
(* Two layers:                                                             *)
(*  - implementation-shaped: Apply*/Finish mirror the gating of emf.rs     *)
(*    (what hides behind the validation switch, what is unconditional,     *)
(*    routing to the global or a per-dimension-set buffer, skip rules);    *)
(*  - property layer: `Defective` is a declarative reading of the list of  *)
(*    defects in property C08, independent of the state machine; the       *)
(*    invariants WellFormed / Sound / Transparent / RejectIff are what     *)
(*    C02, C03, C08 state about the result.                                *)
(*                                                                         *)
(* Per-metric dimension keys are entered into the per-entry name map (the  *)
(* property demands that no accepted record has two members with one name; *)
(* the pinned code did not do that - DESIGN section 5, D4 - and was fixed).*)
(*                                                                         *)
(* Numbers are abstract: an observation is a token, a rendered value is    *)
(* [src |-> index of the observation, t |-> transformation]; counts are    *)
(* natural numbers with CAP standing for u64::MAX and BIG for 2^63 (the    *)
(* saturating product is real arithmetic on that scale).                   *)
(***************************************************************************)
EXTENDS Naturals, Sequences, FiniteSets, TLC

CONSTANTS
    Configs,        \* set of formatter configurations (records, see CfgRec)
    InitEntries,    \* set of call sequences an enumeration starts from
    NextCalls(_),   \* calls that may be appended after a given history
    MaxCalls        \* number of calls appended on top of an initial entry

VARIABLES cfg, calls, n, son, soff
vars == <<cfg, calls, n, son, soff>>

-----------------------------------------------------------------------------
(* Vocabulary *)

NoArg == "-"
\* every name an entry can use; d1 = configured dimension, d2 = entry dimension,
\* k1/k2 = per-metric dimension keys, "" and "_aws" = invalid names
NameU == {"a", "b", "s", "d1", "d2", "k1", "k2", "", "_aws"}

TS(t)      == [op |-> "TS",    name |-> NoArg, arg |-> t,     obs |-> <<>>, unit |-> NoArg, dims |-> <<>>, flag |-> NoArg]
CFG(c)     == [op |-> "CFG",   name |-> NoArg, arg |-> c,     obs |-> <<>>, unit |-> NoArg, dims |-> <<>>, flag |-> NoArg]
STR(nm, s) == [op |-> "STR",   name |-> nm,    arg |-> s,     obs |-> <<>>, unit |-> NoArg, dims |-> <<>>, flag |-> NoArg]
MET(nm, o, u, d, f) ==
              [op |-> "MET",   name |-> nm,    arg |-> NoArg, obs |-> o,    unit |-> u,     dims |-> d,    flag |-> f]
ERRV(nm)   == [op |-> "ERR",   name |-> nm,    arg |-> NoArg, obs |-> <<>>, unit |-> NoArg, dims |-> <<>>, flag |-> NoArg]
EMPTYV(nm) == [op |-> "EMPTY", name |-> nm,    arg |-> NoArg, obs |-> <<>>, unit |-> NoArg, dims |-> <<>>, flag |-> NoArg]

CfgRec(dd, ns, ig, m, lg, ex) ==
    [dd |-> dd, ns |-> ns, ignoreDims |-> ig, mult |-> m, lg |-> lg, extra |-> ex]

\* entry-dimension configurations (EntryDimensions): a sequence of dimension sets
EDKinds == {"ed_d2", "ed_two", "ed_empty", "ed_unit"}
EntryDimsOf(c) == CASE c = "ed_d2"    -> << <<"d2">> >>
                    [] c = "ed_two"   -> << <<>>, <<"d2">> >>
                    [] c = "ed_empty" -> <<>>
                    [] c = "ed_unit"  -> << <<>> >>       \* one empty set: leaves the dimension sets as configured

\* observation tokens
\*   U unsigned, F finite float, NaN, PInf, NInf,
\*   Rep1/Rep4/RepBig = Repeated{finite total, occurrences 1 / 4 / 2^63},
\*   Rep0 = Repeated{any total, 0 occurrences}, RepNaN = Repeated{NaN, 2},
\*   RepInf = Repeated{+inf, 2}
ObsTokens == {"U", "F", "NaN", "PInf", "NInf", "Rep1", "Rep4", "RepBig", "Rep0", "RepNaN", "RepInf"}
Skipped   == {"NaN", "RepNaN"}
CAP == 1048576      \* stands for u64::MAX
BIG == 524288       \* stands for 2^63
Occ(o) == CASE o = "Rep4"   -> 4
            [] o = "RepBig" -> BIG
            [] o = "Rep0"   -> 0
            [] o \in {"RepNaN", "RepInf"} -> 2
            [] OTHER -> 1
Transform(o) == CASE o \in {"U", "F"} -> "id"
                  [] o \in {"PInf", "RepInf"} -> "max"     \* clamped to f64::MAX
                  [] o = "NInf" -> "min"                   \* clamped to -f64::MAX
                  [] o = "Rep0" -> "zero"
                  [] OTHER -> "mean"                       \* total / occurrences
MultVal(m) == CASE m = "m3" -> 3 [] m = "sat" -> CAP [] OTHER -> 1     \* "none", "m1"
SatMul(a, b) == IF a = 0 \/ b = 0 THEN 0 ELSE IF a > CAP \div b THEN CAP ELSE a * b

-----------------------------------------------------------------------------
(* Small sequence helpers *)

RECURSIVE Flatten(_)
Flatten(ss) == IF ss = <<>> THEN <<>> ELSE Head(ss) \o Flatten(Tail(ss))

RECURSIVE SetToSeq(_)
SetToSeq(S) == IF S = {} THEN <<>> ELSE LET x == CHOOSE y \in S : TRUE IN <<x>> \o SetToSeq(S \ {x})

Range(s) == {s[i] : i \in 1..Len(s)}
Indices(s) == [i \in 1..Len(s) |-> i]

\* configured dimension sets crossed with entry dimension sets (emf.rs config())
Cross(dd, E) == Flatten([i \in 1..Len(dd) |-> [j \in 1..Len(E) |-> dd[i] \o E[j]]])

-----------------------------------------------------------------------------
(* Abstract formatter state *)

None    == [k |-> "none",    idx |-> {}]
StringK == [k |-> "string",  idx |-> {}]
Unfound == [k |-> "unfound", idx |-> {}]
MetricK(S) == [k |-> "metric", idx |-> S]

InitState(c, v) ==
    [vmap     |-> [nm \in NameU |-> IF v /\ nm \in Range(Flatten(c.dd)) THEN Unfound ELSE None],
     errs     |-> {},
     ts       |-> "none",
     ed       |-> [set |-> FALSE, dims |-> <<>>],
     split    |-> FALSE,
     unroutable |-> FALSE,
     dimsets  |-> <<>>,          \* per-dimension-set buffers, in creation order (index = position)
     gfields  |-> <<>>,          \* members of the record without per-metric dimensions
     gdecls   |-> <<>>,
     strings  |-> <<>>,          \* string members, shared by every record
     pos      |-> 0]             \* number of calls applied so far

AddErr(s, e) == [s EXCEPT !.errs = @ \cup {e}]

\* `pos` = position of the call that wrote the member (0: a per-metric dimension), so that the
\* replay can look up the concrete value
Member(nm, kind, sv, vals, counts, pos) ==
    [name |-> nm, kind |-> kind, sv |-> sv, vals |-> vals, counts |-> counts, pos |-> pos]
Absent == Member(NoArg, "absent", NoArg, <<>>, <<>>, 0)

NameBad(v, nm) == v /\ nm \in {"", "_aws"}
NameErr(nm) == IF nm = "" THEN "empty_name" ELSE "aws_name"

\* ----- timestamp(): the last one wins, a second one is an error (unconditional)
ApplyTS(s, c) ==
    [(IF s.ts # "none" THEN AddErr(s, "multi_ts") ELSE s) EXCEPT !.ts = c.arg]

\* ----- config()
RECURSIVE RegDims(_, _)
RegDims(s, names) ==
    IF names = <<>> THEN s
    ELSE LET nm == Head(names)
             e  == s.vmap[nm]
             s1 == CASE e.k = "metric" -> AddErr(s, "dup")
                     [] e.k = "none"   -> [s EXCEPT !.vmap[nm] = Unfound]
                     [] OTHER          -> s
         IN RegDims(s1, Tail(names))

ApplyCFG(c0, v, s, c) ==
    CASE c.arg = "split"      -> [s EXCEPT !.split = TRUE]
      [] c.arg = "unroutable" -> [s EXCEPT !.unroutable = TRUE]
      [] OTHER ->
         LET E == EntryDimsOf(c.arg) IN
         IF s.dimsets # <<>> THEN AddErr(s, "ed_late")
         ELSE IF s.ed.set THEN AddErr(s, "ed_twice")
         ELSE IF E = <<>> THEN AddErr(s, "ed_empty")
         ELSE LET s1 == IF v THEN RegDims(s, Flatten(E)) ELSE s
              IN [s1 EXCEPT !.ed = [set |-> TRUE, dims |-> Cross(c0.dd, E)]]

\* ----- value(name, string)
ApplySTR(v, s, c) ==
    IF NameBad(v, c.name) THEN AddErr(s, NameErr(c.name))
    ELSE LET s1 == [s EXCEPT !.strings = Append(@, Member(c.name, "str", c.arg, <<>>, <<>>, s.pos))]
         IN IF ~v THEN s1
            ELSE IF s1.vmap[c.name].k \in {"metric", "string"} THEN AddErr(s1, "dup")
            ELSE [s1 EXCEPT !.vmap[c.name] = StringK]

\* ----- value(name, metric)
RegMember(s, nm, idx) ==      \* name nm becomes a member of record idx
    LET e == s.vmap[nm] IN
    CASE e.k = "none"    -> [s EXCEPT !.vmap[nm] = MetricK({idx})]
      [] e.k = "unfound" -> AddErr(s, "metric_in_dim")
      [] e.k = "string"  -> AddErr(s, "dup")
      [] e.k = "metric"  -> IF idx \in e.idx THEN AddErr(s, "dup")
                            ELSE [s EXCEPT !.vmap[nm] = MetricK(e.idx \cup {idx})]

\* a per-metric dimension key becomes a string member of record idx
RegKey(s, nm, idx) ==
    LET e == s.vmap[nm] IN
    IF e.k = "none" THEN [s EXCEPT !.vmap[nm] = MetricK({idx})]
    ELSE IF e.k = "metric" /\ idx \notin e.idx THEN [s EXCEPT !.vmap[nm] = MetricK(e.idx \cup {idx})]
    ELSE AddErr(s, "dup")

RECURSIVE RegKeys(_, _, _)
RegKeys(s, names, idx) ==
    IF names = <<>> THEN s ELSE RegKeys(RegKey(s, Head(names), idx), Tail(names), idx)

MetricMember(mult, nm, obs, pos) ==
    LET kept   == SelectSeq(Indices(obs), LAMBDA i : obs[i] \notin Skipped)
        scalar == Len(obs) = 1 /\ mult = "none" /\ obs[1] \in {"U", "F", "PInf", "NInf"}
    IN IF kept = <<>> THEN Absent
       ELSE IF scalar THEN Member(nm, "scalar", NoArg, <<[src |-> 1, t |-> Transform(obs[1])]>>, <<>>, pos)
       ELSE Member(nm, "hist", NoArg,
                   [j \in 1..Len(kept) |-> [src |-> kept[j], t |-> Transform(obs[kept[j]])]],
                   [j \in 1..Len(kept) |-> SatMul(Occ(obs[kept[j]]), MultVal(mult))], pos)

Decl(c, pos) == [name |-> c.name, unit |-> c.unit, hires |-> (c.flag = "hires"), pos |-> pos]

AddField(s, idx, m, c) ==
    LET d == IF c.flag = "nometric" THEN <<>> ELSE <<Decl(c, s.pos)>> IN
    IF idx = 0 THEN [s EXCEPT !.gfields = Append(@, m), !.gdecls = @ \o d]
    ELSE [s EXCEPT !.dimsets[idx].fields = Append(@, m), !.dimsets[idx].decls = @ \o d]

ApplyMET(c0, v, s, c) ==
    IF NameBad(v, c.name) THEN AddErr(s, NameErr(c.name))
    ELSE
    LET global   == c0.ignoreDims \/ c.dims = <<>>
        s1       == IF ~global /\ ~s.split THEN AddErr(s, "dims_no_split") ELSE s
        key      == Range(c.dims)
        existing == {i \in 1..Len(s1.dimsets) : s1.dimsets[i].key = key}
        isNew    == ~global /\ existing = {}
        idx      == IF global THEN 0
                    ELSE IF isNew THEN Len(s1.dimsets) + 1
                    ELSE CHOOSE i \in existing : TRUE
        s2       == IF isNew
                    THEN [s1 EXCEPT !.dimsets = Append(@,
                            [key |-> key,
                             base |-> IF s1.ed.set THEN s1.ed.dims ELSE c0.dd,
                             fields |-> <<>>, decls |-> <<>>])]
                    ELSE s1
        check    == v /\ ~s2.unroutable
        \* the dimension keys become string members of record idx (D4)
        s3       == IF check /\ isNew THEN RegKeys(s2, [i \in 1..Len(c.dims) |-> c.dims[i][1]], idx) ELSE s2
        s4       == IF check THEN RegMember(s3, c.name, idx) ELSE s3
        m        == MetricMember(c0.mult, c.name, c.obs, s.pos)
    IN IF m.kind = "absent" THEN s4 ELSE AddField(s4, idx, m, c)

\* ----- value(name, a value that reports an error / writes nothing)
ApplyERR(v, s, c)   == IF NameBad(v, c.name) THEN AddErr(s, NameErr(c.name)) ELSE AddErr(s, "value_error")
ApplyEMPTY(v, s, c) == IF NameBad(v, c.name) THEN AddErr(s, NameErr(c.name)) ELSE s

Apply(c0, v, s0, c) ==
    LET s == [s0 EXCEPT !.pos = @ + 1] IN
    CASE c.op = "TS"    -> ApplyTS(s, c)
      [] c.op = "CFG"   -> ApplyCFG(c0, v, s, c)
      [] c.op = "STR"   -> ApplySTR(v, s, c)
      [] c.op = "MET"   -> ApplyMET(c0, v, s, c)
      [] c.op = "ERR"   -> ApplyERR(v, s, c)
      [] c.op = "EMPTY" -> ApplyEMPTY(v, s, c)

RECURSIVE Run(_, _, _, _)
Run(c0, v, s, cs) == IF cs = <<>> THEN s ELSE Run(c0, v, Apply(c0, v, s, Head(cs)), Tail(cs))

\* ----- finish()
KeyMembers(key) ==
    LET ps == SetToSeq(key) IN [i \in 1..Len(ps) |-> Member(ps[i][1], "str", ps[i][2], <<>>, <<>>, 0)]

Finish(c0, v, s) ==
    LET missing   == v /\ ~s.unroutable /\ \E nm \in NameU : s.vmap[nm].k = "unfound"
        errs      == s.errs \cup (IF missing THEN {"missing_dim"} ELSE {})
        splitIdx  == SelectSeq(Indices(s.dimsets), LAMBDA i : s.dimsets[i].fields # <<>>)
        splitRecs == [j \in 1..Len(splitIdx) |->
                        LET d == s.dimsets[splitIdx[j]] IN
                        [kind    |-> "split",
                         dims    |-> [b \in 1..Len(d.base) |-> [base |-> d.base[b], ext |-> {p[1] : p \in d.key}]],
                         decls   |-> d.decls,
                         members |-> KeyMembers(d.key) \o d.fields \o s.strings,
                         extra   |-> FALSE]]
        needGlobal == splitIdx = <<>> \/ s.gfields # <<>>
        gbase     == IF s.ed.set THEN s.ed.dims ELSE c0.dd
        globalRec == [kind    |-> "global",
                      dims    |-> [b \in 1..Len(gbase) |-> [base |-> gbase[b], ext |-> {}]],
                      decls   |-> s.gdecls,
                      members |-> s.gfields \o s.strings,
                      extra   |-> c0.extra]
    IN IF errs # {}
       THEN [accept |-> FALSE, errs |-> errs, records |-> <<>>, ts |-> NoArg]
       ELSE [accept |-> TRUE, errs |-> {}, ts |-> s.ts,
             records |-> splitRecs \o (IF needGlobal THEN <<globalRec>> ELSE <<>>)]

ResOn  == Finish(cfg, TRUE, son)
ResOff == Finish(cfg, FALSE, soff)

-----------------------------------------------------------------------------
(* The state machine: one action per writer call *)

Init ==
    /\ cfg \in Configs
    /\ calls \in InitEntries
    /\ n = 0
    /\ son  = Run(cfg, TRUE,  InitState(cfg, TRUE),  calls)
    /\ soff = Run(cfg, FALSE, InitState(cfg, FALSE), calls)

Step(c) ==
    /\ n < MaxCalls
    /\ c \in NextCalls(calls)
    /\ calls' = Append(calls, c)
    /\ n' = n + 1
    /\ son'  = Apply(cfg, TRUE, son, c)
    /\ soff' = Apply(cfg, FALSE, soff, c)
    /\ UNCHANGED cfg

Timestamp   == \E c \in NextCalls(calls) : c.op = "TS"    /\ Step(c)
Config      == \E c \in NextCalls(calls) : c.op = "CFG"   /\ Step(c)
StringValue == \E c \in NextCalls(calls) : c.op = "STR"   /\ Step(c)
MetricValue == \E c \in NextCalls(calls) : c.op = "MET"   /\ Step(c)
ErrorValue  == \E c \in NextCalls(calls) : c.op = "ERR"   /\ Step(c)
EmptyValue  == \E c \in NextCalls(calls) : c.op = "EMPTY" /\ Step(c)

Next == Timestamp \/ Config \/ StringValue \/ MetricValue \/ ErrorValue \/ EmptyValue
Spec == Init /\ [][Next]_vars

-----------------------------------------------------------------------------
(* Property layer *)

\* --- the list of defects of property C08, read off the call sequence alone
Defective(c0, v, cs) ==
    LET N         == Len(cs)
        Is(i, o)  == cs[i].op = o
        IsED(i)   == Is(i, "CFG") /\ cs[i].arg \in EDKinds
        Routed(i) == Is(i, "MET") /\ cs[i].dims # <<>> /\ ~c0.ignoreDims
        RecOf(i)  == IF Routed(i) THEN Range(cs[i].dims) ELSE {}
        Strs      == {i \in 1..N : Is(i, "STR")}
        Mets      == {i \in 1..N : Is(i, "MET")}
        Vals      == {i \in 1..N : cs[i].op \in {"STR", "MET", "ERR", "EMPTY"}}
        DimNames  == Range(Flatten(c0.dd)) \cup
                     UNION {Range(Flatten(EntryDimsOf(cs[i].arg))) : i \in {j \in 1..N : IsED(j)}}
        \* unconditional
        MultiTs   == Cardinality({i \in 1..N : Is(i, "TS")}) > 1
        ValueErr  == \E i \in 1..N : Is(i, "ERR")
        NoSplit   == \E i \in 1..N : Routed(i) /\ ~\E j \in 1..(i-1) : Is(j, "CFG") /\ cs[j].arg = "split"
        BadED     == \E i \in 1..N : IsED(i) /\
                        \/ EntryDimsOf(cs[i].arg) = <<>>                \* empty
                        \/ \E j \in 1..(i-1) : IsED(j)                  \* repeated
                        \/ \E j \in 1..(i-1) : Routed(j)                \* late
        \* with validations
        BadName   == \E i \in Vals : cs[i].name \in {"", "_aws"}
        TwoValues == \E i \in Strs \cup Mets, j \in Strs \cup Mets :
                        /\ i < j /\ cs[i].name = cs[j].name
                        /\ (i \in Strs \/ j \in Strs \/ RecOf(i) = RecOf(j))
        MetricDim == \E i \in Mets : cs[i].name \in DimNames
        Missing   == \E d \in DimNames : ~\E i \in Strs : cs[i].name = d
        KeyClash  == \E i \in Mets : Routed(i) /\ \E p \in RecOf(i) :
                        \/ \E j \in Strs : cs[j].name = p[1]
                        \/ \E j \in Mets : cs[j].name = p[1] /\ RecOf(j) = RecOf(i)
                        \/ p[1] \in DimNames
    IN \/ MultiTs \/ ValueErr \/ NoSplit \/ BadED
       \/ (v /\ (BadName \/ TwoValues \/ MetricDim \/ Missing \/ KeyClash))

NoUnroutable == \A i \in 1..Len(calls) : ~(calls[i].op = "CFG" /\ calls[i].arg = "unroutable")

TypeOK ==
    /\ cfg \in Configs
    /\ n \in 0..MaxCalls
    /\ son = Run(cfg, TRUE, InitState(cfg, TRUE), calls)        \* the fold and the step machine agree
    /\ soff = Run(cfg, FALSE, InitState(cfg, FALSE), calls)

RecordOK(r) ==
    /\ Len(r.dims) >= 1
    /\ \A i \in 1..Len(r.members) :
          LET m == r.members[i] IN
          /\ m.kind \in {"str", "scalar", "hist"}
          /\ m.kind = "hist" => Len(m.vals) = Len(m.counts) /\ Len(m.vals) >= 1
          /\ m.kind = "scalar" => Len(m.vals) = 1
    \* every declared metric is a member of the record
    /\ \A i \in 1..Len(r.decls) : \E j \in 1..Len(r.members) :
          r.members[j].name = r.decls[i].name /\ r.members[j].kind \in {"scalar", "hist"}

\* C02 (model level): accept => at least one record, every record well-formed; reject => nothing
WellFormedRes(res) ==
    /\ res.accept  => Len(res.records) >= 1 /\ \A i \in 1..Len(res.records) : RecordOK(res.records[i])
    /\ ~res.accept => res.records = <<>> /\ res.errs # {}
WellFormed == WellFormedRes(ResOn) /\ WellFormedRes(ResOff)

\* C08 soundness: with validations no accepted record has two members with one name,
\* nor a member with an empty / reserved name
NoDupMembers(r) ==
    /\ \A i, j \in 1..Len(r.members) : i # j => r.members[i].name # r.members[j].name
    /\ \A i \in 1..Len(r.members) : r.members[i].name \notin {"", "_aws"}
\* (entries carrying AllowUnroutableEntries are outside the property: that config is documented
\* as unsupported for anything but the in-band error report and switches metric checks off)
Sound == (ResOn.accept /\ NoUnroutable) => \A i \in 1..Len(ResOn.records) : NoDupMembers(ResOn.records[i])

\* C08 transparency: an entry accepted with validations is accepted without, with equal output
Transparent == ResOn.accept => ResOff.accept /\ ResOff.records = ResOn.records /\ ResOff.ts = ResOn.ts

\* C08 exactness: rejected iff one of the listed defects is present
RejectIff == NoUnroutable =>
    /\ ResOn.accept  = ~Defective(cfg, TRUE, calls)
    /\ ResOff.accept = ~Defective(cfg, FALSE, calls)

\* the in-band error report (AllowUnroutableEntries first, then string properties with
\* distinct valid names) is accepted whatever the dimension configuration
UnroutableReport ==
    (/\ Len(calls) >= 1 /\ calls[1] = CFG("unroutable")
     /\ \A i \in 2..Len(calls) : calls[i].op = "STR" /\ calls[i].name \notin {"", "_aws"}
     /\ \A i, j \in 2..Len(calls) : i # j => calls[i].name # calls[j].name)
    => ResOn.accept

\* C03 (model level): a metric with a usable observation is a member of the record its
\* dimensions route it to and is declared there unless flagged no-metric; a metric name none
\* of whose writes has a usable observation appears nowhere
Usable(c) == \E k \in 1..Len(c.obs) : c.obs[k] \notin Skipped
HasStr(r, nm, sv) == \E m \in Range(r.members) : m.kind = "str" /\ m.name = nm /\ m.sv = sv
HasMetric(r, nm)  == \E m \in Range(r.members) : m.kind \in {"scalar", "hist"} /\ m.name = nm
FaithfulRes(res) == res.accept =>
    \A i \in 1..Len(calls) : calls[i].op = "MET" =>
        LET c      == calls[i]
            routed == c.dims # <<>> /\ ~cfg.ignoreDims
            Home(r) == IF routed THEN r.kind = "split" /\ \A p \in Range(c.dims) : HasStr(r, p[1], p[2])
                                 ELSE r.kind = "global"
        IN IF Usable(c)
           THEN \E r \in Range(res.records) :
                   /\ Home(r) /\ HasMetric(r, c.name)
                   /\ (c.flag # "nometric") => Decl(c, i) \in Range(r.decls)
           ELSE (\A j \in 1..Len(calls) : (calls[j].op = "MET" /\ calls[j].name = c.name) => ~Usable(calls[j]))
                => \A r \in Range(res.records) : ~HasMetric(r, c.name) /\ \A d \in Range(r.decls) : d.name # c.name
Faithful == FaithfulRes(ResOn) /\ FaithfulRes(ResOff)
=============================================================================
