\* -simulate walks with explicit appends (run with -depth 24)
CONSTANTS
  Threads = {1, 2}
  Runtimes = {1, 2}
  MaxSinks = 10
  MaxEntries = 24
  Depth = 24
SPECIFICATION RSpecB
INVARIANT EmitB
CONSTRAINT BoundB
CHECK_DEADLOCK FALSE
