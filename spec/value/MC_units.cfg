SPECIFICATION Spec
INVARIANT AlgebraInv
INVARIANT PairInv
INVARIANT DurInv
INVARIANT StringInv
INVARIANT MismatchInv
INVARIANT Emit
INVARIANT CollectInv
INVARIANT CollectRepInv
INVARIANT MeanConvInv
INVARIANT EmitCollect
INVARIANT AttrInv
INVARIANT EmitAttr
CHECK_DEADLOCK FALSE
