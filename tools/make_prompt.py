#!/usr/bin/env python3
"""tools/make_prompt.py <prop> <worktree> <out-file> [N]
Compose the adversary prompt for a fresh sub-agent: property text only + the list of mechanisms already used
(from /verif/seeded/<prop>-m*/meta.json 'breaks'), nothing else from /verif."""
import sys, json, glob, os
prop, wt, out = sys.argv[1:4]
n = sys.argv[4] if len(sys.argv) > 4 else "2"
props = {json.loads(l)["id"]: json.loads(l) for l in open("/verif/properties.jsonl") if l.strip()}
p = props[prop]
t = open("/verif/tools/mutant_prompt.txt").read()
quant = p["quantifier"]["text"]
t = (t.replace("{WT}", wt).replace("{PID}", prop).replace("{TITLE}", p.get("title", ""))
      .replace("{STATEMENT}", p.get("statement", p.get("text", ""))).replace("{QUANT}", quant).replace("{N}", n))
prev = []
for d in sorted(glob.glob(f"/verif/seeded/{prop}-m*")):
    try:
        prev.append("- " + json.load(open(d + "/meta.json"))["breaks"][:260].replace("\n", " "))
    except Exception:
        pass
if prev:
    t += ("\n\nADDITIONAL CONSTRAINT: earlier rounds already produced the mutants listed below for this property; yours must use "
          "DIFFERENT mechanisms and, as far as possible, different code sites (other functions, other files, other crates that "
          "take part in the behaviour) and clauses of the property statement that the list does not target yet. Prefer mechanisms "
          "of a different KIND from those listed (if they are mostly state-reset bugs, look for arithmetic, ordering, aliasing, "
          "configuration-dependent, or lifetime/drop-order bugs, and vice versa):\n" + "\n".join(prev) + "\n")
open(out, "w").write(t)
print(out, len(prev), "earlier mutants listed")
