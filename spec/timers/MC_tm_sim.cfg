CONSTANTS
  Slots = {1}
  Ds = {0, 1, 2, 7}
  MaxClock = 100000000
  W0 = 1700000
  W0B = 9000000
  Ambients = {"A", "B", "none"}
  Threads = {"main", "other"}
  Resolution = "captured"
  UnwindDrops = TRUE
  Depth = 1000
SPECIFICATION RSpec
INVARIANT Emit
INVARIANT TmInv
CONSTRAINT Bound
CHECK_DEADLOCK FALSE
