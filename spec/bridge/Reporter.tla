------------------------------ MODULE Reporter ------------------------------
(***************************************************************************)
(* C20, the publishing side of the bridge: the task spawned by              *)
(* MetricReporter (metrique-metricsrs/src/reporter.rs, spawn_metric_reporter) *)
(* reads the recorder out every publish interval and appends the readout to  *)
(* the destination sink; on shutdown it reads out ONE MORE TIME, appends     *)
(* that readout too, then releases the destination and stops.                *)
(*                                                                         *)
(* Implementation-shaped layer: cells per key (as in MetricsBridge.tla, but  *)
(* sequential: the interleaving with concurrent updaters is MetricsBridge's  *)
(* business), Readout = what MetricRecorder::readout returns and resets,     *)
(* Tick = append(Readout), Shutdown = append(Readout) then stop.             *)
(* FinalMode = "if_counters" is a deliberately broken reporter (the final    *)
(* readout is appended only if it lists a counter), used as negative model.  *)
(*                                                                         *)
(* Property layer (what "reported exactly once ... gauges report the last    *)
(* value set" means for what is PUBLISHED): over the concatenation of all    *)
(* appended readouts, the counter deltas sum to the total incremented minus  *)
(* what is still in the cells, same for histogram samples; right after every *)
(* publish the last published value of every registered gauge is the last    *)
(* value set; once the reporter has stopped everything ever applied has been *)
(* published and nothing is appended any more.                               *)
(***************************************************************************)
EXTENDS Integers, Sequences, FiniteSets, TLC

CONSTANTS CKeys, GKeys, HKeys,
          EmitZero,      \* emit_zero_counters
          MaxUpdates, MaxTicks,
          FinalMode      \* "always" | "if_counters"

VARIABLES cnt, gau, hst, reg,          \* recorder: cells and registered keys
          phase,                        \* "running" | "stopped"
          cumC, cumH, lastG, npub,      \* destination: projection of everything appended so far
          fresh,                        \* TRUE right after an append
          incT, recT, lastSet,          \* property layer: totals applied, last value set
          nupd, nticks

rvars == <<cnt, gau, hst, reg, phase, cumC, cumH, lastG, npub, fresh, incT, recT, lastSet, nupd, nticks>>

Zero(S) == [k \in S |-> 0]
\* the increment used for a counter key (distinct per key, so that a delta identifies its key)
IncOf == [k \in CKeys |-> IF k = "c1" THEN 1 ELSE 2]

Init ==
    /\ cnt = Zero(CKeys) /\ gau = Zero(GKeys) /\ hst = Zero(HKeys) /\ reg = {}
    /\ phase = "running"
    /\ cumC = Zero(CKeys) /\ cumH = Zero(HKeys) /\ lastG = [g \in {} |-> 0] /\ npub = 0 /\ fresh = FALSE
    /\ incT = Zero(CKeys) /\ recT = Zero(HKeys) /\ lastSet = Zero(GKeys)
    /\ nupd = 0 /\ nticks = 0

Upd == phase = "running" /\ nupd < MaxUpdates /\ nupd' = nupd + 1 /\ fresh' = FALSE
       /\ UNCHANGED <<phase, cumC, cumH, lastG, npub, nticks>>

Inc(k) ==
    /\ Upd
    /\ cnt' = [cnt EXCEPT ![k] = @ + IncOf[k]] /\ incT' = [incT EXCEPT ![k] = @ + IncOf[k]]
    /\ reg' = reg \cup {k}
    /\ UNCHANGED <<gau, hst, recT, lastSet>>
SetG(k, v) ==
    /\ Upd
    /\ gau' = [gau EXCEPT ![k] = v] /\ lastSet' = [lastSet EXCEPT ![k] = v]
    /\ reg' = reg \cup {k}
    /\ UNCHANGED <<cnt, hst, incT, recT>>
Rec(k) ==
    /\ Upd
    /\ hst' = [hst EXCEPT ![k] = @ + 1] /\ recT' = [recT EXCEPT ![k] = @ + 1]
    /\ reg' = reg \cup {k}
    /\ UNCHANGED <<cnt, gau, incT, lastSet>>

\* MetricRecorder::readout: the entry, and the cells afterwards
ListedC == {k \in CKeys \cap reg : EmitZero \/ cnt[k] # 0}
Entry == [c |-> [k \in ListedC |-> cnt[k]],
          g |-> [k \in GKeys \cap reg |-> gau[k]],
          h |-> [k \in HKeys \cap reg |-> hst[k]]]
Drained == cnt' = Zero(CKeys) /\ hst' = Zero(HKeys) /\ UNCHANGED <<gau, reg>>

\* destination.append(e)
Publish(e) ==
    /\ cumC' = [k \in CKeys |-> cumC[k] + (IF k \in DOMAIN e.c THEN e.c[k] ELSE 0)]
    /\ cumH' = [k \in HKeys |-> cumH[k] + (IF k \in DOMAIN e.h THEN e.h[k] ELSE 0)]
    /\ lastG' = [k \in DOMAIN lastG \cup DOMAIN e.g |-> IF k \in DOMAIN e.g THEN e.g[k] ELSE lastG[k]]
    /\ npub' = npub + 1 /\ fresh' = TRUE

\* the publish interval elapsed
Tick ==
    /\ phase = "running" /\ nticks < MaxTicks /\ nticks' = nticks + 1
    /\ Drained /\ Publish(Entry)
    /\ UNCHANGED <<phase, incT, recT, lastSet, nupd>>

\* MetricReporter::shutdown(): one more readout is published, then the task ends
Shutdown ==
    /\ phase = "running" /\ phase' = "stopped"
    /\ Drained
    /\ IF FinalMode = "always" \/ DOMAIN Entry.c # {}
       THEN Publish(Entry)
       ELSE UNCHANGED <<cumC, cumH, lastG, npub>> /\ fresh' = TRUE
    /\ UNCHANGED <<incT, recT, lastSet, nupd, nticks>>

Next ==
    \/ \E k \in CKeys : Inc(k)
    \/ \E k \in GKeys : SetG(k, nupd + nticks + 1)
    \/ \E k \in HKeys : Rec(k)
    \/ Tick \/ Shutdown

Spec == Init /\ [][Next]_rvars

(***************************************************************************)
(* properties                                                               *)
(***************************************************************************)
Conservation == /\ \A k \in CKeys : cumC[k] + cnt[k] = incT[k]
                /\ \A k \in HKeys : cumH[k] + hst[k] = recT[k]
GaugesCurrent == fresh => \A k \in GKeys \cap reg : k \in DOMAIN lastG /\ lastG[k] = lastSet[k]
AllPublishedAtStop == phase = "stopped" =>
    /\ \A k \in CKeys : cumC[k] = incT[k]
    /\ \A k \in HKeys : cumH[k] = recT[k]
    /\ \A k \in GKeys \cap reg : k \in DOMAIN lastG /\ lastG[k] = lastSet[k]
ReporterInv == Conservation /\ GaugesCurrent /\ AllPublishedAtStop
\* nothing is appended once the reporter has stopped
StopIsFinal == [][phase = "stopped" => UNCHANGED <<cumC, cumH, lastG, npub>>]_rvars
=============================================================================
