CONSTANTS
  Users = {"t1", "t2"}
  Workers = {}
  Runtimes = {"r1", "r2"}
  Sources = {"m1", "tk", "st"}
  Static = {"st"}
  TLVals = {"m1"}
  RtVals = {"tk"}
  XVals = {"st"}
  MaxGuards = 1
  MaxEnter = 1
  MaxClock = 1000
  MaxInst = 2
  Deltas = {1}
  Actors = {"t1"}
  Ops = {"Set", "Drop", "Enter", "RtInstall", "Take", "Advance"}
  Depth = 4
  Bug = "none"
SPECIFICATION RSpec
INVARIANTS Emit
CHECK_DEADLOCK FALSE
