\* routing state machine, every history: 2 threads, 2 runtimes, 3 sinks, 1 entry (MC_gs.cfg: 3 entries)
CONSTANTS
  Threads = {1, 2}
  Runtimes = {1, 2}
  MaxSinks = 3
  MaxEntries = 1
SPECIFICATION Spec
INVARIANT Inv
PROPERTY Routed
PROPERTY PanicUnchanged
PROPERTY FallsBack
PROPERTY DetachFlushes
CHECK_DEADLOCK FALSE
