\* quick B: request 1 hands a flush guard / slot guard (wait or discard) to a sub-task, request 2 is direct; one flush request
CONSTANTS
  Plan <- Plan11
  ModesOf <- SubFirst
  NFlush = 1
  EarlyClose = FALSE
SPECIFICATION Spec
INVARIANTS SvcInv AtEnd
PROPERTY SilentAfterDetach
CHECK_DEADLOCK FALSE
