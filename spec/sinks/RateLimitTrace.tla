--------------------------- MODULE RateLimitTrace ---------------------------
(***************************************************************************)
(* Trace validation for X02 (c).  rate_limited! is pub(crate); its only     *)
(* observable call site is the background queue's in-band report of a       *)
(* validation error (no tracing subscriber installed): the writer thread    *)
(* hands a failing entry to the stream (Fail, stamped by the stream with    *)
(* wall-clock ms), makes one attempt of RateLimit (sample, load,            *)
(* compare-exchange) and, if that calls, hands a report entry to the        *)
(* stream (Report, stamped).  All events are logged by the writer thread,   *)
(* so an attempt's sample lies between the stamp of its Fail and the stamp  *)
(* of the next event.  TLC searches for an epoch E (the first attempt of    *)
(* the process defines it) and for the second each attempt was sampled in   *)
(* (within those bounds) such that RateLimit produces exactly the recorded  *)
(* reports: a report where the model must skip, or no report where it must  *)
(* call, is a rejection.  No slack is needed: every bound is an order       *)
(* between events of one thread on one monotonic clock.                     *)
(***************************************************************************)
EXTENDS RateLimit, Json, IOUtils

Rec == ndJsonDeserialize(IOEnv.TRACE)
N == Len(Rec)

VARIABLES l, epoch, nc
tvars == <<vars, l, epoch, nc>>

Ev(name) == l <= N /\ Rec[l].ev = name
HasNext == l + 1 <= N
NextIsReport == HasNext /\ Rec[l + 1].ev = "Report"
\* stamps are truncated to ms: the next event happened before (its stamp + 1)
Upper == IF HasNext THEN Rec[l + 1].ms + 1 ELSE Rec[l].ms + 1

\* the variables of RateLimit are not used: the attempt is atomic here (one caller); its operators are
TInit == Init /\ l = 1 /\ epoch = -1 /\ nc = 0 /\ TLCSet(1, 1)

TPlain == (Ev("Scenario") \/ Ev("Pass") \/ Ev("End")) /\ l' = l + 1 /\ UNCHANGED <<epoch, nc>>

Attempt(sampleTicks) ==
    IF Allowed(nc, sampleTicks)
      THEN NextIsReport /\ nc' = NewNext(sampleTicks) /\ l' = l + 2
      ELSE ~NextIsReport /\ nc' = nc /\ l' = l + 1

\* the first attempt of the process: its sample is the epoch
TFirst == /\ Ev("Fail") /\ epoch = -1
          /\ \E e \in Rec[l].ms..Upper : epoch' = e
          /\ Attempt(0)

TFail == /\ Ev("Fail") /\ epoch # -1 /\ epoch' = epoch
         /\ LET lo == IF Rec[l].ms > epoch THEN Rec[l].ms - epoch ELSE 0
                hi == IF Upper > epoch THEN Upper - epoch ELSE 0
            IN \E sec \in SecsOf(lo)..SecsOf(hi) :
                  \* any sample inside that second and inside [lo, hi] has this effect
                  Attempt(IF sec * TicksPerSec > lo THEN sec * TicksPerSec ELSE lo)

TNext == (TPlain \/ TFirst \/ TFail) /\ UNCHANGED vars
TSpec == TInit /\ [][TNext]_tvars

Track == /\ IF l > TLCGet(1) THEN TLCSet(1, l) /\ TLCSet(2, <<epoch, nc>>) ELSE TRUE
         /\ IF l = N + 1 THEN TLCSet("exit", TRUE) ELSE TRUE
Accepted == IF TLCGet(1) = N + 1 THEN PrintT(<<"ACCEPTED", N>>)
            ELSE /\ PrintT(<<"REJECTED", TLCGet(1), ToJson(Rec[TLCGet(1)]), TLCGet(2)>>)
                 /\ FALSE
=============================================================================
