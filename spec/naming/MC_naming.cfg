\* thorough model checking: every root-to-leaf path (Leaf / TagLeaf steps included) through struct trees of
\* depth <= 3, entry enums at the root (children below the enum restricted to 4 container variants) and entry
\* enums flattened into a struct root; sanity invariants on every state
CONSTANTS
  MaxDepth = 3
  Families = {"struct", "enumroot", "enumnested"}
  ChildRAs = {"none", "kebab"}
  ChildPKs = {"none", "exact"}
  NestRootPKs = {"none"}
  DeepRAs = {"none", "pascal", "snake", "kebab"}
  DeepPKs = {"none", "infl", "exact"}
SPECIFICATION Spec
INVARIANT Sanity
CHECK_DEADLOCK FALSE
