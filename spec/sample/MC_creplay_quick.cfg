CONSTANTS
  Groups = {1, 2, 3}
  Vols = {0, 2, 12}
  MaxIntervals = 3
  Targets = {6}
  Ttl = 8
  Depth = 3
  OnlyEnds = FALSE
  SortFirst = TRUE
SPECIFICATION RSpec
INVARIANT Emit
INVARIANT CInv
CONSTRAINT Bound
CHECK_DEADLOCK FALSE
