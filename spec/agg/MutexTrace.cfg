SPECIFICATION TSpec
CONSTRAINT Track
INVARIANT MAbsInv
POSTCONDITION Accepted
CHECK_DEADLOCK FALSE
