//! C20 driver: the metrics.rs bridge (metrique-metricsrs) under concurrent updates and readouts.
//!
//!   mb record --out trace.ndjson --meta meta.ndjson --runs N --seed S [--only id] [--repeat n]
//!       free-running runs: 2-8 updater threads through the `metrics` 0.24 macros under
//!       `with_local_recorder`, one reader thread calling `MetricRecorder::readout()` in a loop and
//!       replaying every readout entry into a recording `EntryWriter`.  Events (call start / call end
//!       of every batch of updates, readout start / end with every written item) go to the global
//!       trace log; the trace is validated by TLC against spec/bridge/MetricsBridgeTrace.tla.
//!   mb seq --behaviours f.ndjson --out o.ndjson
//!       sequential behaviours of spec/bridge/BridgeNaming.tla (describe / first use / readout
//!       orders) stepped through a fresh recorder; prints the items of every readout.

use metrics_024 as metrics;
use metrique_metricsrs::{MetricAccumulatorEntry, MetricRecorder};
use metrique_writer_core::{Entry, EntryConfig, EntryWriter, MetricFlags, Observation, Unit, ValidationError, Value, ValueWriter};
use rand::Rng;
use rand::seq::IndexedRandom;
use serde_json::{Value as J, json};
use std::borrow::Cow;
use std::collections::HashMap;
use std::io::Write;
use std::sync::atomic::{AtomicBool, AtomicUsize, Ordering};
use std::sync::{Arc, Barrier};
use std::time::SystemTime;
use vharness::{trace, util};

type Recorder = MetricRecorder<dyn metrics::Recorder>;

// ------------------------------------------------------------------------------------------
// recording EntryWriter
// ------------------------------------------------------------------------------------------
#[derive(Debug, Clone)]
struct Item {
    kind: &'static str,
    name: String,
    dims: Vec<(String, String)>,
    unit: String,
    v: i64,
    /// histogram buckets: (total, occurrences) as written
    obs: Vec<(f64, u64)>,
}

impl Item {
    fn json(&self) -> J {
        json!({"kind": self.kind, "name": self.name,
               "dims": self.dims.iter().map(|(k, v)| json!([k, v])).collect::<Vec<_>>(),
               "unit": self.unit, "v": self.v,
               "obs": self.obs.iter().map(|(t, o)| obs_json(*t, *o)).collect::<Vec<_>>()})
    }
}

/// One histogram bucket as [lo, hi, lok, hik, occurrences]: lo / hi = floor / ceiling of the mean
/// total / occurrences (-1 if it does not fit TLC's 32-bit integers, -2 if the total is not a
/// non-negative finite number), lok / hik = the same means in units of 1024.
fn obs_json(total: f64, occ: u64) -> J {
    let occ_i = occ.min(2_000_000_000) as i64;
    if occ == 0 {
        return json!([0, 0, 0, 0, 0]);
    }
    if !total.is_finite() || total < 0.0 {
        return json!([-2, -2, -2, -2, occ_i]);
    }
    let mean = total / occ as f64;
    let (lo, hi) = (mean.floor(), mean.ceil());
    let small = |x: f64| if x < 2_147_483_647.0 { x as i64 } else { -1 };
    let k = |x: f64| ((x / 1024.0).floor()).min(2_000_000_000.0) as i64;
    json!([small(lo), small(hi), k(lo), k(hi), occ_i])
}

#[derive(Default)]
struct RecWriter {
    items: Vec<Item>,
    timestamps: u32,
    /// Debug rendering of every EntryConfig passed to the writer
    configs: Vec<String>,
}

struct ItemWriter<'w> {
    name: String,
    out: &'w mut Vec<Item>,
}

fn as_small_int(f: f64) -> i64 {
    if f.fract() == 0.0 && f.abs() < 2e9 { f as i64 } else { -1 }
}

impl ValueWriter for ItemWriter<'_> {
    fn string(self, value: &str) {
        self.out.push(Item { kind: "string", name: self.name, dims: vec![], unit: value.to_string(), v: 0, obs: vec![] });
    }
    fn metric<'a>(
        self,
        distribution: impl IntoIterator<Item = Observation>,
        unit: Unit,
        dimensions: impl IntoIterator<Item = (&'a str, &'a str)>,
        _flags: MetricFlags<'_>,
    ) {
        let obs: Vec<Observation> = distribution.into_iter().collect();
        let dims = dimensions.into_iter().map(|(k, v)| (k.to_string(), v.to_string())).collect();
        let mut item = Item { kind: "h", name: self.name, dims, unit: unit.name().to_string(), v: 0, obs: vec![] };
        match obs.as_slice() {
            [Observation::Unsigned(u)] => {
                item.kind = "c";
                item.v = if *u < 2_000_000_000 { *u as i64 } else { -1 };
            }
            [Observation::Floating(f)] => {
                item.kind = "g";
                item.v = as_small_int(*f);
            }
            all => {
                for o in all {
                    match o {
                        Observation::Repeated { total, occurrences } => {
                            item.obs.push((*total, *occurrences))
                        }
                        // anything else in a multi-observation value is not a histogram bucket
                        _ => item.kind = "mixed",
                    }
                }
            }
        }
        self.out.push(item);
    }
    fn error(self, error: ValidationError) {
        self.out.push(Item { kind: "error", name: self.name, dims: vec![], unit: format!("{error}"), v: 0, obs: vec![] });
    }
}

impl<'a> EntryWriter<'a> for RecWriter {
    fn timestamp(&mut self, _timestamp: SystemTime) {
        self.timestamps += 1;
    }
    fn value(&mut self, name: impl Into<Cow<'a, str>>, value: &(impl Value + ?Sized)) {
        let name = name.into().into_owned();
        value.write(ItemWriter { name, out: &mut self.items });
    }
    fn config(&mut self, config: &'a dyn EntryConfig) {
        self.configs.push(format!("{config:?}"));
    }
}

/// The documented way to nest a readout in a parent entry is `remove_timestamp()`: apart from the
/// timestamp the nested readout must write exactly what the stand-alone one writes (items and entry
/// configuration), and a real EMF formatter must accept it. Returns a description of what differs.
fn nested_differs(mut e: MetricAccumulatorEntry<dyn metrics::Recorder>) -> Option<String> {
    use metrique_writer_core::format::Format;
    let emf_err = |entry: &MetricAccumulatorEntry<dyn metrics::Recorder>| {
        let mut emf = metrique_writer_format_emf::Emf::all_validations("VerifNS".to_string(), vec![vec![]]);
        let mut out = Vec::new();
        emf.format(entry, &mut out).err().map(|err| format!("{err}"))
    };
    let render = |w: &RecWriter| w.items.iter().map(|i| i.json().to_string()).collect::<Vec<_>>();
    let mut plain = RecWriter::default();
    e.write(&mut plain);
    let (plain_items, plain_configs, plain_ts) = (render(&plain), plain.configs.clone(), plain.timestamps);
    drop(plain);
    // (if EMF does not take the stand-alone readout either - for reasons of its own - there is nothing to compare)
    let standalone_ok = emf_err(&e).is_none();
    e.remove_timestamp();
    let mut nested = RecWriter::default();
    e.write(&mut nested);
    if plain_ts != 1 || nested.timestamps != 0 {
        return Some(format!("timestamps written: stand-alone {plain_ts}, after remove_timestamp() {}", nested.timestamps));
    }
    if plain_items != render(&nested) {
        return Some(format!("items differ after remove_timestamp(): {plain_items:?} vs {:?}", render(&nested)));
    }
    if plain_configs != nested.configs {
        return Some(format!("entry configuration differs after remove_timestamp(): {plain_configs:?} vs {:?}", nested.configs));
    }
    drop(nested);
    if !standalone_ok {
        return None;
    }
    if let Some(err) = emf_err(&e) {
        return Some(format!("EMF rejects the readout after remove_timestamp() (nothing is written for this interval): {err}"));
    }
    None
}

fn replay_entry(e: &impl Entry) -> Vec<Item> {
    let mut w = RecWriter::default();
    e.write(&mut w);
    w.items
}

// ------------------------------------------------------------------------------------------
// keys, units, updates through the macros
// ------------------------------------------------------------------------------------------
#[derive(Debug, Clone)]
struct KeyDef {
    kind: char,
    name: String,
    labels: Vec<(String, String)>,
}

impl KeyDef {
    fn json(&self) -> J {
        json!({"kind": self.kind.to_string(), "name": self.name,
               "labels": self.labels.iter().map(|(k, v)| json!([k, v])).collect::<Vec<_>>()})
    }
}

const UNITS: &[(metrics::Unit, &str)] = &[
    (metrics::Unit::Count, "Count"),
    (metrics::Unit::Percent, "Percent"),
    (metrics::Unit::Seconds, "Seconds"),
    (metrics::Unit::Milliseconds, "Milliseconds"),
    (metrics::Unit::Microseconds, "Microseconds"),
    (metrics::Unit::Nanoseconds, "Nanoseconds"),
    (metrics::Unit::Tebibytes, "Tebibytes"),
    (metrics::Unit::Gibibytes, "Gibibytes"),
    (metrics::Unit::Mebibytes, "Mebibytes"),
    (metrics::Unit::Kibibytes, "Kibibytes"),
    (metrics::Unit::Bytes, "Bytes"),
    (metrics::Unit::TerabitsPerSecond, "TerabitsPerSecond"),
    (metrics::Unit::GigabitsPerSecond, "GigabitsPerSecond"),
    (metrics::Unit::MegabitsPerSecond, "MegabitsPerSecond"),
    (metrics::Unit::KilobitsPerSecond, "KilobitsPerSecond"),
    (metrics::Unit::BitsPerSecond, "BitsPerSecond"),
    (metrics::Unit::CountPerSecond, "CountPerSecond"),
];

fn unit_by_name(n: &str) -> metrics::Unit {
    UNITS.iter().find(|(_, s)| *s == n).unwrap_or_else(|| panic!("tool: unknown unit {n}")).0
}

fn describe(kind: char, name: &str, unit: metrics::Unit) {
    let name = name.to_string();
    match kind {
        'c' => metrics::describe_counter!(name, unit, "described by the harness"),
        'g' => metrics::describe_gauge!(name, unit, "described by the harness"),
        _ => metrics::describe_histogram!(name, unit, "described by the harness"),
    }
}

fn inc(k: &KeyDef, d: u64, reps: u32, hoist: bool) {
    if hoist {
        let c = metrics::counter!(k.name.clone(), &k.labels);
        for _ in 0..reps {
            c.increment(d);
        }
    } else {
        for _ in 0..reps {
            metrics::counter!(k.name.clone(), &k.labels).increment(d);
        }
    }
}

/// `reps` observations of `v` through the batched API Histogram::record_many
fn record_many(k: &KeyDef, v: f64, reps: u32) {
    metrics::histogram!(k.name.clone(), &k.labels).record_many(v, reps as usize);
}

fn record(k: &KeyDef, v: f64, reps: u32, hoist: bool) {
    if hoist {
        let h = metrics::histogram!(k.name.clone(), &k.labels);
        for _ in 0..reps {
            h.record(v);
        }
    } else {
        for _ in 0..reps {
            metrics::histogram!(k.name.clone(), &k.labels).record(v);
        }
    }
}

fn set(k: &KeyDef, v: i64) {
    metrics::gauge!(k.name.clone(), &k.labels).set(v as f64);
}

// ------------------------------------------------------------------------------------------
// record: free-running concurrent runs
// ------------------------------------------------------------------------------------------
#[derive(Debug, Clone)]
enum Op {
    Inc { k: usize, d: u64, reps: u32, hoist: bool },
    /// `reps` samples of value `v`, which belongs to value class `c`
    Rec { k: usize, c: usize, v: f64, reps: u32, hoist: bool, many: bool },
    Set { k: usize, v: i64 },
    Desc { k: usize, unit: usize },
}

/// values recorded into histograms: far enough apart that every reported bucket value is within
/// 1/16 of exactly one of them (the spec's value classes)
/// (value, unit): the trace carries the value in that unit (TLC has 32-bit integers: values from
/// 2^31 on are given in units of 1024). The last class is u32::MAX: larger values are documented to
/// be capped to it.
const CLASSES: &[(u64, u64)] =
    &[(0, 1), (3, 1), (100, 1), (1000, 1), (5000, 1), (70_000, 1), (1_000_000, 1), (2_147_483_648, 1024), (4_294_967_295, 1024)];

struct Plan {
    emit_zero: bool,
    keys: Vec<KeyDef>,
    before: Vec<(usize, usize)>, // (key, unit) described before any use
    scripts: Vec<Vec<Op>>,
    pace: u32,
    max_readouts: u32,
    /// idle counters registered before the run (never incremented): they make the reader's walk
    /// over the registry long
    filler: u32,
}

fn plan(seed: u64) -> Plan {
    let mut r = util::rng(seed);
    let label_sets: Vec<Vec<(String, String)>> = vec![
        vec![],
        vec![("op".into(), "get".into())],
        vec![("op".into(), "put".into())],
        vec![("op".into(), "get".into()), ("az".into(), "use1-az1".into())],
        vec![("az".into(), "use1-az1".into()), ("op".into(), "get".into())],
        vec![("k".into(), "".into())],
        vec![("Weird Key/1".into(), "va lue\"x".into())],
    ];
    let mut keys = Vec::new();
    let names: [(&[&str], char); 3] = [
        (&["requests", "errors.count", "Bytes_In"], 'c'),
        (&["queue_depth", "temperature"], 'g'),
        (&["latency", "size.bytes"], 'h'),
    ];
    for (pool, kind) in names {
        let n_names = r.random_range(1..=pool.len().min(2));
        let mut pool: Vec<&str> = pool.to_vec();
        for _ in 0..n_names {
            let name = pool.remove(r.random_range(0..pool.len()));
            // one or two label sets under the same name: different keys
            let n_sets = if r.random_bool(0.5) { 2 } else { 1 };
            let mut sets = label_sets.clone();
            for _ in 0..n_sets {
                let labels = sets.remove(r.random_range(0..sets.len()));
                // the same label *set* in another order is the same key for metrics.rs: keep one
                if labels.len() == 2 {
                    sets.retain(|s| s.len() != 2 || s.iter().any(|p| !labels.contains(p)));
                }
                keys.push(KeyDef { kind, name: name.to_string(), labels });
            }
        }
    }
    let threads = r.random_range(2..=8usize);
    let nops = r.random_range(6..=24usize);
    let ckeys: Vec<usize> = (0..keys.len()).filter(|i| keys[*i].kind == 'c').collect();
    let gkeys: Vec<usize> = (0..keys.len()).filter(|i| keys[*i].kind == 'g').collect();
    let hkeys: Vec<usize> = (0..keys.len()).filter(|i| keys[*i].kind == 'h').collect();
    let hot = ckeys[0];
    let hot_h = hkeys[0];
    // names are described: never / before the first use / at some point while in use
    let mut before = Vec::new();
    let mut names_seen: Vec<String> = Vec::new();
    let mut later: Vec<(usize, usize)> = Vec::new();
    for (i, k) in keys.iter().enumerate() {
        if names_seen.contains(&k.name) {
            continue;
        }
        names_seen.push(k.name.clone());
        match r.random_range(0..4) {
            0 => {}
            1 => before.push((i, r.random_range(0..UNITS.len()))),
            2 => later.push((i, r.random_range(0..UNITS.len()))),
            _ => {
                before.push((i, r.random_range(0..UNITS.len())));
                later.push((i, r.random_range(0..UNITS.len())));
            }
        }
    }
    let mut scripts = Vec::new();
    let mut gv = 0i64;
    for t in 0..threads {
        let mut s = Vec::new();
        for i in 0..nops {
            let hoist = r.random_bool(0.7);
            let x = r.random_range(0..100);
            let op = if x < 55 {
                let k = if r.random_bool(0.6) { hot } else { *ckeys.choose(&mut r).unwrap() };
                Op::Inc { k, d: *[1u64, 1, 2, 3, 7].choose(&mut r).unwrap(), reps: r.random_range(1..=20000), hoist }
            } else if x < 80 {
                let k = if r.random_bool(0.6) { hot_h } else { *hkeys.choose(&mut r).unwrap() };
                let c = r.random_range(0..CLASSES.len());
                let base = CLASSES[c].0;
                let mut v = if (100..4_000_000_000).contains(&base) && r.random_bool(0.3) { base + 1 } else { base } as f64;
                if c == CLASSES.len() - 1 && r.random_bool(0.5) {
                    v = *[1e12, 4_294_967_296.0, f64::MAX].choose(&mut r).unwrap(); // capped to u32::MAX
                }
                // many samples of one value within one readout interval (value x count crosses 2^32)
                let reps = if r.random_bool(0.3) { r.random_range(4000..=7000) } else { r.random_range(1..=500) };
                Op::Rec { k, c, v, reps, hoist, many: r.random_bool(0.3) }
            } else {
                gv += 1;
                // values are unique per call, except that thread 0 sometimes sets a gauge back to 0.0
                // (never two such sets in flight at once)
                let v = if t == 0 && r.random_bool(0.25) { 0 } else { (t as i64 + 1) * 100_000 + i as i64 * 10 + gv % 10 };
                Op::Set { k: *gkeys.choose(&mut r).unwrap(), v }
            };
            s.push(op);
        }
        scripts.push(s);
    }
    // new metrics introduced while the run is going on: a fresh counter name is described, then
    // registered and incremented for the first time, somewhere in the middle of a thread's script
    let emit_zero = r.random_bool(0.4);
    let mut fresh = 0;
    for t in 0..threads {
        for _ in 0..r.random_range(2..=5) {
            fresh += 1;
            keys.push(KeyDef { kind: 'c', name: format!("fresh.counter_{fresh}"), labels: if r.random_bool(0.5) { vec![] } else { vec![("op".into(), "new".into())] } });
            let k = keys.len() - 1;
            let at = r.random_range(0..=scripts[t].len());
            scripts[t].insert(at, Op::Inc { k, d: 1, reps: r.random_range(1..=50), hoist: false });
            scripts[t].insert(at, Op::Desc { k, unit: r.random_range(0..UNITS.len()) });
        }
    }
    // descriptions while the name is in use: somewhere in the middle of some thread's script
    for (k, u) in later {
        let t = r.random_range(0..threads);
        let at = r.random_range(1..=scripts[t].len());
        scripts[t].insert(at, Op::Desc { k, unit: u });
    }
    Plan {
        emit_zero,
        // (zero-valued fillers would be listed in every readout with emit_zero_counters)
        filler: if emit_zero { 0 } else { *[0u32, 500, 3000, 10_000].choose(&mut r).unwrap() },
        keys,
        before,
        scripts,
        pace: *[0u32, 50, 500, 5000].choose(&mut r).unwrap(),
        max_readouts: r.random_range(20..=120),
    }
}

fn run_one(run: u64, seed: u64) -> (Vec<J>, J) {
    let p = plan(seed);
    let _ = trace::take();
    let rec: Recorder = MetricRecorder::new_with_emit_zero_counters(p.emit_zero);
    let keys = Arc::new(p.keys.clone());
    trace::ev(json!({"ev": "Reset", "run": run, "emit_zero": p.emit_zero,
                     "classes": CLASSES.iter().map(|(v, u)| json!([v / u, u])).collect::<Vec<_>>(), "keys": keys.iter().map(|k| k.json()).collect::<Vec<_>>()}));
    metrics::with_local_recorder(&rec, || {
        for i in 0..p.filler {
            let _ = metrics::counter!(format!("idle.filler_{i}"));
        }
        for (k, u) in &p.before {
            let kd = &keys[*k];
            trace::ev(json!({"ev": "DescStart", "name": kd.name, "unit": UNITS[*u].1}));
            describe(kd.kind, &kd.name, UNITS[*u].0.clone());
            trace::ev(json!({"ev": "DescEnd", "name": kd.name, "unit": UNITS[*u].1}));
        }
    });
    let nthreads = p.scripts.len();
    let barrier = Arc::new(Barrier::new(nthreads + 1));
    let done = Arc::new(AtomicUsize::new(0));
    // batches finished so far, over all updaters: the reader spreads its readouts over this progress
    // (on a loaded machine it would otherwise use them up before the updaters are even scheduled)
    let progress = Arc::new(AtomicUsize::new(0));
    let total_batches: usize = p.scripts.iter().map(|s| s.len()).sum();
    let panicked = Arc::new(AtomicBool::new(false));
    let mut handles = Vec::new();
    let mut total_updates = 0u64;
    for (t, script) in p.scripts.iter().cloned().enumerate() {
        for op in &script {
            match op {
                Op::Inc { reps, .. } | Op::Rec { reps, .. } => total_updates += *reps as u64,
                _ => total_updates += 1,
            }
        }
        let rec = rec.clone();
        let keys = keys.clone();
        let barrier = barrier.clone();
        let done = done.clone();
        let progress = progress.clone();
        let panicked = panicked.clone();
        handles.push(std::thread::spawn(move || {
            barrier.wait();
            let r = util::catch(|| {
                metrics::with_local_recorder(&rec, || {
                    for op in &script {
                        match op {
                            Op::Inc { k, d, reps, hoist } => {
                                let n = *d as i64 * *reps as i64;
                                trace::ev(json!({"ev": "IncStart", "t": t, "k": k + 1, "n": n}));
                                inc(&keys[*k], *d, *reps, *hoist);
                                trace::ev(json!({"ev": "IncEnd", "t": t, "k": k + 1, "n": n}));
                            }
                            Op::Rec { k, c, v, reps, hoist, many } => {
                                trace::ev(json!({"ev": "RecStart", "t": t, "k": k + 1, "c": c + 1, "v": format!("{v:e}"), "n": reps}));
                                if *many {
                                    record_many(&keys[*k], *v, *reps);
                                } else {
                                    record(&keys[*k], *v, *reps, *hoist);
                                }
                                trace::ev(json!({"ev": "RecEnd", "t": t, "k": k + 1, "c": c + 1, "v": format!("{v:e}"), "n": reps}));
                            }
                            Op::Set { k, v } => {
                                trace::ev(json!({"ev": "SetStart", "t": t, "k": k + 1, "v": v}));
                                set(&keys[*k], *v);
                                trace::ev(json!({"ev": "SetEnd", "t": t, "k": k + 1, "v": v}));
                            }
                            Op::Desc { k, unit } => {
                                let kd = &keys[*k];
                                trace::ev(json!({"ev": "DescStart", "name": kd.name, "unit": UNITS[*unit].1}));
                                describe(kd.kind, &kd.name, UNITS[*unit].0.clone());
                                trace::ev(json!({"ev": "DescEnd", "name": kd.name, "unit": UNITS[*unit].1}));
                            }
                        }
                        progress.fetch_add(1, Ordering::SeqCst);
                    }
                })
            });
            if r.is_err() {
                panicked.store(true, Ordering::SeqCst);
            }
            done.fetch_add(1, Ordering::SeqCst);
        }));
    }
    // the reader
    let reader = {
        let rec = rec.clone();
        let barrier = barrier.clone();
        let done = done.clone();
        let progress = progress.clone();
        let (pace, max_readouts) = (p.pace, p.max_readouts);
        let mut r = util::rng(seed ^ 0x5eed);
        std::thread::spawn(move || {
            barrier.wait();
            let mut n = 0u32;
            while done.load(Ordering::SeqCst) < nthreads {
                let allowed = ((progress.load(Ordering::SeqCst) + 1) * max_readouts as usize).div_ceil(total_batches.max(1));
                if (n as usize) < allowed.min(max_readouts as usize) {
                    readout(&rec, false);
                    n += 1;
                    let spins = if pace == 0 { 0 } else { r.random_range(0..pace) };
                    for _ in 0..spins {
                        std::hint::spin_loop();
                    }
                } else {
                    std::thread::yield_now();
                }
            }
            n
        })
    };
    for h in handles {
        h.join().unwrap();
    }
    let concurrent_readouts = reader.join().unwrap();
    // everything has returned: one more readout must report the rest
    readout(&rec, true);
    let events = trace::take();
    let meta = json!({"run": run, "seed": seed, "threads": nthreads, "keys": p.keys.len(), "emit_zero": p.emit_zero,
                      "updates": total_updates, "concurrent_readouts": concurrent_readouts, "pace": p.pace, "filler": p.filler,
                      "events": events.len(), "panicked": panicked.load(Ordering::SeqCst)});
    (events, meta)
}

fn readout(rec: &Recorder, last: bool) {
    trace::ev(json!({"ev": "ReadoutStart"}));
    let items = match util::catch(|| replay_entry(&rec.readout())) {
        Ok(items) => items.iter().map(|i| i.json()).collect::<Vec<_>>(),
        // a panic of the readout is data: an item that no rule accepts
        Err(p) => vec![json!({"kind": "panic", "name": p, "dims": [], "unit": "", "v": 0, "obs": []})],
    };
    trace::ev(json!({"ev": "ReadoutEnd", "final": last, "items": items}));
}

fn cmd_record(a: &HashMap<String, String>) {
    let runs = util::arg_u64(a, "runs", 10);
    let seed = util::arg_u64(a, "seed", 1);
    let only = a.get("only").and_then(|s| s.parse::<u64>().ok());
    let repeat = util::arg_u64(a, "repeat", 1);
    let mut out = std::io::BufWriter::new(std::fs::File::create(util::arg_str(a, "out", "")).expect("create out"));
    let mut meta = std::io::BufWriter::new(std::fs::File::create(util::arg_str(a, "meta", "")).expect("create meta"));
    let mut line = 0usize;
    let mut id = 0u64;
    let list: Vec<u64> = match only {
        Some(o) => std::iter::repeat_n(o, repeat as usize).collect(),
        None => (1..=runs).collect(),
    };
    for run in list {
        id += 1;
        let (events, mut m) = run_one(run, seed.wrapping_mul(1_000_003).wrapping_add(run));
        trace::append_ndjson(&mut out, &events).unwrap();
        m["id"] = json!(id);
        m["first_line"] = json!(line + 1);
        m["last_line"] = json!(line + events.len());
        line += events.len();
        serde_json::to_writer(&mut meta, &m).unwrap();
        meta.write_all(b"\n").unwrap();
    }
    out.flush().unwrap();
    meta.flush().unwrap();
}

// ------------------------------------------------------------------------------------------
// seq: sequential behaviours of BridgeNaming.tla
// ------------------------------------------------------------------------------------------
fn cmd_seq(a: &HashMap<String, String>) {
    let behaviours = util::read_ndjson(util::arg_str(a, "behaviours", ""));
    let mut out = std::io::BufWriter::new(std::fs::File::create(util::arg_str(a, "out", "")).expect("create out"));
    for (id, b) in behaviours.iter().enumerate() {
        let emit_zero = b["emit_zero"].as_bool().unwrap();
        let keys: Vec<KeyDef> = b["keys"]
            .as_array()
            .unwrap()
            .iter()
            .map(|k| KeyDef {
                kind: k["kind"].as_str().unwrap().chars().next().unwrap(),
                name: k["name"].as_str().unwrap().to_string(),
                labels: k["labels"]
                    .as_array()
                    .unwrap()
                    .iter()
                    .map(|p| (p[0].as_str().unwrap().to_string(), p[1].as_str().unwrap().to_string()))
                    .collect(),
            })
            .collect();
        let rec: Recorder = MetricRecorder::new_with_emit_zero_counters(emit_zero);
        let mut readouts: Vec<J> = Vec::new();
        let mut nested: Vec<J> = Vec::new();
        let res = util::catch(|| {
            metrics::with_local_recorder(&rec, || {
                for st in b["steps"].as_array().unwrap() {
                    match st[0].as_str().unwrap() {
                        "Describe" => {
                            let name = st[1].as_str().unwrap();
                            let kind = keys.iter().find(|k| k.name == name).unwrap().kind;
                            describe(kind, name, unit_by_name(st[2].as_str().unwrap()));
                        }
                        "Touch" => {
                            let k = &keys[st[1].as_u64().unwrap() as usize - 1];
                            let amount = st[2].as_u64().unwrap();
                            match k.kind {
                                'c' => inc(k, amount, 1, id % 2 == 0),
                                'g' => {
                                    let g = metrics::gauge!(k.name.clone(), &k.labels);
                                    match st[3].as_str().unwrap_or("set") {
                                        "set" => g.set(amount as f64),
                                        "set0" => g.set(0.0),
                                        "setneg0" => g.set(-0.0),
                                        "inc" => g.increment(amount as f64),
                                        // decrement by the current value: back to exactly 0.0
                                        "dec0" => g.decrement(amount as f64),
                                        gop => panic!("tool: unknown gauge op {gop}"),
                                    }
                                }
                                _ => {
                                    let v = match st[3].as_str().unwrap_or("v100") {
                                        "v100" => 100.0,
                                        "v1e6" => 1_000_000.0,
                                        "v2e31" => 2_147_483_648.0,
                                        "vmax" => 4_294_967_295.0,
                                        "vhuge" => 1e12,
                                        sym => panic!("tool: unknown value symbol {sym}"),
                                    };
                                    let cnt = st[4].as_u64().unwrap_or(1) as u32;
                                    if st[5].as_str() == Some("many") {
                                        record_many(k, v, cnt)
                                    } else {
                                        record(k, v, cnt, id % 2 == 0)
                                    }
                                }
                            }
                        }
                        "Readout" => {
                            let entry = rec.readout();
                            let items = replay_entry(&entry);
                            readouts.push(J::Array(items.iter().map(|i| i.json()).collect()));
                            if let Some(d) = nested_differs(entry) {
                                nested.push(json!({"readout": readouts.len(), "what": d}));
                            }
                        }
                        op => panic!("tool: unknown op {op}"),
                    }
                }
            })
        });
        let row = match res {
            Ok(()) => json!({"id": id, "readouts": readouts, "nested": nested}),
            Err(p) if p.contains("tool:") => {
                eprintln!("tool error in behaviour {id}: {p}");
                std::process::exit(2);
            }
            Err(p) => json!({"id": id, "readouts": readouts, "panic": p}),
        };
        serde_json::to_writer(&mut out, &row).unwrap();
        out.write_all(b"\n").unwrap();
    }
    out.flush().unwrap();
}

// ------------------------------------------------------------------------------------------
// rep: histories of Reporter.tla through a real MetricReporter
// ------------------------------------------------------------------------------------------
use metrique_metricsrs::MetricReporter;
use metrique_writer_core::sink::FlushWait;
use metrique_writer_core::AnyEntrySink;
use std::sync::Mutex;
use std::time::{Duration, Instant};

#[derive(Clone)]
enum SinkEv {
    Entry(Vec<Item>),
    HandleDropped,
}

/// Recording destination: every appended entry is replayed into the recording EntryWriter.
#[derive(Clone, Default)]
struct RecSink(Arc<Mutex<Vec<SinkEv>>>);

impl AnyEntrySink for RecSink {
    fn append_any(&self, entry: impl Entry + Send + 'static) {
        let items = replay_entry(&entry);
        self.0.lock().unwrap().push(SinkEv::Entry(items));
    }
    fn flush_async(&self) -> FlushWait {
        FlushWait::ready()
    }
}

impl RecSink {
    fn entries(&self) -> usize {
        self.0.lock().unwrap().iter().filter(|e| matches!(e, SinkEv::Entry(_))).count()
    }
}

/// The shutdown handle given to `metrics_sink`: the reporter drops it when it has shut down.
struct DropMark(Arc<Mutex<Vec<SinkEv>>>);
impl Drop for DropMark {
    fn drop(&mut self) {
        self.0.lock().unwrap().push(SinkEv::HandleDropped);
    }
}

fn rep_keys() -> Vec<(&'static str, KeyDef)> {
    let l = |v: &[(&str, &str)]| v.iter().map(|(a, b)| (a.to_string(), b.to_string())).collect::<Vec<_>>();
    vec![
        ("c1", KeyDef { kind: 'c', name: "reqs".into(), labels: l(&[]) }),
        ("c2", KeyDef { kind: 'c', name: "reqs".into(), labels: l(&[("op", "get")]) }),
        ("g1", KeyDef { kind: 'g', name: "temp".into(), labels: l(&[("az", "1")]) }),
        ("h1", KeyDef { kind: 'h', name: "lat".into(), labels: l(&[("op", "get"), ("az", "1")]) }),
    ]
}

fn item_key(keys: &[(&'static str, KeyDef)], it: &Item) -> &'static str {
    keys.iter()
        .find(|(_, k)| k.kind.to_string() == it.kind && k.name == it.name && k.labels == it.dims)
        .map(|(id, _)| *id)
        .unwrap_or("?")
}

const STEP_BUDGET: Duration = Duration::from_secs(10);

fn replay_reporter(id: usize, b: &J, interval: Duration) -> J {
    let keys = rep_keys();
    let key = |id: &str| keys.iter().find(|(k, _)| *k == id).map(|(_, k)| k.clone()).unwrap_or_else(|| panic!("tool: key {id}"));
    let rt = tokio::runtime::Builder::new_current_thread().enable_time().build().expect("tool: runtime");
    let sink = RecSink::default();
    let (reporter, recorder) = {
        let _g = rt.enter();
        MetricReporter::builder()
            .emit_zero_counters(b["emit_zero"].as_bool().unwrap())
            .metrics_publish_interval(interval)
            .metrics_sink((sink.clone(), DropMark(sink.0.clone())))
            .metrics_rs_version::<dyn metrics::Recorder>()
            .build_without_installing()
    };
    let mut steps_out: Vec<J> = Vec::new();
    let mut seen = 0usize; // events of the sink already attributed to a step
    let mut problem: Option<String> = None;
    let take = |sink: &RecSink, seen: &mut usize| -> Vec<J> {
        let g = sink.0.lock().unwrap();
        let mut out = Vec::new();
        for e in &g[*seen..] {
            if let SinkEv::Entry(items) = e {
                out.push(J::Array(
                    items
                        .iter()
                        .map(|i| {
                            let mut j = i.json();
                            j["key"] = json!(item_key(&keys, i));
                            j
                        })
                        .collect(),
                ));
            }
        }
        *seen = g.len();
        out
    };
    for (i, st) in b["steps"].as_array().unwrap().iter().enumerate() {
        match st[0].as_str().unwrap() {
            "Inc" => metrics::with_local_recorder(&recorder, || inc(&key(st[1].as_str().unwrap()), st[2].as_u64().unwrap(), 1, id % 2 == 0)),
            "Set" => metrics::with_local_recorder(&recorder, || set(&key(st[1].as_str().unwrap()), st[2].as_i64().unwrap())),
            "Rec" => metrics::with_local_recorder(&recorder, || record(&key(st[1].as_str().unwrap()), 100.0, 1, id % 2 == 0)),
            "Tick" => {
                // let real time pass (only while the runtime is driven does the reporter task run)
                // until the reporter has published at least once more
                let n0 = sink.entries();
                let t0 = Instant::now();
                let ok = rt.block_on(async {
                    loop {
                        if sink.entries() > n0 {
                            return true;
                        }
                        if t0.elapsed() > STEP_BUDGET {
                            return false;
                        }
                        tokio::time::sleep(Duration::from_millis(1)).await;
                    }
                });
                if !ok {
                    problem = Some(format!("step {i}: nothing was published within {STEP_BUDGET:?} (interval {interval:?})"));
                }
                steps_out.push(json!({"step": i, "entries": take(&sink, &mut seen)}));
            }
            "Shutdown" => {
                let ok = rt.block_on(async { tokio::time::timeout(STEP_BUDGET, reporter.shutdown()).await.is_ok() });
                if !ok {
                    problem = Some(format!("step {i}: shutdown() did not complete within {STEP_BUDGET:?}"));
                }
                steps_out.push(json!({"step": i, "entries": take(&sink, &mut seen)}));
            }
            op => panic!("tool: unknown op {op}"),
        }
        if problem.is_some() {
            break;
        }
    }
    // after shutdown() has returned: the handle was released, nothing is appended any more
    let (handle_dropped, after_drop) = {
        let g = sink.0.lock().unwrap();
        let pos = g.iter().position(|e| matches!(e, SinkEv::HandleDropped));
        (pos.is_some(), pos.map(|p| g.len() - p - 1).unwrap_or(0))
    };
    let mut late = 0usize;
    if id % 16 == 0 && problem.is_none() {
        let n0 = sink.entries();
        rt.block_on(async { tokio::time::sleep(interval * 3).await });
        late = sink.entries() - n0;
    }
    json!({"id": id, "steps": steps_out, "handle_dropped": handle_dropped, "appended_after_handle_drop": after_drop,
           "appended_after_shutdown": late, "waited_after_shutdown": id % 16 == 0, "problem": problem})
}

fn cmd_rep(a: &HashMap<String, String>) {
    let behaviours = Arc::new(util::read_ndjson(util::arg_str(a, "behaviours", "")));
    let threads = util::arg_u64(a, "threads", 8) as usize;
    let interval = Duration::from_millis(util::arg_u64(a, "interval-ms", 8));
    let next = Arc::new(AtomicUsize::new(0));
    let results: Arc<Mutex<Vec<(usize, J)>>> = Arc::new(Mutex::new(Vec::new()));
    let mut hs = Vec::new();
    for _ in 0..threads {
        let (behaviours, next, results) = (behaviours.clone(), next.clone(), results.clone());
        hs.push(std::thread::spawn(move || loop {
            let id = next.fetch_add(1, Ordering::SeqCst);
            if id >= behaviours.len() {
                break;
            }
            let row = match util::catch(|| replay_reporter(id, &behaviours[id], interval)) {
                Ok(r) => r,
                Err(p) if p.contains("tool:") => {
                    eprintln!("tool error in behaviour {id}: {p}");
                    std::process::exit(2);
                }
                Err(p) => json!({"id": id, "steps": [], "problem": format!("panic: {p}")}),
            };
            results.lock().unwrap().push((id, row));
        }));
    }
    for h in hs {
        h.join().unwrap();
    }
    let mut rows = std::mem::take(&mut *results.lock().unwrap());
    rows.sort_by_key(|(id, _)| *id);
    let mut out = std::io::BufWriter::new(std::fs::File::create(util::arg_str(a, "out", "")).expect("create out"));
    for (_, r) in rows {
        serde_json::to_writer(&mut out, &r).unwrap();
        out.write_all(b"\n").unwrap();
    }
    out.flush().unwrap();
}

// ------------------------------------------------------------------------------------------
// lonely: one record racing a readout loop, with no later record on the key before it is checked
// ------------------------------------------------------------------------------------------
/// Many cheap rounds: the updater records k samples on one histogram key at a random phase of a
/// reader thread that reads out in a loop, then waits until two more readouts that started after
/// the record returned have finished - without touching the key again. By then every sample must
/// have been reported (BridgeObs: samples ended before a readout starts <= cumulative reported).
/// Rounds that satisfy this are logged summed up (count form); the first round that does not is
/// logged on its own, and the batch ends there. The trace is validated by MetricsBridgeTrace.tla.
fn lonely_batch(batch: u64, seed: u64, rounds: u64) -> (Vec<J>, J) {
    use std::sync::atomic::AtomicU64;
    let _ = trace::take();
    let rec: Recorder = MetricRecorder::new();
    let key = KeyDef { kind: 'h', name: "lonely.latency".into(), labels: vec![("batch".into(), batch.to_string())] };
    let class = 1usize; // CLASSES[1] = 3: an early bucket, reached by the drain right after its first step
    let value = CLASSES[class].0 as f64;
    trace::ev(json!({"ev": "Reset", "run": batch, "emit_zero": false,
                     "classes": CLASSES.iter().map(|(v, u)| json!([v / u, u])).collect::<Vec<_>>(), "keys": [key.json()]}));
    let started = Arc::new(AtomicU64::new(0));
    let done = Arc::new(AtomicU64::new(0));
    let reported = Arc::new(AtomicU64::new(0));
    let stop = Arc::new(AtomicBool::new(false));
    // anything a readout wrote that is not "n samples of the key in a bucket of mean `value`"
    let odd: Arc<std::sync::Mutex<Vec<J>>> = Arc::new(std::sync::Mutex::new(Vec::new()));
    let reader = {
        let (rec, started, done, reported, stop, odd, key) =
            (rec.clone(), started.clone(), done.clone(), reported.clone(), stop.clone(), odd.clone(), key.clone());
        std::thread::spawn(move || {
            while !stop.load(Ordering::SeqCst) {
                started.fetch_add(1, Ordering::SeqCst);
                let items = match util::catch(|| replay_entry(&rec.readout())) {
                    Ok(i) => i,
                    Err(p) => {
                        odd.lock().unwrap().push(json!({"kind": "panic", "name": p, "dims": [], "unit": "", "v": 0, "obs": []}));
                        vec![]
                    }
                };
                let mut n = 0u64;
                for it in &items {
                    let plain = it.kind == "h" && it.name == key.name && it.dims == key.labels && it.unit == "None"
                        && it.obs.iter().all(|(t, o)| *o == 0 || *t == value * *o as f64);
                    if plain {
                        n += it.obs.iter().map(|(_, o)| *o).sum::<u64>();
                    } else {
                        odd.lock().unwrap().push(it.json());
                    }
                }
                reported.fetch_add(n, Ordering::SeqCst);
                done.fetch_add(1, Ordering::SeqCst);
            }
        })
    };
    let item = |n: u64| {
        json!({"kind": "h", "name": key.name, "dims": key.labels.iter().map(|(k, v)| json!([k, v])).collect::<Vec<_>>(),
               "unit": "None", "v": 0, "obs": [obs_json(value * n as f64, n)]})
    };
    let mut r = util::rng(seed);
    let mut recorded = 0u64; // total recorded
    let mut logged = 0u64; // recorded and reported totals already in the log (equal by construction)
    let mut rounds_done = 0u64;
    let mut failed: Option<u64> = None;
    metrics::with_local_recorder(&rec, || {
        let h = metrics::histogram!(key.name.clone(), &key.labels);
        for round in 1..=rounds {
            for _ in 0..r.random_range(0..512u32) {
                std::hint::spin_loop();
            }
            let k = if r.random_bool(0.9) { 1 } else { r.random_range(2..=3u64) };
            for _ in 0..k {
                h.record(value);
            }
            recorded += k;
            // two readouts that started after the record returned must have finished
            let s = started.load(Ordering::SeqCst);
            let t0 = std::time::Instant::now();
            while done.load(Ordering::SeqCst) < s + 2 {
                std::hint::spin_loop();
                if t0.elapsed().as_secs() > 20 {
                    panic!("tool: the reader thread makes no progress");
                }
            }
            rounds_done = round;
            let rep = reported.load(Ordering::SeqCst);
            let has_odd = !odd.lock().unwrap().is_empty();
            if rep != recorded || has_odd {
                // the agreeing rounds so far, summed up
                let ok = recorded - k - logged;
                if ok > 0 {
                    trace::ev(json!({"ev": "RecStart", "t": 0, "k": 1, "c": class + 1, "v": "3e0", "n": ok}));
                    trace::ev(json!({"ev": "RecEnd", "t": 0, "k": 1, "c": class + 1, "v": "3e0", "n": ok}));
                    trace::ev(json!({"ev": "ReadoutStart"}));
                    trace::ev(json!({"ev": "ReadoutEnd", "final": false, "items": [item(ok)]}));
                    logged += ok;
                }
                // this round: the record call, then the readouts that started after it returned
                trace::ev(json!({"ev": "RecStart", "t": 0, "k": 1, "c": class + 1, "v": "3e0", "n": k, "round": round}));
                trace::ev(json!({"ev": "RecEnd", "t": 0, "k": 1, "c": class + 1, "v": "3e0", "n": k, "round": round}));
                trace::ev(json!({"ev": "ReadoutStart"}));
                let mut items = vec![item(rep.saturating_sub(logged))];
                items.extend(odd.lock().unwrap().drain(..));
                trace::ev(json!({"ev": "ReadoutEnd", "final": false, "items": items, "round": round}));
                logged = rep;
                failed = Some(round);
                break;
            }
        }
    });
    stop.store(true, Ordering::SeqCst);
    reader.join().expect("tool: reader join");
    if failed.is_none() {
        let ok = recorded - logged;
        if ok > 0 {
            trace::ev(json!({"ev": "RecStart", "t": 0, "k": 1, "c": class + 1, "v": "3e0", "n": ok}));
            trace::ev(json!({"ev": "RecEnd", "t": 0, "k": 1, "c": class + 1, "v": "3e0", "n": ok}));
            trace::ev(json!({"ev": "ReadoutStart"}));
            trace::ev(json!({"ev": "ReadoutEnd", "final": false, "items": [item(ok)]}));
        }
        // nothing is left for a last readout
        trace::ev(json!({"ev": "ReadoutStart"}));
        let items: Vec<J> = replay_entry(&rec.readout()).iter().map(|i| i.json()).collect();
        trace::ev(json!({"ev": "ReadoutEnd", "final": true, "items": items}));
    }
    let events = trace::take();
    let meta = json!({"run": batch, "seed": seed, "rounds": rounds_done, "samples": recorded,
                      "readouts": done.load(Ordering::SeqCst), "failed_round": failed, "events": events.len()});
    (events, meta)
}

fn cmd_lonely(a: &HashMap<String, String>) {
    let rounds = util::arg_u64(a, "rounds", 100_000);
    let per_batch = util::arg_u64(a, "batch", 10_000);
    let seed = util::arg_u64(a, "seed", 1);
    let mut out = std::io::BufWriter::new(std::fs::File::create(util::arg_str(a, "out", "")).expect("create out"));
    let mut meta = std::io::BufWriter::new(std::fs::File::create(util::arg_str(a, "meta", "")).expect("create meta"));
    let mut line = 0usize;
    let mut left = rounds;
    let mut batch = 0u64;
    while left > 0 {
        batch += 1;
        let n = left.min(per_batch);
        left -= n;
        let (events, mut m) = lonely_batch(batch, seed.wrapping_mul(1_000_003).wrapping_add(batch), n);
        trace::append_ndjson(&mut out, &events).unwrap();
        m["id"] = json!(batch);
        m["first_line"] = json!(line + 1);
        m["last_line"] = json!(line + events.len());
        line += events.len();
        serde_json::to_writer(&mut meta, &m).unwrap();
        meta.write_all(b"\n").unwrap();
    }
    out.flush().unwrap();
    meta.flush().unwrap();
}

fn main() {
    let (cmd, a) = util::args();
    match cmd.as_str() {
        "record" => cmd_record(&a),
        "seq" => cmd_seq(&a),
        "rep" => cmd_rep(&a),
        "lonely" => cmd_lonely(&a),
        _ => {
            eprintln!("usage: mb record|seq|rep ...");
            std::process::exit(2);
        }
    }
}
