----------------------------- MODULE HistLayout -----------------------------
(***************************************************************************)
(* The bucket layout behind the exponential histogram strategies (C11):    *)
(* `histogram::Config::new(4, 64)` - grouping power 4, 976 buckets - fed    *)
(* with s = floor(1024 * x).  Values go up to 2^64 - 1 and TLC integers are *)
(* 32 bit, so no value is ever computed: a number is held in EXPONENT FORM  *)
(*                                                                         *)
(*      [c, e, d]   denoting   c * 2^e + d        (c < 2^12, |d| <= 1024)   *)
(*                                                                         *)
(* and a recorded value is classified into the case split of the layout:   *)
(*      [k |-> "lin", s |-> 0..31]                       the integer itself *)
(*      [k |-> "exp", h |-> 5..63, m |-> 0..15, low |-> zeros|ones|mixed]   *)
(* (h = position of the leading bit, m = the next four bits, low = what the *)
(* remaining h-4 bits look like).                                           *)
(*                                                                         *)
(* Two independent definitions are written down as the crate has them:      *)
(*   Bucket(f)            = Config::value_to_index        (value -> index)  *)
(*   Lower(b), Upper(b)   = Config::index_to_lower/upper_bound (index -> range) *)
(*   Mid(b)               = u64::midpoint(lower, upper)   (what drain reports) *)
(* and RowOK(b) - checked by TLC for all 976 buckets in HistogramTable -    *)
(* states that they fit together and that the reported value is within the  *)
(* stated error of every value of the bucket.                               *)
(***************************************************************************)
EXTENDS Integers, Sequences, FiniteSets, TLC

NBuckets == 976
LastB == NBuckets - 1
Cut == 32                       \* cutoff_value = 2^(grouping_power + 1)

---------------------------------------------------------------------------
\* numbers in exponent form
N(c, e, d) == [c |-> c, e |-> e, d |-> d]
One == N(1, 0, 0)
WellFormed(x) == x.c >= 0 /\ x.c < 4096 /\ x.e >= 0 /\ x.e <= 64 /\ x.d >= -1024 /\ x.d <= 1024

MinE(x, y) == IF x.e < y.e THEN x.e ELSE y.e
AlignTo(x, e0) == N(x.c * 2^(x.e - e0), e0, x.d)            \* e0 <= x.e
Small(x) == x.e <= 18 /\ x.c < 4096
Val(x) == x.c * 2^x.e + x.d                                  \* only when Small(x)

Add(x, y) == LET e0 == MinE(x, y) IN N(AlignTo(x, e0).c + AlignTo(y, e0).c, e0, x.d + y.d)
Mul(k, x) == N(k * x.c, x.e, k * x.d)
Inc(x) == N(x.c, x.e, x.d + 1)

\* x <= y.  Below 2^30 by value; above, c decides and d breaks ties (|d| <= 1024 < 2^e0)
Leq(x, y) ==
    LET e0 == MinE(x, y)
        a == AlignTo(x, e0)
        b == AlignTo(y, e0)
    IN IF e0 <= 18
       THEN IF a.c < 4096 /\ b.c < 4096 THEN Val(a) <= Val(b) ELSE Assert(FALSE, <<"Leq: coefficient too large", x, y>>)
       ELSE a.c < b.c \/ (a.c = b.c /\ a.d <= b.d)
NumEq(x, y) == Leq(x, y) /\ Leq(y, x)
Lt(x, y) == ~Leq(y, x)

\* y - x for x <= y
SubLe(x, y) == LET e0 == MinE(x, y) IN N(AlignTo(y, e0).c - AlignTo(x, e0).c, e0, y.d - x.d)
AbsDiff(x, y) == IF Leq(x, y) THEN SubLe(x, y) ELSE SubLe(y, x)

FloorHalf(d) == (d + 2048) \div 2 - 1024
\* floor(x / 2)
HalfFloor(x) == IF x.e >= 1 THEN N(x.c, x.e - 1, FloorHalf(x.d)) ELSE N((x.c + x.d) \div 2, 0, 0)

BitLen(c) == CHOOSE L \in 1..30 : 2^(L - 1) <= c /\ c < 2^L    \* 1 <= c < 2^30

---------------------------------------------------------------------------
\* classification of a number into the case split of the layout
Lin(s) == [k |-> "lin", s |-> s]
Exp(h, m, low) == [k |-> "exp", h |-> h, m |-> m, low |-> low]

\* by integer arithmetic, s < 2^30
IntForm(s) ==
    IF s < Cut THEN Lin(s)
    ELSE LET h == BitLen(s) - 1
             m == (s - 2^h) \div 2^(h - 4)
             r == s % 2^(h - 4)
         IN Exp(h, m, IF r = 0 THEN "zeros" ELSE IF r = 2^(h - 4) - 1 THEN "ones" ELSE "mixed")

\* by exponent arithmetic: x = c*2^e + d with e >= 2, d in -2..1, and (after the borrow) c >= 16.
\* The low e bits are d (d >= 0) or 2^e + d (d < 0, one borrowed from c): all zero iff d = 0,
\* all one iff d = -1; the bits of c below its top five are all zero / all one / neither.
SymOK(x) == x.e >= 2 /\ x.d >= -2 /\ x.d <= 1 /\ (IF x.d < 0 THEN x.c - 1 ELSE x.c) >= 16
SymForm(x) ==
    LET c1 == IF x.d < 0 THEN x.c - 1 ELSE x.c
        L == BitLen(c1)
        top == c1 \div 2^(L - 5)
        crem == c1 % 2^(L - 5)
        low == IF crem = 0 /\ x.d = 0 THEN "zeros"
               ELSE IF crem = 2^(L - 5) - 1 /\ x.d = -1 THEN "ones" ELSE "mixed"
    IN Exp(x.e + L - 1, top - 16, low)

Classify(x) == IF SymOK(x) THEN SymForm(x)
               ELSE IF Small(x) THEN IntForm(Val(x))
               ELSE Assert(FALSE, <<"Classify: neither symbolic nor small", x>>)

---------------------------------------------------------------------------
\* the layout, as in histogram-0.11 config.rs (grouping_power = 4, max_value_power = 64)

\* value_to_index: value < 32 -> value; else power = h, log_bin = h - 5, offset = (value - 2^h) >> (h - 4) = m
Bucket(f) == IF f.k = "lin" THEN f.s ELSE Cut + (f.h - 5) * 16 + f.m

\* the same on a plain integer, for the cross-check below 2^30
IntBucket(s) == IF s < Cut THEN s
                ELSE LET p == BitLen(s) - 1 IN Cut + (p - 5) * 16 + ((s - 2^p) \div 2^(p - 4))

\* index_to_lower_bound: g = index >> 4, h = index - 16 g; g < 1 -> h; else 2^(4+g-1) + 2^(g-1) * h
Lower(b) == LET g == b \div 16
                hh == b % 16
            IN IF g < 1 THEN N(hh, 0, 0) ELSE N(16 + hh, g - 1, 0)
\* index_to_upper_bound: last index -> max = 2^64 - 1; g < 1 -> h; else 2^(4+g-1) + 2^(g-1) * (h+1) - 1
Upper(b) == IF b = LastB THEN N(1, 64, -1)
            ELSE LET g == b \div 16
                     hh == (b % 16) + 1
                 IN IF g < 1 THEN N(hh - 1, 0, 0) ELSE N(16 + hh, g - 1, -1)
\* drain: range.start().midpoint(*range.end()) = floor((lower + upper) / 2)
Mid(b) == HalfFloor(Add(Lower(b), Upper(b)))
Width(b) == Inc(SubLe(Lower(b), Upper(b)))
HalfW(b) == HalfFloor(Width(b))

---------------------------------------------------------------------------
\* representatives of a bucket: both boundaries and, where the bucket is wide enough to have
\* an interior, the neighbours of the boundaries and the two values around the midpoint
Inside(b) == Lower(b).e >= 2
Reps(b) ==
    LET lo == Lower(b)
        up == IF b = LastB THEN N(32, 59, -1) ELSE Upper(b)
        md == Mid(b)
    IN {lo, up} \cup (IF Inside(b) THEN {N(lo.c, lo.e, 1), N(up.c, up.e, -2), md, N(md.c, md.e, md.d + 1)} ELSE {})

\* what TLC decides for bucket b
RowOK(b) ==
    LET lo == Lower(b)
        up == Upper(b)
        md == Mid(b)
    IN /\ WellFormed(lo) /\ WellFormed(up) /\ WellFormed(md)
       /\ Leq(lo, md) /\ Leq(md, up)
       \* the buckets partition 0 .. 2^64-1: contiguous, no gap, no overlap
       /\ b = 0 => NumEq(lo, N(0, 0, 0))
       /\ b < LastB => NumEq(Inc(up), Lower(b + 1))
       /\ b = LastB => NumEq(up, N(32, 59, -1))
       \* re-recording the reported value lands in the same bucket (merge of a closed histogram is a fixed point)
       /\ Bucket(Classify(md)) = b
       /\ \A x \in Reps(b) :
            LET f == Classify(x)
                err == AbsDiff(md, x)
            IN /\ WellFormed(x)
               /\ Leq(lo, x) /\ Leq(x, up)
               /\ Bucket(f) = b                                  \* value_to_index agrees with index_to_range
               /\ (Small(x) /\ SymOK(x)) => SymForm(x) = IntForm(Val(x))   \* exponent arithmetic = integer arithmetic
               /\ (Small(x) /\ Val(x) < 2^30) => IntBucket(Val(x)) = b
               /\ b < Cut => /\ f = Lin(b)
                             /\ NumEq(md, x)                     \* s < 32: reported exactly, only the truncation of 1024 x is lost
               /\ b >= Cut => /\ f.k = "exp"
                              /\ NumEq(Add(HalfW(b), HalfW(b)), Width(b))
                              /\ Leq(err, HalfW(b))              \* |Mid - s| <= width / 2
                              /\ Leq(Mul(32, HalfW(b)), x)       \* width / 2 <= s / 32
                              \* with the truncation term (1024 x in [s, s+1)):  |Mid - 1024 x| < |Mid - s| + 1 <= s/16
                              /\ Leq(Mul(16, Inc(err)), x)
=============================================================================
