"""C11 - histograms conserve observation counts and stay within their stated error.

TLC decides (spec/hist): HistogramTable - RowOK for all 976 buckets of the grouping-power-4 layout in
exponent arithmetic (value_to_index against index_to_range, partition, |Mid - s| <= width/2 <= s/32,
16 (|Mid - s| + 1) <= s, re-recording Mid is a fixed point) and prints the table; Histogram - count
conservation under all interleavings of <= 3 recorders with a running drain, quiescent drain, ascending
run-length encoding, merge of a closed histogram is a fixed point (exp / atomic / sort-and-merge);
HistogramReplay - all sequential Rec/Drain/Merge behaviours up to a depth.

Conformance R (harness/src/bin/hist.rs): every table row is concretised to f64 / f32 / u64 / u32 /
Duration(+unit) / byte-unit / Repeated / multi-observation inputs and recorded into the real Histogram /
SharedHistogram with the three strategies; TLC's behaviours are stepped through the real objects; 8 threads
record concurrently.  The closed observations are judged here against the property (VIOLATION) and against
TLC's table (MODEL-DRIFT).
"""
import os, sys, json, struct, bisect, random
from fractions import Fraction as F

sys.path.insert(0, os.path.join(os.path.dirname(os.path.abspath(__file__)), "..", "lib"))
import vlib
from vlib import log

MAX_VIOLATION_FILES = 40


def report(chk, what, replay_obj, key=None):
    """chk.violation, but a broken tree must not leave tens of thousands of replay files behind"""
    if len(chk.violations) < MAX_VIOLATION_FILES:
        chk.violation(what, replay_obj, key)
    else:
        chk.extra["violations_not_recorded"] = chk.extra.get("violations_not_recorded", 0) + 1


SPECD = os.path.join(vlib.SPEC, "hist")
DOMAIN = F(2) ** 43          # the property speaks about values below 2^43
TOL_SAM = F(1, 10 ** 12)     # sort-and-merge: reported value == recorded value up to f64 rounding of total = v * n


# --------------------------------------------------------------------------------------------
# numbers
def num(t):
    c, e, d = t
    return c * (1 << e) + d


def f2b(x):
    return struct.unpack("<Q", struct.pack("<d", x))[0]


def b2f(b):
    return struct.unpack("<d", struct.pack("<Q", b))[0]


def exact_f64(fr):
    """the f64 equal to the rational, or None"""
    try:
        x = float(fr)
    except OverflowError:
        return None
    return x if F(x) == fr else None


def exact_f32(fr):
    x = exact_f64(fr)
    if x is None:
        return None
    try:
        y = struct.unpack("<f", struct.pack("<f", x))[0]
    except OverflowError:
        return None
    return x if y == x else None


def f32bits(x):
    return struct.unpack("<I", struct.pack("<f", x))[0]


# --------------------------------------------------------------------------------------------
class Table:
    """TLC's table: bucket -> lower, upper, mid (python ints) and the representatives of each bucket."""

    def __init__(self, rows):
        rows = sorted(rows, key=lambda r: r["b"])
        assert [r["b"] for r in rows] == list(range(976)), "table must have 976 rows"
        self.lo = [num(r["lo"]) for r in rows]
        self.up = [num(r["up"]) for r in rows]
        self.mid = [num(r["mid"]) for r in rows]
        self.reps = [[(num(x["x"]), x["form"]) for x in r["reps"]] for r in rows]
        self.rows = rows

    def bucket(self, s):
        """the bucket whose range holds the scaled value s (u64 saturated)"""
        s = min(s, (1 << 64) - 1)
        return bisect.bisect_right(self.lo, s) - 1

    def reported(self, b, n):
        """what TLC's table says drain reports for n occurrences in bucket b: (total bits, occurrences)"""
        return f2b(float(self.mid[b]) / 1024.0 * float(n))


def load_table(chk):
    r = vlib.model_check(SPECD, "HistogramTable", "MC_table.cfg", workers=1, timeout=600)
    chk.add_model("HistogramTable/MC_table.cfg (RowOK for all 976 buckets)", r)
    rows = vlib.replay_lines(r)
    if len(rows) != 976:
        raise vlib.ToolError(f"HistogramTable printed {len(rows)} rows, expected 976")
    return Table(rows)


# --------------------------------------------------------------------------------------------
# judging one drain
def reported_of(obs):
    """harness observation -> (reported value as Fraction, occurrences) or None if not well-formed"""
    out = []
    for o in obs:
        if o[0] == "r":
            if o[2] == 0:
                out.append((None, 0))
            else:
                out.append((F(b2f(o[1])) / o[2], o[2]))
        elif o[0] == "f":
            out.append((F(b2f(o[1])), 1))
        elif o[0] == "u":
            out.append((F(o[1]), 1))
        else:
            return None
    return out


def within(x, r):
    """the stated error: 1/1024 absolute under 1/32, 6.25 % relative otherwise"""
    if x < F(1, 32):
        return abs(r - x) <= F(1, 1024)
    return 16 * abs(r - x) <= x


def judge_property(strategy, originals, obs, exact, plain_x=None):
    """originals: [(Fraction value, occurrences)], obs: harness observations of the closed histogram.
    Returns a violation text or None.  Only called for originals inside the property's domain."""
    rep = reported_of(obs)
    if rep is None:
        return f"closed histogram holds an unknown observation kind: {obs[:3]}"
    if any(v is None for v, _ in rep):
        return "closed histogram holds an observation with zero occurrences"
    total_in = sum(n for _, n in originals)
    total_out = sum(n for _, n in rep)
    if total_in != total_out:
        return f"count not conserved: {total_in} observations recorded, closed distribution has {total_out}"
    orig = sorted(originals)
    if strategy == "sam" and plain_x is not None:
        # plain single observations: the closed distribution lists every distinct recorded f64 exactly once, ascending,
        # with its exact count - judged on the bit patterns, however close the values are
        dist = []
        for x in sorted(plain_x):
            if dist and dist[-1][0] == x:
                dist[-1][1] += 1
            else:
                dist.append([x, 1])
        if len(rep) != len(dist):
            near = [(dist[i - 1][0], dist[i][0]) for i in range(1, len(dist)) if dist[i][0] - dist[i - 1][0] <= 1e-9 * dist[i][0]]
            return (f"sort-and-merge: {len(dist)} distinct values recorded but {len(rep)} observations reported "
                    f"(only equal values may be merged{'; recorded among others ' + repr(near[0]) if near else ''})")
        for i, ((x, n), (r, m)) in enumerate(zip(dist, rep)):
            if n != m:
                return f"sort-and-merge: value {x!r} recorded {n} times, reported {m} times"
            if (n == 1 and r != F(x)) or abs(r * n - F(x) * n) > F(x) * n / (1 << 52):
                return f"sort-and-merge: recorded {x!r} ({n} times) reported as {float(r)!r}"
            if i > 0 and not rep[i - 1][0] < r:
                return f"sort-and-merge: reported values not strictly ascending at position {i}"
        return None
    if strategy == "sam":
        dist = []
        for v, n in orig:
            if dist and dist[-1][0] == v:
                dist[-1][1] += n
            else:
                dist.append([v, n])
        if sam_ambiguous(originals):
            return None
        if len(rep) != len(dist):
            return (f"sort-and-merge: {len(dist)} distinct values recorded but {len(rep)} observations reported "
                    f"(equal values not merged, or values lost)")
        for i, ((v, n), (r, m)) in enumerate(zip(dist, rep)):
            if i > 0 and rep[i - 1][0] > r:
                return f"sort-and-merge: reported values not ascending at position {i}"
            if n != m:
                return f"sort-and-merge: value {float(v)!r} recorded {n} times, reported {m} times"
            tol = 0 if (exact and n == 1) else TOL_SAM
            if abs(r - v) > tol * abs(v):
                return f"sort-and-merge: recorded {float(v)!r} reported as {float(r)!r}"
        return None
    # exponential strategies: every recorded observation is reported at a value within the stated error.
    # Both the recorded values and the reported values are ordered and the admissible interval moves
    # monotonically with the value, so matching in sorted order is complete.
    rs = sorted(rep)
    j, left = 0, rs[0][1] if rs else 0
    for v, n in orig:
        need = n
        while need > 0:
            if j >= len(rs):
                return "count not conserved (ran out of reported observations)"
            take = min(need, left)
            if not within(v, rs[j][0]):
                bound = "1/1024 absolute" if v < F(1, 32) else "6.25 %"
                return (f"value {float(v)!r} is reported as {float(rs[j][0])!r}: off by {float(abs(rs[j][0] - v))!r} "
                        f"({float(abs(rs[j][0] - v) / v) * 100 if v else 0:.3f} %), more than {bound}")
            need -= take
            left -= take
            if left == 0:
                j += 1
                left = rs[j][1] if j < len(rs) else 0
    return None


def sam_ambiguous(originals):
    """two distinct recorded values closer than the comparison tolerance: f64 rounding of total = v * n decides
    whether sort-and-merge sees them as equal, the property cannot be judged on them"""
    vs = sorted(set(v for v, _ in originals))
    return any(vs[i] - vs[i - 1] <= 4 * TOL_SAM * vs[i] for i in range(1, len(vs)))


def same_distribution(a, b, exact):
    """re-aggregation must change neither counts nor reported values.  Exponential strategies (exact): the reported
    value total/occurrences must be the same rational.  Sort-and-merge: the same rational whenever the reported value is
    itself an f64 (then total / occurrences is an exact division on the unchanged representation), else equal up to
    the f64 rounding of total = value * count.  Returns the difference as text, or None."""
    ra, rb = reported_of(a), reported_of(b)
    if ra is None or rb is None or len(ra) != len(rb):
        return f"{len(a)} observations became {len(b)}"
    for (v, n), (w, m) in zip(ra, rb):
        if n != m:
            return f"count {n} became {m}"
        if v is None or w is None:
            return "observation without occurrences"
        tol = 0 if (exact or exact_f64(v) is not None) else TOL_SAM
        if abs(v - w) > tol * abs(v):
            return f"value {float(v)!r} ({n} occurrences) became {float(w)!r}"
    return None


def expect_model(table, strategy, xrecs):
    """what the model says the closed observations are, for recorded f64 values [(x, n)]"""
    if strategy == "sam":
        out = []
        for x, n in sorted(xrecs):
            if out and out[-1][0] == x:
                out[-1][1] += n
            else:
                out.append([x, n])
        return [["r", f2b(x * float(n)), n] for x, n in out]
    cnt = {}
    for x, n in xrecs:
        s = int(F(x) * 1024)
        b = table.bucket(s)
        cnt[b] = cnt.get(b, 0) + n
    return [["r", table.reported(b, n), n] for b, n in sorted(cnt.items())]


# --------------------------------------------------------------------------------------------
# case construction.  An add step: {"op":"add","v":<harness value>,"orig":[[num,den,occ]..],"xrec":[[bits,occ]..]|None}
def fr_s(fr):
    return [str(fr.numerator), str(fr.denominator)]


def add_step(v, origs, xrecs, plain=False):
    """plain: one single observation whose recorded f64 is the input itself (f64 / f32 / integer): no total = v * n,
    no unit conversion - sort-and-merge is then judged exactly on the recorded bit patterns"""
    return {"op": "add", "v": v, "orig": [fr_s(o) + [n] for o, n in origs],
            "xrec": None if xrecs is None else [[f2b(x), n] for x, n in xrecs], "plain": plain}


def src_f64(X, occ=1):
    x = exact_f64(X)
    if x is None:
        return None
    return add_step(f2b(x), [(X, 1)], [(x, 1)], plain=True)


def src_f32(X, occ=1):
    x = exact_f32(X)
    if x is None:
        return None
    return add_step(f32bits(x), [(X, 1)], [(x, 1)], plain=True)


def src_u64(X, occ=1, bits=64):
    v = int(X)
    if v >= (1 << bits) or v >= (1 << 53):
        return None
    return add_step(v, [(F(v), 1)], [(float(v), 1)], plain=True)


def src_u32(X, occ=1):
    return src_u64(X, occ, bits=32)


def _dur(X, per_unit):
    ns = int(X * per_unit)
    if ns >= (1 << 62):
        return None, None
    return [ns // 10 ** 9, ns % 10 ** 9], F(ns, per_unit)


def src_dur_ms(X, occ=1):
    d, o = _dur(X, 10 ** 6)
    return None if d is None else add_step(d, [(o, 1)], None)


def src_dur_us(X, occ=1):
    d, o = _dur(X, 10 ** 3)
    return None if d is None else add_step(d, [(o, 1)], None)


def src_dur_s(X, occ=1):
    d, o = _dur(X, 10 ** 9)
    return None if d is None else add_step(d, [(o, 1)], None)


def src_kb(X, occ=1):
    v = int(X * 1000)
    if v >= (1 << 53):
        return None
    return add_step(v, [(F(v, 1000), 1)], None)


def src_rep(X, occ=3):
    x = exact_f64(X)
    if x is None:
        return None
    total = x * float(occ)
    avg = total / float(occ)               # what the capturer records: total / occurrences as f64
    return add_step(["r", f2b(total), occ], [(F(total) / occ, occ)], [(avg, occ)])


def src_obs_u(X, occ=1):
    v = int(X)
    if v >= (1 << 53):
        return None
    return add_step(["u", v], [(F(v), 1)], [(float(v), 1)], plain=True)


def src_obs_f(X, occ=1):
    x = exact_f64(X)
    if x is None:
        return None
    return add_step(["f", f2b(x)], [(X, 1)], [(x, 1)], plain=True)


SOURCES = {
    "f64": ("f64", src_f64), "f32": ("f32", src_f32), "u64": ("u64", src_u64), "u32": ("u32", src_u32),
    "dur_ms": ("dur_ms", src_dur_ms), "dur_us": ("dur_us", src_dur_us), "dur_s": ("dur_s", src_dur_s),
    "kb": ("kb", src_kb), "rep": ("obs", src_rep), "obs_u": ("obs", src_obs_u), "obs_f": ("obs", src_obs_f),
}
FRACS = [F(0), F(1, 2), F(1023, 1024)]     # what floor(1024 x) cuts off: nothing / half / nearly one


def bucket_values(table, b):
    """concrete values (Fractions, in histogram units) for the representatives of bucket b"""
    out = []
    for s, form in table.reps[b]:
        for fr in FRACS:
            out.append(((F(s) + fr) / 1024, form))
    return out


def make_bucket_case(table, b, strategy, srckind, occs, rng):
    hsrc, mk = SOURCES[srckind]
    steps = []
    for i, (X, form) in enumerate(bucket_values(table, b)):
        occ = occs[i % len(occs)]
        if strategy == "sam" and occ > 1000:
            occ = 1000
        st = mk(X, occ) if srckind == "rep" else mk(X)
        if st is not None:
            steps.append(st)
    if not steps:
        return None
    steps.append(dict(steps[0]))          # one value twice: equal values must merge
    return {"strategy": strategy, "source": hsrc, "kind": srckind, "steps": steps, "what": f"bucket {b}"}


def make_mixed_case(table, strategy, rng, n_vals, with_merge):
    """values from random buckets through random sources of the generic observation kind, with drains/merges"""
    steps = []
    for _ in range(n_vals):
        b = rng.randrange(0, 32 + 48 * 16)            # h <= 52: inside the domain
        s, form = rng.choice(table.reps[b])
        X = (F(s) + rng.choice(FRACS)) / 1024
        k = rng.choice(["rep", "obs_u", "obs_f", "obs_f", "obs_f"])
        st = SOURCES[k][1](X, rng.choice([2, 3, 5, 17])) if k == "rep" else SOURCES[k][1](X)
        if st is None:
            st = src_obs_f(F(s, 1024))
        if st is None:
            continue
        steps.append(st)
        if with_merge and rng.random() < 0.15:
            steps.append({"op": "drain"})
            if rng.random() < 0.6 and strategy != "atomic":
                steps.append({"op": "merge"})
    return {"strategy": strategy, "source": "obs", "kind": "mixed", "steps": steps, "what": "mixed"}


def make_multi_case(table, strategy, rng):
    """one add_value whose value writes many observations at once"""
    vs, origs, xrecs = [], [], []
    for _ in range(12):
        b = rng.randrange(0, 32 + 48 * 16)
        s, form = rng.choice(table.reps[b])
        st = rng.choice([src_rep, src_obs_u, src_obs_f])((F(s) + rng.choice(FRACS)) / 1024)
        if st is None:
            continue
        vs.append(st["v"])
        origs += [(F(int(o[0]), int(o[1])), o[2]) for o in st["orig"]]
        xrecs += [(b2f(x), n) for x, n in st["xrec"]]
    return {"strategy": strategy, "source": "multi", "kind": "multi", "steps": [add_step(vs, origs, xrecs)], "what": "multi"}


def next_up(x, k=1):
    return b2f(f2b(x) + k)


def near_float_sets(rng, n_random):
    """sets of distinct f64 that are adjacent or nearly adjacent, below and above 1.0"""
    sets = [
        [0.3, 0.3, 0.1 + 0.2],
        [0.1 + 0.2, 0.3, 0.3, 0.1 + 0.2, next_up(0.1 + 0.2)],
        [1e-17, 2e-17, 3e-17, 1e-17],
        [0.0, 5e-324, 1e-323, 5e-324, 2.2250738585072014e-308, next_up(2.2250738585072014e-308), b2f(f2b(2.2250738585072014e-308) - 1)],
        [1e-300, next_up(1e-300), 1e-200, next_up(1e-200, 2)],
        [0.5, b2f(f2b(0.5) - 1), next_up(0.5), 0.5],
        [b2f(f2b(1.0) - 1), 1.0, next_up(1.0), 1.0, b2f(f2b(1.0) - 2)],
        [1.5, next_up(1.5), 1.5, 1e6, next_up(1e6), 123456.789, next_up(123456.789, 2)],
        [0.03125, b2f(f2b(0.03125) - 1), next_up(0.03125)],
        [2.0 ** 40, next_up(2.0 ** 40), 2.0 ** 42 + 0.5, 2.0 ** 42 + 1.0],
    ]
    for _ in range(n_random):
        e = rng.choice([-1022, -300, -60, -53, -30, -10, -4, -1, 0, 1, 10, 30, 41])
        x = rng.uniform(1.0, 2.0) * 2.0 ** e
        vs = []
        for step in (0, 1, 2, rng.randrange(3, 9), rng.randrange(9, 4000)):
            vs += [next_up(x, step)] * rng.choice([1, 1, 2])
        rng.shuffle(vs)
        sets.append(vs)
    return sets


def near_cases(rng, tier):
    cases, pair = [], 1 << 52
    for vs in near_float_sets(rng, 60 if tier == "quick" else 2000):
        for kind, mk in (("f64", src_f64), ("obs_f", src_obs_f)):
            pair += 1
            for strategy in ("exp", "atomic", "sam"):
                steps = [mk(F(x)) for x in vs]
                c = {"strategy": strategy, "source": SOURCES[kind][0], "kind": kind, "steps": steps, "pair": pair,
                     "what": f"adjacent floats {vs[:3]!r}.."}
                cases.append(c)
    return cases


REAGG_LARGE = [1000, 4099, 65537, (1 << 20) + 1, (1 << 33) + 1]


def make_reagg_case(table, b, strategy, counts, pick=0):
    """record n observations of one representative of bucket b, close, re-aggregate - for every n in counts (one drain
    each): the closed bucket then holds exactly n observations"""
    reps = sorted(s for s, f in table.reps[b])
    X = F(reps[pick % len(reps)], 1024)
    if exact_f64(X) is None:
        return None
    steps = []
    for n in counts:
        if strategy == "sam" and n > 1000:
            continue
        steps.append(src_rep(X, n) if n > 1 else src_obs_f(X))
        steps.append({"op": "drain"})
    steps.pop()                                   # the last drain is the implied one
    return {"strategy": strategy, "source": "obs", "kind": "reagg", "steps": steps,
            "what": f"re-aggregation, bucket {b}, value {float(X)!r}, every count"}


def reagg_cases(table, tier, rng):
    """every bucket whose scaled range starts below 64 (the reported value sits on the bucket's lower boundary there)
    and a sample of the buckets above, with every occurrence count 1..256 (1..1024 thorough) and a few large ones"""
    counts = list(range(1, 257 if tier == "quick" else 1025)) + REAGG_LARGE
    buckets = list(range(0, 48)) + sorted(rng.sample(range(48, 32 + 36 * 16), 16 if tier == "quick" else 120))
    cases, pair = [], 1 << 50
    for b in buckets:
        for pick in ((0, -1) if 32 <= b < 48 else (0,)):
            pair += 1
            for strategy in ("exp", "atomic", "sam"):
                c = make_reagg_case(table, b, strategy, counts, pick)
                if c:
                    c["pair"] = pair
                    cases.append(c)
    return cases


# TLC behaviours -------------------------------------------------------------------------------
def behaviour_case(table, beh, strategy, rng):
    """concretise an abstract behaviour: the abstract values (lin; two values of one bucket; two adjacent
    buckets) are mapped onto randomly chosen buckets of the table with the same shape"""
    lin = rng.randrange(0, 32)
    b1 = rng.randrange(32, 32 + 34 * 16)          # h <= 39: the sub-integer fraction stays representable
    b2 = rng.randrange(b1 + 1, 32 + 35 * 16 - 1)
    pick = {
        1: F(lin * 1024 + rng.randrange(0, 1024), 1024 * 1024),
        2: F(table.lo[b1], 1024),
        3: (F(table.up[b1]) + F(1023, 1024)) / 1024,
        4: F(rng.choice([s for s, f in table.reps[b2]]), 1024),
        5: F(table.lo[b2 + 1], 1024),
    }
    assert all(exact_f64(v) is not None for v in pick.values())
    keymap_exp = {7: lin, 32: b1, 32 + 26 * 16 + 9: b2, 32 + 26 * 16 + 10: b2 + 1}
    steps, expected = [], []
    for st in beh["steps"]:
        if st["op"] == "Rec":
            X, n = pick[st["v"]], st["n"]
            steps.append(src_obs_f(X) if n == 1 else src_rep(X, n))
        elif st["op"] == "Drain":
            steps.append({"op": "drain"})
            expected.append(st["obs"])
        else:
            steps.append({"op": "merge"})
    expected.append(beh["final"])
    # expected observations in concrete terms
    exp_c = []
    for obs in expected:
        if strategy == "sam":
            exp_c.append([["r", f2b(float(pick[k]) * float(n)), n] for k, n in obs])
        else:
            exp_c.append([["r", table.reported(keymap_exp[k], n), n] for k, n in obs])
    return {"strategy": strategy, "source": "obs", "kind": "behaviour", "steps": steps, "expected": exp_c,
            "what": "TLC behaviour " + json.dumps(beh["steps"])}


# --------------------------------------------------------------------------------------------
def bump(chk, key, n=1):
    chk.extra[key] = chk.extra.get(key, 0) + n


def judge_case(chk, table, case, res):
    """returns (violation text | None, drift | None, evaluations)"""
    if "panic" in res and res["panic"] is not None:
        return f"panic in the code under test: {res['panic']}", None
    if "error" in res:
        raise vlib.ToolError(f"hist harness: {res['error']} in case {case.get('what')}")
    strategy = case["strategy"]
    drains = res["drains"]
    cur_orig, cur_x = [], []
    cur_plain = True
    kept = None
    di = 0
    drift = None
    exact = case["kind"] in ("f64", "f32", "u64", "u32", "obs_u", "obs_f", "behaviour", "mixed", "multi", "rep", "reagg")
    steps = case["steps"] + [{"op": "drain"}]
    for st in steps:
        if st["op"] == "add":
            cur_orig += [(F(int(a), int(b)), n) for a, b, n in st["orig"]]
            if cur_x is not None:
                cur_x = None if st["xrec"] is None else cur_x + [(b2f(x), n) for x, n in st["xrec"]]
            cur_plain = cur_plain and bool(st.get("plain")) and st["xrec"] is not None
        elif st["op"] == "merge":
            cur_plain = False
            rep = reported_of(kept)
            cur_orig += [(v, n) for v, n in rep]
            if cur_x is not None:
                cur_x += [(float(v), n) for v, n in rep]
            kept = None
        else:
            d = drains[di]
            in_domain = all(v < DOMAIN for v, _ in cur_orig)
            bump(chk, "drains_judged")
            bump(chk, "observations_recorded", sum(n for _, n in cur_orig))
            if not in_domain:
                bump(chk, "drains_outside_domain_2^43")
            plain_x = [x for x, n in cur_x] if (cur_plain and cur_x is not None) else None
            if strategy == "sam" and plain_x is None and sam_ambiguous(cur_orig):
                bump(chk, "sam_drains_not_judged_values_closer_than_1e-12")
            if strategy == "sam" and plain_x is not None:
                bump(chk, "sam_drains_judged_exactly_on_bit_patterns")
            v = judge_property(strategy, cur_orig, d["obs"], exact and case["kind"] != "rep", plain_x)
            if v is None and d["re"] != d["obs"] and not (strategy == "sam" and plain_x is None and sam_ambiguous(cur_orig)):
                why = same_distribution(d["obs"], d["re"], exact=strategy != "sam")
                if why:
                    v = (f"re-aggregating the closed histogram into a fresh histogram of the same strategy changed it "
                         f"({why}): {d['obs'][:4]} became {d['re'][:4]}")
                else:
                    drift = drift or {"case": case.get("what"), "strategy": strategy, "re_aggregation_bits_differ": True}
            if v is not None:
                if in_domain:
                    return f"{strategy} histogram, {case['kind']} source, {case.get('what')}, drain {di}: {v}", None
                drift = drift or {"outside_domain": True, "what": v, "case": case.get("what")}
            if cur_x is not None and drift is None:
                exp = case["expected"][di] if "expected" in case else expect_model(table, strategy, cur_x)
                if exp != d["obs"]:
                    drift = {"case": case.get("what"), "strategy": strategy, "source": case["kind"], "drain": di,
                             "model": exp[:4], "real": d["obs"][:4]}
            kept = d["obs"]
            cur_orig, cur_x = [], []
            cur_plain = True
            di += 1
    return None, drift


def run_cases(chk, table, cases, tag):
    for i, c in enumerate(cases):
        c["id"] = i
    cp = os.path.join(chk.dir, f"{tag}-cases.ndjson")
    op = os.path.join(chk.dir, f"{tag}-out.ndjson")
    vlib.write_ndjson(cp, [{"id": c["id"], "strategy": c["strategy"], "source": c["source"],
                            "steps": [({"op": "add", "v": s["v"]} if s["op"] == "add" else s) for s in c["steps"]]}
                           for c in cases])
    vlib.run_bin("hist", ["run", "--cases", cp, "--out", op], timeout=3000)
    outs = {o["id"]: o for o in vlib.read_ndjson(op)}
    results = {}
    ok = 0
    for c in cases:
        res = outs[c["id"]]
        viol, drift = judge_case(chk, table, c, res)
        results[c["id"]] = res
        chk.evaluations += 1
        chk.nontrivial.add((c["strategy"], c["kind"], c.get("what")))
        if viol:
            report(chk, viol, {"kind": "case", "case": c, "observed": res}, key=f"C11:{c['strategy']}:{c['kind']}")
        else:
            ok += 1
            if drift and len(chk.drift) < 20:
                chk.drift.append(drift)
            if drift:
                chk.extra["model_drift_cases"] = chk.extra.get("model_drift_cases", 0) + 1
    chk.traces += ok
    chk.extra[f"{tag}_cases"] = len(cases)
    return results


def compare_variants(chk, cases, results):
    """atomic == non-atomic on the same inputs"""
    by = {}
    for c in cases:
        if c["kind"] in ("behaviour",) and any(s["op"] == "merge" for s in c["steps"]):
            continue
        by.setdefault(c.get("pair"), {})[c["strategy"]] = c
    n = 0
    for pair, d in by.items():
        if pair is None or "exp" not in d or "atomic" not in d:
            continue
        a, e = results[d["atomic"]["id"]], results[d["exp"]["id"]]
        n += 1
        if a.get("drains") is None or e.get("drains") is None:
            continue
        oa = [x["obs"] for x in a["drains"]]
        oe = [x["obs"] for x in e["drains"]]
        if oa != oe:
            k = next(i for i in range(len(oa)) if oa[i] != oe[i])
            report(chk, f"atomic and non-atomic exponential histograms differ on the same inputs ({d['exp'].get('what')}, "
                          f"{d['exp']['kind']} source): non-atomic {oe[k][:4]} atomic {oa[k][:4]}",
                          {"kind": "pair", "exp": d["exp"], "atomic": d["atomic"], "observed": {"exp": e, "atomic": a}},
                          key="C11:atomic-vs-exp")
    chk.extra["atomic_vs_nonatomic_pairs"] = chk.extra.get("atomic_vs_nonatomic_pairs", 0) + n


def run_conc(chk, table, runs, threads=8, per=100_000):
    vals = []
    rng = random.Random(chk.seed * 31 + 5)
    for b in range(0, 32 + 48 * 16):
        for s, form in table.reps[b]:
            x = exact_f64(F(s, 1024))
            if x is not None:
                vals.append(x)
    rng.shuffle(vals)
    vals = vals[:600]
    vp = os.path.join(chk.dir, "conc-values.ndjson")
    op = os.path.join(chk.dir, "conc-out.ndjson")
    vlib.write_ndjson(vp, [[f2b(x) for x in vals]])
    args = ["conc", "--values", vp, "--threads", threads, "--per", per, "--seed", chk.seed, "--runs", runs, "--out", op]
    vlib.run_bin("hist", args, timeout=3000)
    for o in vlib.read_ndjson(op):
        chk.evaluations += 1
        rp = {"kind": "conc", "values": [f2b(x) for x in vals], "threads": threads, "per": per, "seed": chk.seed,
              "run": o["run"]}
        tot = sum(x[2] for x in o["atomic"] if x[0] == "r")
        if tot != o["recorded"]:
            report(chk, f"{threads} threads x {per} concurrent add_value recorded {o['recorded']} observations, the closed "
                          f"SharedHistogram reports {tot}", rp, key="C11:conc-count")
            continue
        if o["atomic"] != o["seq"]:
            report(chk, "SharedHistogram after concurrent recording differs from the non-atomic histogram fed the same "
                          "inputs sequentially", rp, key="C11:conc-vs-seq")
            continue
        exp = expect_model(table, "exp", [(vals[i], n) for i, n in enumerate(o["tally"]) if n > 0])
        if exp != o["atomic"] and len(chk.drift) < 20:
            chk.drift.append({"conc_run": o["run"], "model": exp[:3], "real": o["atomic"][:3]})
        chk.traces += 1
        chk.nontrivial.add(("conc", o["run"]))
    chk.extra["concurrent_runs"] = runs
    chk.extra["concurrent_add_value_calls"] = runs * threads * per


def run_race(chk, table, rounds, threads, per_round=512, seed=None):
    """many short-lived SharedHistograms, `threads` threads inside add_value of the same histogram at the same time,
    closed right afterwards: count conserved, identical to the non-atomic histogram, every value within the bound"""
    vals = sorted(x for b in range(0, 32 + 40 * 16) for s, f in table.reps[b] for x in [exact_f64(F(s, 1024))] if x is not None)
    vals = sorted(set(vals))[::7]
    seed = chk.seed if seed is None else seed
    vp = os.path.join(chk.dir, f"race{threads}-values.ndjson")
    op = os.path.join(chk.dir, f"race{threads}-out.ndjson")
    vlib.write_ndjson(vp, [[f2b(x) for x in vals]])
    vlib.run_bin("hist", ["race", "--values", vp, "--threads", threads, "--rounds", rounds, "--per-round", per_round,
                          "--seed", seed * 10 + threads, "--out", op], timeout=3000)
    o = vlib.read_ndjson(op)[0]
    rp = {"kind": "race", "threads": threads, "rounds": rounds, "per_round": per_round, "seed": seed}
    chk.evaluations += o["histograms"]
    chk.nontrivial.add(("race", threads, rounds, seed))
    bump(chk, "short_lived_shared_histograms", o["histograms"])
    bump(chk, "short_lived_mismatches", o["mismatches"])
    example = ""
    for k in o["kept"]:
        origs = [(F(b2f(b)), 1) for b in k["values"]]
        v = judge_property("exp", origs, k["atomic"], True)
        if v or k["mismatch"]:
            example = (f"; e.g. round {k['round']} histogram {k['index']}: recorded {[b2f(b) for b in k['values']]} concurrently, "
                       f"closed {k['atomic']}, non-atomic {k['seq']}" + (f": {v}" if v else ""))
            break
        exp = expect_model(table, "exp", [(b2f(b), 1) for b in k["values"]])
        if exp != k["atomic"] and len(chk.drift) < 20:
            chk.drift.append({"race": rp, "model": exp, "real": k["atomic"]})
    if o["closed_total"] != o["recorded"]:
        report(chk, f"{o['histograms']} short-lived SharedHistograms, {threads} threads recording one value each concurrently: "
                    f"{o['recorded']} observations recorded, the closed histograms report {o['closed_total']} "
                    f"({o['mismatches']} histograms differ from the non-atomic histogram){example}", dict(rp, observed=o),
               key="C11:race-count")
    elif o["mismatches"] or example:
        report(chk, f"{o['mismatches']} of {o['histograms']} short-lived SharedHistograms differ from the non-atomic histogram "
                    f"fed the same values{example}", dict(rp, observed=o), key="C11:race-vs-seq")
    else:
        chk.traces += o["histograms"]


# --------------------------------------------------------------------------------------------
OCCS = [1, 2, 3, 7, 1000, 1 << 20, (1 << 33) + 1]


def build_cases(table, tier, rng):
    cases = []
    pair = 0
    quick = tier == "quick"
    for b in range(976):
        kinds = ["f64"]
        if not quick or b < 48 or b % 7 == 0:
            kinds += ["rep", "f32", "u64", "dur_ms", "dur_us", "dur_s", "kb", "u32", "obs_u"]
        for k in kinds:
            pair += 1
            for strategy in ("exp", "atomic", "sam"):
                c = make_bucket_case(table, b, strategy, k, OCCS, rng)
                if c:
                    c["pair"] = pair
                    cases.append(c)
    for i in range(60 if quick else 600):
        pair += 1
        seed = rng.randrange(1 << 30)
        for strategy in ("exp", "atomic", "sam"):
            r2 = random.Random(seed)
            c = make_mixed_case(table, strategy, r2, 30, with_merge=False)
            c["pair"] = pair
            cases.append(c)
        for strategy in ("exp", "sam"):
            cases.append(make_mixed_case(table, strategy, random.Random(seed + 1), 30, with_merge=True))
        pair += 1
        for strategy in ("exp", "atomic", "sam"):
            c = make_multi_case(table, strategy, random.Random(seed + 2))
            c["pair"] = pair
            cases.append(c)
    return cases, pair


def run_behaviours(chk, table, tier, rng):
    cases = []
    pair = 1 << 40
    for strat, cfg in (("exp", "MC_replay_exp"), ("sam", "MC_replay_sam")):
        cfgf = cfg + ("_quick.cfg" if tier == "quick" else ".cfg")
        rr = vlib.tlc(SPECD, "HistogramReplay", cfgf, timeout=1800)
        if rr.errors or rr.invariant_violated:
            raise vlib.ToolError(f"HistogramReplay/{cfgf} failed: {rr.errors[:2]}")
        chk.add_model("HistogramReplay/" + cfgf, rr)
        behs = vlib.replay_lines(rr)
        chk.extra[f"behaviours_{strat}"] = len(behs)
        for beh in behs:
            seed = rng.randrange(1 << 30)
            c = behaviour_case(table, beh, strat, random.Random(seed))
            pair += 1
            c["pair"] = pair
            cases.append(c)
            if strat == "exp" and not any(s["op"] == "merge" for s in c["steps"]):
                c2 = behaviour_case(table, beh, "exp", random.Random(seed))
                c2["strategy"] = "atomic"
                c2["pair"] = pair
                cases.append(c2)
    return cases


def run(prop, tier):
    chk = vlib.Check(prop, tier)
    chk.rule = ("evaluations = cases executed on the real Histogram/SharedHistogram (one case = one histogram fed the "
                "concretised representatives of one bucket of TLC's table through one source kind and strategy, or one "
                "TLC behaviour, or one mixed/multi-observation case, or one concurrent run); distinct_nontrivial = "
                "distinct (strategy, source, bucket | behaviour | seed)")
    chk.assumptions = [
        "exponential strategies: reported value r = total/occurrences (exact rationals of the f64s) must satisfy "
        "|r - x| <= x/16 for x >= 1/32 and |r - x| <= 1/1024 for x < 1/32, compared exactly (no epsilon)",
        "sort-and-merge, plain single f64/f32/integer observations: judged exactly on the recorded f64 bit patterns (every "
        "distinct recorded f64 once, strictly ascending, exact count; value exact for count 1, 1 ulp of total = v * n "
        "otherwise), including adjacent floats below and above 1.0, values around 1e-17 and subnormals; a tolerance "
        "(relative 1e-12, and no judgement when distinct inputs are closer than that) is kept ONLY where the recorded "
        "value passes through total = v * n (Repeated, merged closed histograms) or a unit conversion (Duration, bytes)",
        "concurrency: besides 8 x 1e5 adds into one histogram, ~150k short-lived SharedHistograms (2 and 3 threads, one "
        "value each, far-apart values half of the time, closed immediately): a race, so detection is probabilistic",
        "the bound for values that are not bucket boundaries / neighbours / midpoints is argued from monotonicity inside a "
        "bucket, not enumerated; the property's domain is values below 2^43 - rows above are replayed but only feed MODEL-DRIFT",
        "occurrence counts up to 2^33+1 per record (1000 for sort-and-merge: it stores every occurrence)",
        "re-aggregation: exponential strategies must report exactly the same values and counts (no tolerance); "
        "sort-and-merge exactly when the reported value total/occurrences is itself an f64, else relative 1e-12. Every "
        "bucket below scaled 64 (reported value = lower boundary) and a seeded sample above, with every bucket count "
        "1..256 (1..1024 thorough) plus 1000, 4099, 65537, 2^20+1, 2^33+1",
        "histogram crate atomics: fetch_add / swap are linearizable (modelled as atomic steps)",
        "TLC: <= 3 concurrent recorders x <= 2 records with a concurrent bucket-by-bucket drain; behaviours up to depth 4/5",
    ]
    vlib.cargo_build(["hist"])
    table = load_table(chk)
    mcs = [("Histogram", "MC_atomic_quick.cfg" if tier == "quick" else "MC_atomic.cfg"), ("Histogram", "MC_exp.cfg"),
           ("Histogram", "MC_sam.cfg")]
    for mod, cfg in ([] if vlib.SKIP_MC else mcs):      # self-test only: code-independent model checking skipped
        r = vlib.model_check(SPECD, mod, cfg, timeout=3600)
        chk.add_model(f"{mod}/{cfg}", r)
    if not vlib.SKIP_MC:
        r = vlib.model_check(SPECD, "HistogramAux", "MC_aux_atomic.cfg", timeout=600)
        chk.add_model("HistogramAux/MC_aux_atomic.cfg", r)
        r = vlib.model_check(SPECD, "HistogramAux", "MC_aux_racy.cfg", expect_ok=False, timeout=600)
        if "CloseReportsAll" not in r.invariant_violated:
            raise vlib.ToolError("negative model HistogramAux/MC_aux_racy.cfg no longer loses an observation")
        chk.extra["negative_model_racy_summary_violates_CloseReportsAll"] = True
    rng = random.Random(chk.seed * 7919 + 11)
    cases, _ = build_cases(table, tier, rng)
    cases += run_behaviours(chk, table, tier, rng)
    cases += reagg_cases(table, tier, rng)
    cases += near_cases(rng, tier)
    results = run_cases(chk, table, cases, "table")
    compare_variants(chk, cases, results)
    run_conc(chk, table, runs=1 if tier == "quick" else 50)
    run_race(chk, table, rounds=200 if tier == "quick" else 2000, threads=2)
    run_race(chk, table, rounds=100 if tier == "quick" else 1000, threads=3)
    chk.extra["buckets_covered"] = 976
    chk.extra["cases_by_source"] = {}
    for c in cases:
        chk.extra["cases_by_source"][c["kind"]] = chk.extra["cases_by_source"].get(c["kind"], 0) + 1
    for c in cases[:2000:700]:
        chk.sample({"strategy": c["strategy"], "source": c["kind"], "what": c.get("what"),
                    "first_adds": [s.get("v") for s in c["steps"][:3]]})
    return chk.finish()


def replay(prop, path):
    with open(path) as f:
        v = json.load(f)
    rp = v["replay"]
    vlib.cargo_build(["hist"])
    chk = vlib.Check(prop + "-replay", "quick")
    table = load_table(chk)
    if rp["kind"] == "case":
        run_cases(chk, table, [rp["case"]], "replay")
    elif rp["kind"] == "pair":
        cs = [rp["exp"], rp["atomic"]]
        res = run_cases(chk, table, cs, "replay")
        compare_variants(chk, cs, res)
    elif rp["kind"] == "race":
        for _ in range(5):
            run_race(chk, table, rounds=rp["rounds"], threads=rp["threads"], per_round=rp["per_round"], seed=rp["seed"])
            if chk.violations:
                break
    elif rp["kind"] == "conc":
        chk.seed = rp["seed"]
        run_conc(chk, table, runs=rp["run"] + 1, threads=rp["threads"], per=rp["per"])
    log("replay:", "violation reproduced" if chk.violations else "no violation")
    return 1 if chk.violations else 0
