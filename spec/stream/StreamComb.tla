----------------------------- MODULE StreamComb -----------------------------
(***************************************************************************)
(* X06: the EntryIoStream combinators of metrique-writer/src/stream.rs.     *)
(*                                                                         *)
(*   Tee::next    = s1.next(entry).and(s2.next(entry))   -- the argument    *)
(*                  of Result::and is evaluated eagerly: BOTH children are  *)
(*                  offered the entry, s1 first; the result is s1's error   *)
(*                  if any, else s2's result                                *)
(*   Tee::flush   = r1 = s1.flush(); r2 = s2.flush(); r1.and(r2)            *)
(*   MergeGlobals = child.next(globals.merge_by_ref(entry)): the globals'   *)
(*                  fields first, then the entry's; flush passes through    *)
(*   MergeGlobalDimensions with no dimensions = pass-through                *)
(*   NullEntryIoStream = Ok, nothing recorded                               *)
(*                                                                         *)
(* A topology is a tree over three scripted leaves L1..L3.  Every call on   *)
(* the root comes with a script (the answer each leaf will give if it is    *)
(* called).  Errors carry the leaf that produced them, so "whose error" is  *)
(* observable.  CONSTANT Bug selects deliberately broken variants which the *)
(* invariants must reject.                                                  *)
(***************************************************************************)
EXTENDS Naturals, Sequences, FiniteSets

CONSTANTS Topos,      \* names of the topologies explored (initial choice)
          Entries,    \* entry ids
          MaxOps,     \* length of a behaviour
          MaxFaults,  \* scripted non-ok answers per behaviour
          Bug         \* "none" | "shortcircuit" | "lastError" | "flushShort" | "globalsAfter"

VARIABLES topo,    \* the topology of this behaviour
          log,     \* leaf -> sequence of [e, fields, res] it was offered
          nflush,  \* leaf -> number of flush calls
          order,   \* global sequence of leaf calls [leaf, op, e]
          hist     \* root calls: [op, e, sc, calls, res]
vars == <<topo, log, nflush, order, hist>>

LeafIds == {"L1", "L2", "L3"}
Ok == [k |-> "ok", by |-> "-"]

Leaf(l)   == [k |-> "leaf", id |-> l]
Tee(a, b) == [k |-> "tee", a |-> a, b |-> b]
MG(c)     == [k |-> "mg", c |-> c]      \* merge_globals(G), G has the single field "g"
MGD(c)    == [k |-> "mgd", c |-> c]     \* merge_global_dimensions with no dimensions
Null      == [k |-> "null"]

Tree(t) ==
  CASE t = "T12"     -> Tee(Leaf("L1"), Leaf("L2"))
    [] t = "TT12_3"  -> Tee(Tee(Leaf("L1"), Leaf("L2")), Leaf("L3"))
    [] t = "T1_T23"  -> Tee(Leaf("L1"), Tee(Leaf("L2"), Leaf("L3")))
    [] t = "MG_T12"  -> MG(Tee(Leaf("L1"), Leaf("L2")))
    [] t = "T_MG1_2" -> Tee(MG(Leaf("L1")), Leaf("L2"))
    [] t = "T1_N"    -> Tee(Leaf("L1"), Null)
    [] t = "TN_1"    -> Tee(Null, Leaf("L1"))
    [] t = "MGD_T12" -> MGD(Tee(Leaf("L1"), Leaf("L2")))
    [] t = "T_MG12_MGD3" -> Tee(MG(Tee(Leaf("L1"), Leaf("L2"))), MGD(Leaf("L3")))
AllTopos == {"T12", "TT12_3", "T1_T23", "MG_T12", "T_MG1_2", "T1_N", "TN_1", "MGD_T12", "T_MG12_MGD3"}

Range(s) == {s[i] : i \in 1..Len(s)}

RECURSIVE LeavesLR(_)
LeavesLR(n) ==
  CASE n.k = "leaf" -> <<n.id>>
    [] n.k = "tee"  -> LeavesLR(n.a) \o LeavesLR(n.b)
    [] n.k \in {"mg", "mgd"} -> LeavesLR(n.c)
    [] OTHER -> <<>>

RECURSIVE HasNull(_)
HasNull(n) ==
  CASE n.k = "null" -> TRUE
    [] n.k = "tee"  -> HasNull(n.a) \/ HasNull(n.b)
    [] n.k \in {"mg", "mgd"} -> HasNull(n.c)
    [] OTHER -> FALSE

\* the fields a leaf must see in front of the entry's own: one "g" per MergeGlobals above it
RECURSIVE Above(_, _)
Above(n, l) ==
  CASE n.k = "tee" -> IF l \in Range(LeavesLR(n.a)) THEN Above(n.a, l) ELSE Above(n.b, l)
    [] n.k = "mg"  -> <<"g">> \o Above(n.c, l)
    [] n.k = "mgd" -> Above(n.c, l)
    [] OTHER -> <<>>

(***************************************************************************)
(* The code.                                                                *)
(***************************************************************************)
RECURSIVE EvNext(_, _, _, _)
EvNext(n, e, fields, sc) ==
  CASE n.k = "leaf" ->
         LET r == IF sc[n.id] = "ok" THEN Ok ELSE [k |-> sc[n.id], by |-> n.id]
         IN [calls |-> <<[leaf |-> n.id, e |-> e, fields |-> fields, res |-> r]>>, res |-> r]
    [] n.k = "null" -> [calls |-> <<>>, res |-> Ok]
    [] n.k = "mg"   -> EvNext(n.c, e, IF Bug = "globalsAfter" THEN fields \o <<"g">> ELSE <<"g">> \o fields, sc)
    [] n.k = "mgd"  -> EvNext(n.c, e, fields, sc)
    [] n.k = "tee"  ->
         LET ra == EvNext(n.a, e, fields, sc) IN
         IF Bug = "shortcircuit" /\ ra.res # Ok THEN ra
         ELSE LET rb == EvNext(n.b, e, fields, sc) IN
              [calls |-> ra.calls \o rb.calls,
               res |-> IF Bug = "lastError"
                       THEN (IF rb.res # Ok THEN rb.res ELSE ra.res)
                       ELSE (IF ra.res # Ok THEN ra.res ELSE rb.res)]

RECURSIVE EvFlush(_, _)
EvFlush(n, sc) ==
  CASE n.k = "leaf" ->
         LET r == IF sc[n.id] = "ok" THEN Ok ELSE [k |-> sc[n.id], by |-> n.id]
         IN [calls |-> <<[leaf |-> n.id, e |-> 0, fields |-> <<>>, res |-> r]>>, res |-> r]
    [] n.k = "null" -> [calls |-> <<>>, res |-> Ok]
    [] n.k \in {"mg", "mgd"} -> EvFlush(n.c, sc)
    [] n.k = "tee"  ->
         LET ra == EvFlush(n.a, sc) IN
         IF Bug = "flushShort" /\ ra.res # Ok THEN ra
         ELSE LET rb == EvFlush(n.b, sc) IN
              [calls |-> ra.calls \o rb.calls, res |-> IF ra.res # Ok THEN ra.res ELSE rb.res]

(***************************************************************************)
(* Behaviours.                                                              *)
(***************************************************************************)
Faults(sc) == Cardinality({l \in LeafIds : sc[l] # "ok"})
RECURSIVE Used(_)
Used(h) == IF h = <<>> THEN 0 ELSE Faults(h[Len(h)].sc) + Used(SubSeq(h, 1, Len(h) - 1))

Scripts(answers) ==
  {sc \in [LeafIds -> answers] :
     /\ \A l \in LeafIds \ Range(LeavesLR(Tree(topo))) : sc[l] = "ok"
     /\ Used(hist) + Faults(sc) <= MaxFaults}

Apply(op, e, sc, r) ==
  /\ hist' = Append(hist, [op |-> op, e |-> e, sc |-> sc, calls |-> r.calls, res |-> r.res])
  /\ order' = order \o [i \in 1..Len(r.calls) |-> [leaf |-> r.calls[i].leaf, op |-> op, e |-> e]]
  /\ log' = IF op = "next"
            THEN [l \in LeafIds |-> log[l] \o [i \in 1..Len(SelectSeq(r.calls, LAMBDA c : c.leaf = l)) |->
                                                 LET c == SelectSeq(r.calls, LAMBDA x : x.leaf = l)[i]
                                                 IN [e |-> c.e, fields |-> c.fields, res |-> c.res]]]
            ELSE log
  /\ nflush' = IF op = "flush"
               THEN [l \in LeafIds |-> nflush[l] + Len(SelectSeq(r.calls, LAMBDA c : c.leaf = l))]
               ELSE nflush
  /\ UNCHANGED topo

RootNext(e, sc)  == Apply("next", e, sc, EvNext(Tree(topo), e, <<"id">>, sc))
RootFlush(sc)    == Apply("flush", 0, sc, EvFlush(Tree(topo), sc))

Init == /\ topo \in Topos
        /\ log = [l \in LeafIds |-> <<>>]
        /\ nflush = [l \in LeafIds |-> 0]
        /\ order = <<>>
        /\ hist = <<>>

Next == /\ Len(hist) < MaxOps
        /\ \/ \E e \in Entries, sc \in Scripts({"ok", "val", "io"}) : RootNext(e, sc)
           \/ \E sc \in Scripts({"ok", "err"}) : RootFlush(sc)

Spec == Init /\ [][Next]_vars

(***************************************************************************)
(* Properties, stated over the history of the last root call (every prefix  *)
(* of a behaviour is a state) without reference to EvNext / EvFlush.        *)
(***************************************************************************)
T == Tree(topo)
LR == LeavesLR(T)
Last == hist[Len(hist)]
IsNext == hist # <<>> /\ Last.op = "next"
IsFlush == hist # <<>> /\ Last.op = "flush"
CallsOf(l) == {i \in 1..Len(Last.calls) : Last.calls[i].leaf = l}
\* the answer of the leftmost leaf scripted to fail, else Ok
Leftmost(sc) == LET bad == SelectSeq(LR, LAMBDA l : sc[l] # "ok")
                IN IF bad = <<>> THEN Ok ELSE [k |-> sc[bad[1]], by |-> bad[1]]

TypeOK == /\ topo \in AllTopos
          /\ Len(hist) <= MaxOps
          /\ \A l \in LeafIds : nflush[l] \in 0..MaxOps /\ Len(log[l]) <= MaxOps

\* every leaf below the root is offered exactly this entry exactly once, whatever its siblings answered
OfferedToAll == IsNext => \A l \in Range(LR) : /\ Cardinality(CallsOf(l)) = 1
                                                /\ \A i \in CallsOf(l) : Last.calls[i].e = Last.e
\* leaves are called left to right (next and flush)
LeafOrder == hist # <<>> =>
               \A i, j \in 1..Len(Last.calls) :
                 i < j => \E p, q \in 1..Len(LR) : p < q /\ LR[p] = Last.calls[i].leaf /\ LR[q] = Last.calls[j].leaf
\* the root reports the error of the leftmost failing leaf, else Ok
ErrorPrecedence == IsNext => Last.res = Leftmost(Last.sc)
\* a root flush flushes every leaf exactly once; result = leftmost error
FlushAll == IsFlush => /\ \A l \in Range(LR) : Cardinality(CallsOf(l)) = 1
                       /\ Last.res = Leftmost(Last.sc)
\* exactly the leaves under a MergeGlobals see the globals' field, in front of the entry's own
GlobalsOnlyBelow == IsNext => \A i \in 1..Len(Last.calls) :
                                Last.calls[i].fields = Above(T, Last.calls[i].leaf) \o <<"id">>
\* a Null child is never visible: no call is attributed to anything but the leaves, and no error to a non-leaf
NullSilent == (hist # <<>> /\ HasNull(T)) =>
                /\ \A i \in 1..Len(Last.calls) : Last.calls[i].leaf \in Range(LR)
                /\ Last.res = Ok \/ Last.res.by \in Range(LR)
                /\ (\A l \in Range(LR) : Last.sc[l] = "ok") => Last.res = Ok
\* the leaves' own records agree with the history
RECURSIVE CountCalls(_, _, _)
CountCalls(h, op, l) ==
  IF h = <<>> THEN 0
  ELSE CountCalls(SubSeq(h, 1, Len(h) - 1), op, l)
       + (IF h[Len(h)].op = op THEN Len(SelectSeq(h[Len(h)].calls, LAMBDA c : c.leaf = l)) ELSE 0)
LogConsistent == \A l \in LeafIds : /\ Len(log[l]) = CountCalls(hist, "next", l)
                                    /\ nflush[l] = CountCalls(hist, "flush", l)
                                    /\ Len(SelectSeq(order, LAMBDA c : c.leaf = l)) = Len(log[l]) + nflush[l]
=============================================================================
