CONSTANTS
  Cap = 3
  K = 2
  Reqs = {1, 2}
  MaxCalls = 8
  Counts = {1, 2, 4}
SPECIFICATION Spec
INVARIANT WInv
CHECK_DEADLOCK FALSE
