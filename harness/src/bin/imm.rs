//! X02 driver (b), (c), (d): the sinks that are not the background queue.
//!
//!   imm seq  --behaviours f.ndjson --out o.ndjson
//!       sequential behaviours of spec/sinks/ImmediateFlushReplay.tla (appends with scripted stream
//!       answers ok|val|io|panic / ok|err|panic, flush_async in between) on FlushImmediately (typed),
//!       build_boxed, build_any; per step: the stream calls made, the outcome (returned | panicked |
//!       blocked), readiness of the flush_async future at its first poll
//!   imm conc --scenarios f.ndjson --out trace.ndjson --meta meta.ndjson
//!       2-4 threads append concurrently to one sink; the stream logs Next / Flush (with the calling
//!       thread) from inside the call, the threads log AppStart / AppEnd / Panic / FlushAsync; the
//!       trace is validated by TLC against spec/sinks/ImmTrace.tla
//!   imm tsink --behaviours f.ndjson --out o.ndjson
//!       spec/sinks/TestSinksReplay.tla: scripted entries through test_util::to_test_entry /
//!       test_entry_sink / VecEntrySink and through a recording EntryWriter
//!   imm rl --scenarios f.ndjson --out trace.ndjson --meta meta.ndjson
//!       the background queue's in-band validation report (rate_limited!, one call site, writer
//!       thread) with wall-clock stamps, validated against spec/sinks/RateLimitTrace.tla

use metrique_writer::sink::{BackgroundQueueBuilder, FlushImmediately, FlushImmediatelyBuilder, VecEntrySink};
use metrique_writer::test_util::{self, TestEntrySink};
use metrique_writer::{AnyEntrySink, Entry, EntrySink};
use metrique_writer_core::{
    EntryConfig, EntryIoStream, EntryWriter, IoStreamError, MetricFlags, Observation, Unit, ValidationError, Value, ValueWriter,
};
use serde_json::{Value as J, json};
use std::borrow::Cow;
use std::cell::Cell;
use std::collections::HashMap;
use std::io::{self, Write};
use std::sync::mpsc;
use std::sync::{Arc, Barrier, Mutex};
use std::time::{Duration, Instant, SystemTime, UNIX_EPOCH};
use vharness::stream::{NumEntry, capture};
use vharness::{trace, util};

thread_local! {
    static ACTOR: Cell<u64> = const { Cell::new(0) };
}
fn actor() -> u64 {
    ACTOR.with(|a| a.get())
}
fn set_actor(t: u64) {
    ACTOR.with(|a| a.set(t));
}

// ------------------------------------------------------------------------------------------
// scripted stream that logs its calls with the calling thread
// ------------------------------------------------------------------------------------------
#[derive(Default)]
struct TCtl {
    /// entry id -> (answer of next, answer of the flush that follows)
    script: HashMap<u64, (String, String)>,
    spin_ns: u64,
    last: u64,
    epoch: u64,
}

#[derive(Clone, Default)]
struct TStream(Arc<Mutex<TCtl>>);

fn spin(ns: u64) {
    if ns == 0 {
        return;
    }
    let t0 = Instant::now();
    while (t0.elapsed().as_nanos() as u64) < ns {
        std::hint::spin_loop();
    }
}

impl EntryIoStream for TStream {
    fn next(&mut self, entry: &impl Entry) -> Result<(), IoStreamError> {
        let c = capture(entry);
        let id = c.id.unwrap_or(0);
        let (res, ns, live) = {
            let mut g = self.0.lock().unwrap_or_else(|e| e.into_inner());
            g.last = id;
            (g.script.get(&id).map(|x| x.0.clone()).unwrap_or_else(|| "ok".into()), g.spin_ns, g.epoch == trace::epoch())
        };
        if live {
            trace::ev(json!({"ev": "Next", "t": actor(), "e": id, "res": res}));
        }
        spin(ns);
        match res.as_str() {
            "val" => Err(IoStreamError::Validation(ValidationError::invalid("scripted validation error"))),
            "io" => Err(IoStreamError::Io(io::Error::other("scripted io error"))),
            "panic" => panic!("scripted panic in next"),
            _ => Ok(()),
        }
    }

    fn flush(&mut self) -> io::Result<()> {
        let (res, ns, live) = {
            let g = self.0.lock().unwrap_or_else(|e| e.into_inner());
            (g.script.get(&g.last).map(|x| x.1.clone()).unwrap_or_else(|| "ok".into()), g.spin_ns, g.epoch == trace::epoch())
        };
        if live {
            trace::ev(json!({"ev": "Flush", "t": actor(), "res": res}));
        }
        spin(ns / 2);
        match res.as_str() {
            "err" => Err(io::Error::other("scripted flush error")),
            "panic" => panic!("scripted panic in flush"),
            _ => Ok(()),
        }
    }
}

type AppendFn = Arc<dyn Fn(NumEntry) + Send + Sync>;
type AsyncFn = Arc<dyn Fn() -> bool + Send + Sync>;

fn poll_once(mut f: impl std::future::Future<Output = ()> + Unpin) -> bool {
    let w = futures::task::noop_waker();
    let mut cx = std::task::Context::from_waker(&w);
    std::pin::Pin::new(&mut f).poll(&mut cx).is_ready()
}

fn build_sink(kind: &str, s: TStream) -> (AppendFn, AsyncFn) {
    match kind {
        "imm_typed" => {
            let a = FlushImmediately::<NumEntry, _>::new(s);
            let b = a.clone();
            (Arc::new(move |e| a.append(e)), Arc::new(move || poll_once(b.flush_async())))
        }
        "imm_boxed" => {
            let a = FlushImmediatelyBuilder::new().build_boxed(s);
            let b = a.clone();
            (Arc::new(move |e| a.append_any(e)), Arc::new(move || poll_once(AnyEntrySink::flush_async(&b))))
        }
        "imm_any" => {
            let a = FlushImmediatelyBuilder::new().metric_name("x02").build_any(s);
            let b = a.clone();
            (Arc::new(move |e| a.append_any(e)), Arc::new(move || poll_once(AnyEntrySink::flush_async(&b))))
        }
        other => panic!("unknown sink {other}"),
    }
}

// ------------------------------------------------------------------------------------------
// seq
// ------------------------------------------------------------------------------------------
fn run_seq_one(b: &J) -> Vec<J> {
    set_actor(1);
    let st = TStream::default();
    st.0.lock().unwrap().epoch = trace::epoch();
    for s in b["steps"].as_array().unwrap() {
        if s["op"] == "Append" {
            st.0.lock().unwrap().script.insert(
                s["e"].as_u64().unwrap(),
                (s["next"].as_str().unwrap_or("ok").to_string(), s["flush"].as_str().unwrap_or("ok").to_string()),
            );
        }
    }
    let (append, fasync) = build_sink(b["sink"].as_str().unwrap_or("imm_typed"), st);
    let mut out = Vec::new();
    for s in b["steps"].as_array().unwrap() {
        trace::take();
        match s["op"].as_str().unwrap_or("") {
            "Append" => {
                let e = s["e"].as_u64().unwrap();
                let r = util::catch(|| append(NumEntry(e)));
                let calls = trace::take();
                out.push(json!({"outcome": if r.is_ok() { "returned" } else { "panicked" }, "calls": calls,
                                "message": r.err()}));
            }
            "FlushAsync" => {
                let r = util::catch(|| fasync());
                let calls = trace::take();
                out.push(json!({"ready": r.clone().unwrap_or(false), "calls": calls, "message": r.err()}));
            }
            other => panic!("unknown op {other}"),
        }
    }
    out
}

fn cmd_seq(a: &HashMap<String, String>) {
    let beh = Arc::new(util::read_ndjson(util::arg_str(a, "behaviours", "")));
    let mut f = io::BufWriter::new(std::fs::File::create(util::arg_str(a, "out", "")).unwrap());
    // a worker thread runs the behaviours one after the other; the main thread is the watchdog: an
    // append that never returns (a wedged lock) must not hang the driver
    let mut start = 0usize;
    let mut gen_no = 0u64;
    while start < beh.len() {
        gen_no += 1;
        let (tx, rx) = mpsc::channel();
        let b2 = beh.clone();
        let base = gen_no * 10_000_000;
        std::thread::spawn(move || {
            for i in start..b2.len() {
                trace::set_epoch(base + i as u64);
                trace::take();
                if tx.send((i, run_seq_one(&b2[i]))).is_err() {
                    return;
                }
            }
        });
        loop {
            match rx.recv_timeout(Duration::from_secs(10)) {
                Ok((i, obs)) => {
                    serde_json::to_writer(&mut f, &json!({"id": beh[i]["id"], "obs": obs})).unwrap();
                    f.write_all(b"\n").unwrap();
                    start = i + 1;
                    if start == beh.len() {
                        break;
                    }
                }
                Err(_) => {
                    // the worker is stuck in behaviour `start`: report it, leave the worker behind
                    trace::set_epoch(u64::MAX);
                    serde_json::to_writer(&mut f, &json!({"id": beh[start]["id"], "blocked": true})).unwrap();
                    f.write_all(b"\n").unwrap();
                    start += 1;
                    break;
                }
            }
        }
    }
    f.flush().unwrap();
}

// ------------------------------------------------------------------------------------------
// conc
// ------------------------------------------------------------------------------------------
struct Out {
    trace: io::BufWriter<std::fs::File>,
    meta: io::BufWriter<std::fs::File>,
    line: usize,
}
impl Out {
    fn new(a: &HashMap<String, String>) -> Out {
        Out {
            trace: io::BufWriter::new(std::fs::File::create(util::arg_str(a, "out", "")).unwrap()),
            meta: io::BufWriter::new(std::fs::File::create(util::arg_str(a, "meta", "")).unwrap()),
            line: 0,
        }
    }
    fn put(&mut self, sc: &J, evs: &[J], extra: J) {
        trace::append_ndjson(&mut self.trace, evs).unwrap();
        let mut m = json!({"id": sc["id"], "first_line": self.line + 1, "last_line": self.line + evs.len(),
                           "events": evs.len(), "scenario": sc});
        if let (Some(mo), Some(eo)) = (m.as_object_mut(), extra.as_object()) {
            for (k, v) in eo {
                mo.insert(k.clone(), v.clone());
            }
        }
        serde_json::to_writer(&mut self.meta, &m).unwrap();
        self.meta.write_all(b"\n").unwrap();
        self.line += evs.len();
    }
    fn finish(mut self) {
        self.trace.flush().unwrap();
        self.meta.flush().unwrap();
    }
}

fn cmd_conc(a: &HashMap<String, String>) {
    let scen = util::read_ndjson(util::arg_str(a, "scenarios", ""));
    let mut out = Out::new(a);
    let mut epoch = 0u64;
    for sc in scen {
        epoch += 1;
        trace::set_epoch(epoch);
        trace::take();
        trace::ev(json!({"ev": "Reset"}));
        let n = sc["threads"].as_u64().unwrap_or(2);
        let per = sc["per"].as_u64().unwrap_or(3);
        let async_every = sc["async_every"].as_u64().unwrap_or(0);
        let st = TStream::default();
        {
            let mut g = st.0.lock().unwrap();
            g.epoch = epoch;
            g.spin_ns = sc["spin_ns"].as_u64().unwrap_or(0);
            if let Some(m) = sc["script"].as_object() {
                for (k, v) in m {
                    g.script.insert(k.parse().unwrap(), (v[0].as_str().unwrap_or("ok").into(), v[1].as_str().unwrap_or("ok").into()));
                }
            }
        }
        let (append, fasync) = build_sink(sc["sink"].as_str().unwrap_or("imm_typed"), st);
        let barrier = Arc::new(Barrier::new(n as usize));
        let (tx, rx) = mpsc::channel();
        let pause_ns = sc["pause_ns"].as_u64().unwrap_or(0);
        for t in 1..=n {
            let append = append.clone();
            let fasync = fasync.clone();
            let barrier = barrier.clone();
            let tx = tx.clone();
            std::thread::spawn(move || {
                set_actor(t);
                barrier.wait();
                for i in 1..=per {
                    let e = t * 10 + i;
                    if trace::epoch() != epoch {
                        return;
                    }
                    trace::ev(json!({"ev": "AppStart", "t": t, "e": e}));
                    let r = util::catch(|| append(NumEntry(e)));
                    if trace::epoch() != epoch {
                        return;
                    }
                    match r {
                        Ok(()) => trace::ev(json!({"ev": "AppEnd", "t": t, "e": e})),
                        Err(_) => trace::ev(json!({"ev": "Panic", "t": t, "e": e})),
                    };
                    if async_every > 0 && (i + t) % async_every == 0 {
                        let ready = util::catch(|| fasync()).unwrap_or(false);
                        trace::ev(json!({"ev": "FlushAsync", "t": t, "ready": ready}));
                    }
                    spin(pause_ns * ((t + i) % 3));
                }
                let _ = tx.send(t);
            });
        }
        drop(tx);
        let deadline = Instant::now() + Duration::from_secs(10);
        let mut done = Vec::new();
        while done.len() < n as usize {
            match rx.recv_timeout(deadline.saturating_duration_since(Instant::now())) {
                Ok(t) => done.push(t),
                Err(_) => break,
            }
        }
        let mut blocked = Vec::new();
        for t in 1..=n {
            if !done.contains(&t) {
                trace::ev(json!({"ev": "Blocked", "t": t}));
                blocked.push(t);
            }
        }
        let evs = trace::take();
        trace::set_epoch(epoch + 1_000_000); // late events of leaked threads are dropped
        out.put(&sc, &evs, json!({"blocked": blocked}));
    }
    out.finish();
}

// ------------------------------------------------------------------------------------------
// (d) test sinks
// ------------------------------------------------------------------------------------------
/// A scripted entry: the EntryWriter calls it makes are data.
#[derive(Clone, Debug)]
struct ScriptEntry(Arc<Vec<J>>);

struct SVal<'a>(&'a J);
impl Value for SVal<'_> {
    fn write(&self, w: impl ValueWriter) {
        let c = self.0;
        match c["kind"].as_str().unwrap_or("") {
            "string" => w.string(c["s"].as_str().unwrap_or("")),
            "metric" => {
                let obs: Vec<Observation> = c["obs"].as_array().map(|a| a.iter().map(parse_obs).collect()).unwrap_or_default();
                let dims: Vec<(String, String)> = c["dims"]
                    .as_array()
                    .map(|a| a.iter().map(|d| (d[0].as_str().unwrap_or("").to_string(), d[1].as_str().unwrap_or("").to_string())).collect())
                    .unwrap_or_default();
                let flags = if c["flag"].as_bool().unwrap_or(false) {
                    MetricFlags::upcast(&test_util::TestFlagOpt)
                } else {
                    MetricFlags::empty()
                };
                w.metric(obs, parse_unit(c["unit"].as_str().unwrap_or("None")), dims.iter().map(|(k, v)| (k.as_str(), v.as_str())), flags)
            }
            // a value that writes nothing (e.g. Option::None)
            _ => {}
        }
    }
}

fn parse_obs(o: &J) -> Observation {
    match o["t"].as_str().unwrap_or("u") {
        "f" => Observation::Floating(o["v"].as_f64().unwrap_or(0.0)),
        "r" => Observation::Repeated { total: o["v"].as_f64().unwrap_or(0.0), occurrences: o["n"].as_u64().unwrap_or(1) },
        _ => Observation::Unsigned(o["v"].as_u64().unwrap_or(0)),
    }
}

fn obs_json(o: &Observation) -> J {
    match o {
        Observation::Unsigned(v) => json!({"t": "u", "v": v}),
        Observation::Floating(v) => json!({"t": "f", "v": v}),
        Observation::Repeated { total, occurrences } => json!({"t": "r", "v": total, "n": occurrences}),
        _ => json!({"t": "?"}),
    }
}

fn parse_unit(s: &str) -> Unit {
    use metrique_writer_core::unit::{NegativeScale, PositiveScale};
    match s {
        "Seconds" => Unit::Second(NegativeScale::One),
        "Milliseconds" => Unit::Second(NegativeScale::Milli),
        "Bytes" => Unit::Byte(PositiveScale::One),
        "Kilobytes" => Unit::Byte(PositiveScale::Kilo),
        "Percent" => Unit::Percent,
        "Count" => Unit::Count,
        _ => Unit::None,
    }
}

impl Entry for ScriptEntry {
    fn write<'a>(&'a self, w: &mut impl EntryWriter<'a>) {
        for c in self.0.iter() {
            match c["call"].as_str().unwrap_or("") {
                "timestamp" => w.timestamp(UNIX_EPOCH + Duration::from_secs(c["secs"].as_u64().unwrap_or(0))),
                "value" => w.value(c["name"].as_str().unwrap_or("").to_string(), &SVal(c)),
                _ => {}
            }
        }
    }
}

/// Recording EntryWriter: what a real format is given, call by call.
#[derive(Default)]
struct RecW {
    calls: Vec<J>,
}
struct RecV<'w>(&'w mut Vec<J>, String);
impl ValueWriter for RecV<'_> {
    fn string(self, value: &str) {
        self.0.push(json!({"call": "value", "name": self.1, "kind": "string", "s": value}));
    }
    fn metric<'a>(
        self,
        distribution: impl IntoIterator<Item = Observation>,
        unit: Unit,
        dimensions: impl IntoIterator<Item = (&'a str, &'a str)>,
        flags: MetricFlags<'_>,
    ) {
        let obs: Vec<J> = distribution.into_iter().map(|o| obs_json(&o)).collect();
        let dims: Vec<J> = dimensions.into_iter().map(|(k, v)| json!([k, v])).collect();
        self.0.push(json!({"call": "value", "name": self.1, "kind": "metric", "obs": obs, "unit": unit.name(), "dims": dims,
                           "flag": flags.downcast::<test_util::TestFlagOpt>().is_some()}));
    }
    fn error(self, error: ValidationError) {
        self.0.push(json!({"call": "value", "name": self.1, "kind": "error", "s": format!("{error}")}));
    }
}
impl<'a> EntryWriter<'a> for RecW {
    fn timestamp(&mut self, t: SystemTime) {
        self.calls.push(json!({"call": "timestamp", "secs": t.duration_since(UNIX_EPOCH).map(|d| d.as_secs()).unwrap_or(0)}));
    }
    fn value(&mut self, name: impl Into<Cow<'a, str>>, value: &(impl Value + ?Sized)) {
        let name = name.into().into_owned();
        let before = self.calls.len();
        value.write(RecV(&mut self.calls, name.clone()));
        if self.calls.len() == before {
            self.calls.push(json!({"call": "value", "name": name, "kind": "none"}));
        }
    }
    fn config(&mut self, _config: &'a dyn EntryConfig) {}
}

fn test_entry_json(e: &test_util::TestEntry) -> J {
    let mut values: Vec<(String, String)> = e.values.iter().map(|(k, v)| (k.clone(), v.clone())).collect();
    values.sort();
    let mut metrics: Vec<(String, J)> = e
        .metrics
        .iter()
        .map(|(k, m)| {
            (
                k.clone(),
                json!({"obs": m.distribution.iter().map(obs_json).collect::<Vec<_>>(), "unit": m.unit.name(),
                       "dims": m.dimensions.iter().map(|(a, b)| json!([a, b])).collect::<Vec<_>>(), "flag": m.test_flag}),
            )
        })
        .collect();
    metrics.sort_by(|a, b| a.0.cmp(&b.0));
    json!({"timestamp": e.timestamp.map(|t| t.duration_since(UNIX_EPOCH).map(|d| d.as_secs()).unwrap_or(0)),
           "values": values.iter().map(|(k, v)| json!([k, v])).collect::<Vec<_>>(),
           "metrics": metrics.iter().map(|(k, v)| json!([k, v])).collect::<Vec<_>>()})
}

fn cmd_tsink(a: &HashMap<String, String>) {
    let beh = util::read_ndjson(util::arg_str(a, "behaviours", ""));
    let mut f = io::BufWriter::new(std::fs::File::create(util::arg_str(a, "out", "")).unwrap());
    for b in beh {
        let entries: Vec<ScriptEntry> = b["entries"]
            .as_array()
            .map(|a| a.iter().map(|e| ScriptEntry(Arc::new(e.as_array().cloned().unwrap_or_default()))).collect())
            .unwrap_or_default();
        let vec_sink: VecEntrySink<ScriptEntry> = VecEntrySink::new();
        let TestEntrySink { inspector, sink } = test_util::test_entry_sink();
        let mut obs = Vec::new();
        for s in b["steps"].as_array().unwrap() {
            let r = util::catch(|| match s["op"].as_str().unwrap_or("") {
                "Append" => {
                    let e = entries[s["e"].as_u64().unwrap() as usize - 1].clone();
                    // what a real format would be given, call by call
                    let mut rec = RecW::default();
                    e.write(&mut rec);
                    let direct = test_util::to_test_entry(e.clone());
                    vec_sink.append(e.clone());
                    sink.append_any(e);
                    json!({"given": rec.calls, "test_entry": test_entry_json(&direct)})
                }
                "Entries" => json!({"inspector": inspector.entries().iter().map(test_entry_json).collect::<Vec<_>>()}),
                "Get" => {
                    let i = s["i"].as_u64().unwrap() as usize - 1;
                    json!({"get": test_entry_json(&inspector.get(i))})
                }
                "Drain" => {
                    let d = vec_sink.drain();
                    json!({"drained": d.iter().map(|e| {
                        let mut rec = RecW::default();
                        e.write(&mut rec);
                        J::Array(rec.calls)
                    }).collect::<Vec<_>>()})
                }
                "Contains" => {
                    let want = s["e"].as_u64().unwrap() as usize - 1;
                    let target = entries[want].0.clone();
                    json!({"contains": vec_sink.contains_entry(|e| *e.0 == *target)})
                }
                "FlushAsync" => json!({"ready": [poll_once(EntrySink::<ScriptEntry>::flush_async(&vec_sink)), poll_once(AnyEntrySink::flush_async(&sink))]}),
                other => panic!("unknown op {other}"),
            });
            obs.push(match r {
                Ok(v) => v,
                Err(p) => json!({"panic": p}),
            });
        }
        serde_json::to_writer(&mut f, &json!({"id": b["id"], "obs": obs})).unwrap();
        f.write_all(b"\n").unwrap();
    }
    f.flush().unwrap();
}

// ------------------------------------------------------------------------------------------
// (c) rate-limited in-band report of the background queue
// ------------------------------------------------------------------------------------------
struct RlStream {
    t0: Instant,
    epoch: u64,
}
impl RlStream {
    fn ms(&self) -> u64 {
        self.t0.elapsed().as_millis() as u64
    }
}
impl EntryIoStream for RlStream {
    fn next(&mut self, entry: &impl Entry) -> Result<(), IoStreamError> {
        let c = capture(entry);
        if self.epoch != trace::epoch() {
            return Ok(());
        }
        if c.report {
            trace::ev(json!({"ev": "Report", "ms": self.ms()}));
            return Ok(());
        }
        let id = c.id.unwrap_or(0);
        // odd ids fail validation
        if id % 2 == 1 {
            trace::ev(json!({"ev": "Fail", "e": id, "ms": self.ms()}));
            Err(IoStreamError::Validation(ValidationError::invalid("scripted validation error")))
        } else {
            trace::ev(json!({"ev": "Pass", "e": id, "ms": self.ms()}));
            Ok(())
        }
    }
    fn flush(&mut self) -> io::Result<()> {
        Ok(())
    }
}

fn cmd_rl(a: &HashMap<String, String>) {
    // no tracing subscriber is installed: the queue then reports validation errors in-band
    let scen = util::read_ndjson(util::arg_str(a, "scenarios", ""));
    let mut out = Out::new(a);
    let t0 = Instant::now();
    let mut epoch = 0u64;
    for sc in scen {
        epoch += 1;
        trace::set_epoch(epoch);
        trace::take();
        // the rate limiter's state is a static of the process: scenarios of one process continue each other
        trace::ev(json!({"ev": "Scenario", "ms": t0.elapsed().as_millis() as u64}));
        let (q, handle) = BackgroundQueueBuilder::new()
            .capacity(4096)
            .flush_interval(Duration::from_millis(50))
            .build::<NumEntry>(RlStream { t0, epoch });
        let threads = sc["threads"].as_u64().unwrap_or(1);
        let mut hs = Vec::new();
        for t in 0..threads {
            let q = q.clone();
            let bursts = sc["bursts"].as_array().cloned().unwrap_or_default();
            hs.push(std::thread::spawn(move || {
                let mut k = 0u64;
                for b in bursts {
                    std::thread::sleep(Duration::from_millis(b["gap_ms"].as_u64().unwrap_or(0)));
                    for _ in 0..b["n"].as_u64().unwrap_or(1) {
                        k += 1;
                        let fail = b["fail"].as_bool().unwrap_or(true);
                        // id parity decides the stream's answer
                        let id = (t * 100_000 + k) * 2 + if fail { 1 } else { 0 };
                        q.append(NumEntry(id));
                    }
                }
            }));
        }
        for h in hs {
            let _ = h.join();
        }
        futures::executor::block_on(q.flush_async());
        drop(q);
        drop(handle);
        trace::ev(json!({"ev": "End", "ms": t0.elapsed().as_millis() as u64}));
        let evs = trace::take();
        out.put(&sc, &evs, json!({}));
    }
    out.finish();
}

fn main() {
    std::panic::set_hook(Box::new(|_| {}));
    let (cmd, a) = util::args();
    match cmd.as_str() {
        "seq" => cmd_seq(&a),
        "conc" => cmd_conc(&a),
        "tsink" => cmd_tsink(&a),
        "rl" => cmd_rl(&a),
        _ => {
            eprintln!("usage: imm seq|conc|tsink|rl ...");
            std::process::exit(2);
        }
    }
}
