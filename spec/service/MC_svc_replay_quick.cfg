\* every sequence of 5 operations (at most 2 requests)
CONSTANTS
  Depth = 5
  MaxReq = 2
  RModes = {"try", "guard", "fg", "wait", "disc"}
SPECIFICATION RSpec
INVARIANTS Emit SvcInv
CONSTRAINT Bound
CHECK_DEADLOCK FALSE
