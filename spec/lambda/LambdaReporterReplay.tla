------------------------ MODULE LambdaReporterReplay ------------------------
(***************************************************************************)
(* Behaviour generator for LambdaReporter: every sequence of MaxInv         *)
(* invocations (each: up to MaxUpd updates, then one flush_metrics against  *)
(* a destination behaving as chosen) is printed as one JSON line of         *)
(* API-level steps with the observation the model expects, and replayed by  *)
(* `lam one` in a process of its own (the reporter is process-global).      *)
(*                                                                         *)
(* hist only grows at API-level steps (updates, FlushCall..Return is one    *)
(* step whose observation is taken at Return); the internal steps of        *)
(* flush_metrics are deterministic, so behaviours and hist values           *)
(* correspond one to one.  To keep the number of processes useful:          *)
(* updates inside one invocation come in a canonical order (counter c1, c2, *)
(* histogram, then gauge sets in any order - only gauge sets do not         *)
(* commute), and after the destination has failed only "ok" is scripted     *)
(* (nothing reaches a destination any more, whatever it would do).          *)
(***************************************************************************)
EXTENDS LambdaReporter, Json

VARIABLES hist, d0, rank, rd
rvars == <<hist, d0, rank, rd>>

RInit == Init /\ hist = <<>> /\ d0 = 0 /\ rank = 0 /\ rd = Nil

Rank(op, k) == IF op = "Inc" THEN (IF k = "c1" THEN 1 ELSE 2) ELSE IF op = "Rec" THEN 3 ELSE 4

RUpd(op, k, v, A) ==
    /\ Rank(op, k) >= rank
    /\ A
    /\ rank' = Rank(op, k)
    /\ hist' = Append(hist, [op |-> op, k |-> k, v |-> v])
    /\ UNCHANGED <<d0, rd>>

RFlushCall(f) ==
    /\ (failed => f = "ok")
    /\ FlushCall(f)
    /\ d0' = Len(dest) /\ rank' = 0 /\ UNCHANGED <<hist, rd>>

RInternal == \/ Readout /\ rd' = cur' /\ UNCHANGED <<hist, d0, rank>>
             \/ (Format \/ Deliver \/ EmptyFlush) /\ UNCHANGED rvars

RReturn ==
    /\ Return
    /\ hist' = Append(hist, [op |-> "Flush", fault |-> fault, inv |-> inv,
                             delivered |-> SubSeq(dest, d0 + 1, Len(dest)),
                             readout |-> rd, failed |-> failed, surfaced |-> (failedAt = inv),
                             cells |-> [c |-> cnt, g |-> gau, h |-> hst]])
    /\ UNCHANGED <<d0, rank, rd>>

RNext ==
    \/ \E k \in CKeys : RUpd("Inc", k, IncOf(k), Inc(k))
    \/ \E k \in GKeys, v \in GVals : RUpd("Set", k, v, SetG(k, v))
    \/ \E k \in HKeys : RUpd("Rec", k, 5, Rec(k))
    \/ \E f \in Faults : RFlushCall(f)
    \/ RInternal \/ RReturn

RSpec == RInit /\ [][RNext]_<<vars, rvars>>

Emit == (inv = MaxInv /\ pc = "idle") =>
          PrintT(<<"REPLAY", ToJson([ninv |-> MaxInv, steps |-> hist])>>)
=============================================================================
