---------------------------- MODULE NamingReplay ----------------------------
(***************************************************************************)
(* Behaviour generator for Naming.tla.  Every reachable container state     *)
(* (root-to-container chain, chosen variant for entry enums) is printed as   *)
(* one JSON line that carries, for EVERY leaf kind of that container, the    *)
(* expectation Naming!LeafOut computes for the path chain+leaf, plus the     *)
(* tag item of the chosen variant: i.e. one line stands for the 11 (+1)      *)
(* root-to-leaf paths that end in this container.  The Leaf/TagLeaf steps    *)
(* themselves are not taken here (they are explored, with the sanity         *)
(* invariants, by the MC_naming*.cfg runs of Naming.tla); absent             *)
(* Option<Child> edges are terminal and printed as such.                     *)
(*                                                                         *)
(* Steps are rendered as ':'-separated tokens, a chain is the list of its    *)
(* tokens (tools/gen_naming.py rebuilds the type forest from them).          *)
(***************************************************************************)
EXTENDS Naming

B(b) == IF b THEN "1" ELSE "0"
Tok(st) == CASE st.t = "R" -> "R:" \o st.k \o ":" \o st.ra \o ":" \o st.pk \o ":" \o st.tk \o ":" \o B(st.tsg)
             [] st.t = "D" -> "D:" \o st.fk \o ":" \o st.opt \o ":" \o st.k \o ":" \o st.ra \o ":" \o st.pk \o ":" \o st.tk \o ":" \o B(st.tsg)
             [] st.t = "V" -> "V:" \o st.vk \o ":" \o B(st.named) \o ":" \o st.fk \o ":" \o st.cra \o ":" \o st.cpk
             [] st.t = "L" -> "L:" \o st.lk
             [] st.t = "T" -> "T"
Toks == [i \in 1..Len(steps) |-> Tok(steps[i])]

Exp(o) == [p |-> o.present, n |-> o.name, k |-> o.kind, u |-> o.unit, v |-> o.val, g |-> o.sg # <<>>]

\* the attribute strings as the generator has to write them for the last step of the chain
LastSt == steps[Len(steps)]
ParentIdx == IF Len(steps) < 2 THEN 0
             ELSE LET q == steps[Len(steps) - 1] IN IF q.t = "V" THEN Idx(steps[Len(steps) - 2].ra, steps[Len(steps) - 2].pk) ELSE Idx(q.ra, q.pk)
Attrs ==
    IF LastSt.t = "V"
    THEN [vident |-> Pascal(VariantWords(var)), vname |-> IF var.named THEN VariantOverride(var) ELSE ""]
    ELSE [cprefix |-> CASE LastSt.pk = "none" -> "" [] LastSt.pk = "infl" -> Written(ContainerInfl(LastSt.ra))
                        [] LastSt.pk = "exact" -> ContainerExact(LastSt.ra),
          fprefix |-> IF LastSt.t = "R" THEN ""
                      ELSE CASE LastSt.fk = "none" -> ""
                             [] LastSt.fk = "infl" -> Written(FlattenInfl(ParentIdx, Idx(LastSt.ra, LastSt.pk), TagIdx(LastSt.tk, LastSt.tsg)))
                             [] LastSt.fk = "exact" -> FlattenExact(ParentIdx, Idx(LastSt.ra, LastSt.pk), TagIdx(LastSt.tk, LastSt.tsg)),
          senum |-> SEnumStyle(Idx(LastSt.ra, LastSt.pk))]

Line ==
    IF phase = "done"
    THEN [fam |-> fam, chain |-> Toks, absent |-> TRUE, attrs |-> Attrs]
    ELSE [fam |-> fam, chain |-> Toks, absent |-> FALSE, sty |-> sty, flat |-> Concat(pre), attrs |-> Attrs,
          leaves |-> IF CanHoldFields /\ ~(fam = "enumnested" /\ depth = 1)
                     THEN [lk \in LeafKinds |-> Exp(LeafOut(lk, cur, sty, pre))] ELSE <<>>,
          tag |-> IF cur.k = "e" /\ var # NoV /\ cur.tk # "none" THEN <<Exp(TagOut(cur, sty, pre, var))>> ELSE <<>>]

\* the literals shared by all generated types
Meta == [ident |-> [lk \in {l \in LeafKinds : LeafBase[l] # <<>>} |-> Join(LeafBase[lk], "_")],
         override |-> Override, tagname |-> Join(TagInflWords, "_"), tagexact |-> TagExactName,
         senumvariant |-> Pascal(SEnumVariantWords), senumoverride |-> SEnumOverride]
ASSUME PrintT(<<"META", ToJson(Meta)>>)

\* the chain steps of Naming!Next; Leaf / TagLeaf are folded into the container's line
RNext ==
    \/ /\ phase = "root"
       /\ \E k \in {"s", "e"}, ra \in RAs, pk \in PKs, tk \in TKs, tsg \in BOOLEAN : Root(k, ra, pk, tk, tsg)
    \/ /\ phase = "in"
       /\ \/ \E fk \in FKs, opt \in {"no", "some", "none"}, k \in {"s", "e"}, ra \in RAs, pk \in PKs, tk \in TKs, tsg \in BOOLEAN :
                Descend(fk, opt, k, ra, pk, tk, tsg)
          \/ \E v \in VariantRecs : Variant(v)
RSpec == Init /\ [][RNext]_vars
Emit == (phase \in {"in", "done"}) => PrintT(<<"REPLAY", ToJson(Line)>>)
=============================================================================
