--------------------------- MODULE ValuePipeline ---------------------------
(***************************************************************************)
(* What a format sees when a value / an entry is written through the       *)
(* wrappers of metrique-writer(-core) and metrique (C15), and what a unit   *)
(* declaration / conversion does to the reported quantity (C19).            *)
(*                                                                         *)
(* A *call* is what reaches the format's ValueWriter for one value:         *)
(*   kind   "string" | "metric" | "error" | "nothing" (no method invoked)   *)
(*   obs    sequence of abstract observations [t, slot, e2, e10, occ]:      *)
(*          t = "U"nsigned | "F"loating | "R"epeated, slot = which concrete *)
(*          magnitude the harness plugs in, (e2,e10) = the emitted number   *)
(*          is magnitude * 2^e2 * 10^e10, occ = occurrences of a Repeated   *)
(*   unit   id of the emitted unit,  orig = id of the unit the magnitude    *)
(*          is expressed in ("None" = not declared yet)                     *)
(*   dims   sequence of dimension ids, flags  set of flag ids               *)
(* A *value* is a call plus the unit its type promises (MetricValue::Unit). *)
(* Every value wrapper is one function on values, applied innermost first - *)
(* the order in which the nested ValueWriter wrappers see the call on its   *)
(* way down to the format.                                                  *)
(*                                                                         *)
(* An *entry* is the ordered item list  timestamp | config | (name, call)   *)
(* seen by the format's EntryWriter, plus the sample group sequence.        *)
(*                                                                         *)
(* Two layers: Apply* (one step per wrapper layer, shaped like the code)    *)
(* and Denote* (the documented additions stated directly on the whole       *)
(* stack).  TLC checks that they agree on every stack (VPValueStacks,       *)
(* VPEntryStacks) and decides the unit algebra on every pair (VPUnitPairs). *)
(***************************************************************************)
EXTENDS Integers, Sequences, FiniteSets, TLC

-----------------------------------------------------------------------------
(* Units.  scale(u) = 2^p2 * 10^p10 base units (seconds resp. bits): only   *)
(* exponents are ever computed with, so TLC's 32-bit integers suffice.      *)
(* ids are the names of the Rust tag types, names the CloudWatch unit names *)

PlainUnits ==
    { [id |-> "None",    name |-> "None",    fam |-> "none",    p2 |-> 0, p10 |-> 0],
      [id |-> "Count",   name |-> "Count",   fam |-> "count",   p2 |-> 0, p10 |-> 0],
      [id |-> "Percent", name |-> "Percent", fam |-> "percent", p2 |-> 0, p10 |-> 0] }

TimeUnits ==
    { [id |-> "Second",      name |-> "Seconds",      fam |-> "time", p2 |-> 0, p10 |-> 0],
      [id |-> "Millisecond", name |-> "Milliseconds", fam |-> "time", p2 |-> 0, p10 |-> -3],
      [id |-> "Microsecond", name |-> "Microseconds", fam |-> "time", p2 |-> 0, p10 |-> -6] }

BitKinds ==
    { [cap |-> "Byte", low |-> "byte", p2 |-> 3, per |-> FALSE],
      [cap |-> "Bit",  low |-> "bit",  p2 |-> 0, per |-> FALSE],
      [cap |-> "Byte", low |-> "byte", p2 |-> 3, per |-> TRUE],
      [cap |-> "Bit",  low |-> "bit",  p2 |-> 0, per |-> TRUE] }

SiScales ==
    { [pre |-> "",     p10 |-> 0], [pre |-> "Kilo", p10 |-> 3], [pre |-> "Mega", p10 |-> 6],
      [pre |-> "Giga", p10 |-> 9], [pre |-> "Tera", p10 |-> 12] }

BitUnits ==
    { LET stem == IF s.pre = "" THEN k.cap ELSE s.pre \o k.low
      IN  [id   |-> stem \o (IF k.per THEN "PerSecond" ELSE ""),
           name |-> stem \o "s" \o (IF k.per THEN "/Second" ELSE ""),
           fam  |-> "bits", p2 |-> k.p2, p10 |-> s.p10] : k \in BitKinds, s \in SiScales }

Units == PlainUnits \cup TimeUnits \cup BitUnits
UnitIds == {u.id : u \in Units}
U(id) == CHOOSE u \in Units : u.id = id

\* the conversions the type system offers (Convert impls): None -> anything (a declaration),
\* and within the time family resp. the bit/byte(/second) family
Convertible(a, b) == a.fam = "none" \/ (a.fam = b.fam /\ a.fam \in {"time", "bits"})

Max(S) == CHOOSE x \in S : \A y \in S : y <= x
Min(S) == CHOOSE x \in S : \A y \in S : x <= y
RZero == [p2 |-> 0, p10 |-> 0]
RAdd(r, s) == [p2 |-> r.p2 + s.p2, p10 |-> r.p10 + s.p10]
\* emitted number = number * 2^p2 * 10^p10
Ratio(a, b) == IF a.fam = "none" THEN RZero ELSE [p2 |-> a.p2 - b.p2, p10 |-> a.p10 - b.p10]

ConvertiblePairs == {p \in Units \X Units : Convertible(p[1], p[2])}

\* sanity of the table itself
TableOK ==
    /\ Cardinality(Units) = 26 /\ Cardinality(BitUnits) = 20
    /\ Cardinality(UnitIds) = 26 /\ Cardinality({u.name : u \in Units}) = 26
    /\ Cardinality(ConvertiblePairs) = 26 + 9 + 400

\* the algebra C19 quantifies over, for one triple of units
Algebra(a, b, c) ==
    \* a conversion composed with its inverse is the identity
    /\ (Convertible(a, b) /\ Convertible(b, a)) => RAdd(Ratio(a, b), Ratio(b, a)) = RZero
    \* conversions compose (None -> x is a declaration, not a conversion)
    /\ (a.fam # "none" /\ Convertible(a, b) /\ Convertible(b, c))
          => (Convertible(a, c) /\ RAdd(Ratio(a, b), Ratio(b, c)) = Ratio(a, c))
    \* the quantity is preserved: number * scale(a) = number * ratio * scale(b)
    /\ (a.fam # "none" /\ Convertible(a, b))
          => (Ratio(a, b).p2 + b.p2 = a.p2 /\ Ratio(a, b).p10 + b.p10 = a.p10)
    \* declaring a unit on a unitless number does not scale it
    /\ a.fam = "none" => Ratio(a, b) = RZero
    /\ Ratio(a, a) = RZero

-----------------------------------------------------------------------------
(* Calls and base values *)

NoCall == [kind |-> "nothing", obs |-> <<>>, unit |-> "None", orig |-> "None", dims |-> <<>>,
           flags |-> {}, err |-> ""]
Ob(t, slot, e10, occ) == [t |-> t, slot |-> slot, e2 |-> 0, e10 |-> e10, occ |-> occ]
Metric(obs, unit, orig, dims, flags) ==
    [kind |-> "metric", obs |-> obs, unit |-> unit, orig |-> orig, dims |-> dims, flags |-> flags, err |-> ""]
StringCall == [NoCall EXCEPT !.kind = "string"]
ErrorCall(e) == [NoCall EXCEPT !.kind = "error", !.err = e]

AllBases == {"str", "u64", "f64", "dur", "distu", "distdur", "mean", "rich", "err", "empty", "bad", "zero", "zeron", "richi"}

\* what the plain value writes, and the unit its type promises
BaseVal(b) ==
    CASE b = "str"     -> [call |-> StringCall, prom |-> "None"]
      [] b = "u64"     -> [call |-> Metric(<<Ob("U", 1, 0, 0)>>, "None", "None", <<>>, {}), prom |-> "None"]
      [] b = "f64"     -> [call |-> Metric(<<Ob("F", 1, 0, 0)>>, "None", "None", <<>>, {}), prom |-> "None"]
      \* a Duration of m seconds is reported as m * 10^3 Milliseconds
      [] b = "dur"     -> [call |-> Metric(<<Ob("F", 1, 3, 0)>>, "Millisecond", "Second", <<>>, {}), prom |-> "Millisecond"]
      [] b = "distu"   -> [call |-> Metric(<<Ob("U", 1, 0, 0), Ob("U", 2, 0, 0), Ob("U", 3, 0, 0)>>, "None", "None", <<>>, {}),
                           prom |-> "None"]
      [] b = "distdur" -> [call |-> Metric(<<Ob("F", 1, 3, 0), Ob("F", 2, 3, 0)>>, "Millisecond", "Second", <<>>, {}),
                           prom |-> "Millisecond"]
      [] b = "mean"    -> [call |-> Metric(<<Ob("R", 1, 0, 2)>>, "None", "None", <<>>, {}), prom |-> "None"]
      \* a hand-written value: three kinds of observation, own dimension, own flag, unit Bytes
      [] b = "rich"    -> [call |-> Metric(<<Ob("U", 1, 0, 0), Ob("F", 2, 0, 0), Ob("R", 3, 0, 3)>>, "Byte", "Byte",
                                          <<"b0">>, {"C"}), prom |-> "Byte"]
      \* one observation of each kind, the Repeated with 3 occurrences, nothing else (an input of collectors)
      [] b = "tri"     -> [call |-> Metric(<<Ob("U", 1, 0, 0), Ob("F", 2, 0, 0), Ob("R", 3, 0, 3)>>, "None", "None", <<>>, {}),
                           prom |-> "None"]
      [] b = "err"     -> [call |-> ErrorCall("base"), prom |-> "None"]
      [] b = "empty"   -> [call |-> NoCall, prom |-> "None"]
      \* promises Seconds, writes Bytes
      [] b = "bad"     -> [call |-> Metric(<<Ob("U", 1, 0, 0)>>, "Byte", "Byte", <<>>, {}), prom |-> "Second"]
      \* a metric CALL with an empty observation list (ValueWriter::metric: legal, still reported to the
      \* format - e.g. a closed histogram that saw no sample): once with unit, own dimension and flag so
      \* that their loss is visible, once bare.  Not to be confused with "empty" (no call at all).
      [] b = "zero"    -> [call |-> Metric(<<>>, "Second", "Second", <<"z0">>, {"C"}), prom |-> "Second"]
      [] b = "zeron"   -> [call |-> Metric(<<>>, "None", "None", <<>>, {}), prom |-> "None"]
      \* a hand-written value with two own dimensions; the harness hands observations and dimensions to the
      \* writer through filter_map (size hint with lower bound 0) - invisible here: a sequence is a sequence
      [] b = "richi"   -> [call |-> Metric(<<Ob("U", 1, 0, 0), Ob("F", 2, 0, 0)>>, "None", "None", <<"b0", "b1">>, {}),
                           prom |-> "None"]

-----------------------------------------------------------------------------
(* Value wrappers: [w, ds, f, from, to] *)

VW(w) == [w |-> w, ds |-> <<>>, f |-> "", from |-> "", to |-> ""]
IdentityValueWrappers == {"Some", "Box", "Arc", "Cow", "Ref"}
\* the same containers reached through a ValueFormatter lifted over them (value/formatter.rs):
\* FormattedValue<Option<V>, F> etc. with a formatter F that writes V itself
FormatterLifted == {"FmtSome", "FmtBox", "FmtArc", "FmtCow", "FmtRef"}
IsNoneW(w) == w = "None" \/ w = "FmtNone"

AddDims(c, ds) == IF c.kind = "metric" THEN [c EXCEPT !.dims = @ \o ds] ELSE c
\* Flags of a call are a set ({} = the value reported no flags).  Merging is union; merging in NO flags - a
\* ForceFlag whose constructor returns MetricFlags::empty(), written f = "0" - is the identity of the merge
\* on either side: it never erases what the value already reported.
FlagMerge(x, y) == x \cup y
FlagsOf(f) == IF f = "0" THEN {} ELSE {f}
AddFlag(c, f) == IF c.kind = "metric" THEN [c EXCEPT !.flags = FlagMerge(@, FlagsOf(f))] ELSE c
FlagMergeLaws ==
    \A x \in SUBSET {"A", "B", "C"}, y \in SUBSET {"A", "B", "C"} :
        /\ FlagMerge(x, {}) = x /\ FlagMerge({}, y) = y
        /\ x \subseteq FlagMerge(x, y) /\ y \subseteq FlagMerge(x, y) /\ FlagMerge(x, y) = FlagMerge(y, x)

ScaleOb(o, r) ==
    IF r = RZero THEN o   \* ratio 1: the observation is handed on untouched (an Unsigned stays Unsigned)
    ELSE [o EXCEPT !.t = IF @ = "U" THEN "F" ELSE @, !.e2 = @ + r.p2, !.e10 = @ + r.p10]

ConvertCall(c, from, to) ==
    CASE c.kind = "string" -> ErrorCall("unit-on-string")
      [] c.kind = "metric" ->
            IF c.unit # from THEN ErrorCall("unit-mismatch")
            ELSE [c EXCEPT !.unit = to,
                           !.obs = [i \in DOMAIN c.obs |-> ScaleOb(c.obs[i], Ratio(U(from), U(to)))],
                           !.orig = IF @ = "None" THEN to ELSE @]
      [] OTHER -> c

\* is wrapper w applicable to value v (what the type system accepts)
CanApplyV(w, v) == w.w = "Unit" => (w.from = v.prom /\ Convertible(U(w.from), U(w.to)))

ApplyV(w, v) ==
    CASE w.w = "Dim"  -> [v EXCEPT !.call = AddDims(@, w.ds)]
      [] w.w = "Flag" -> [v EXCEPT !.call = AddFlag(@, w.f)]
      [] IsNoneW(w.w) -> [v EXCEPT !.call = NoCall]
      [] w.w = "Unit" -> [call |-> ConvertCall(v.call, w.from, w.to), prom |-> w.to]
      [] OTHER        -> v

(* Collectors.  Distribution<V> and Mean<U> pull the observations out of their element values and    *)
(* re-emit them under the unit the element type promises.  An element that wrote any OTHER unit than  *)
(* the promised one is a validation error - "None" is a unit like every other here: a unitless        *)
(* number is not silently adopted under the promised unit, nor a unit-ful one under "None".           *)
CollectErr(prom, c) ==
    CASE c.kind = "string" -> "collect-string"
      [] c.kind = "error"  -> c.err
      [] c.kind = "metric" /\ c.unit # prom   -> "unit-mismatch"
      [] c.kind = "metric" /\ c.dims # <<>>   -> "collect-dimensions"
      [] OTHER -> ""
CollectErrs(prom, elems) == {i \in DOMAIN elems : CollectErr(prom, elems[i]) # ""}
RECURSIVE CatObs(_, _)
CatObs(elems, i) == IF i > Len(elems) THEN <<>> ELSE elems[i].obs \o CatObs(elems, i + 1)
\* Distribution: no element values -> no call; any bad element -> one error; else all observations, promised unit
CollectDist(prom, elems) ==
    IF elems = <<>> THEN NoCall
    ELSE IF CollectErrs(prom, elems) # {} THEN ErrorCall(CollectErr(prom, elems[Min(CollectErrs(prom, elems))]))
    ELSE Metric(CatObs(elems, 1), prom, prom, <<>>, {})
\* Mean (try_new / try_extend / record_value / try_to_mean): a bad element -> Err; else ONE Repeated whose
\* total is the SUM of what the elements reported (an Unsigned / Floating counts its value once, a Repeated
\* its whole total - not total/occurrences) and whose occurrences are the sum of theirs (1, 1, occ).
\* `slots` lists the observations summed: total = sum of magnitude(slot) * 2^e2 * 10^e10 (the elements of
\* one mean carry one unit, hence one exponent pair).
ObCount(o) == IF o.t = "R" THEN o.occ ELSE 1
RECURSIVE SumCounts(_, _)
SumCounts(obs, i) == IF i > Len(obs) THEN 0 ELSE ObCount(obs[i]) + SumCounts(obs, i + 1)
CollectMean(prom, elems) ==
    IF CollectErrs(prom, elems) # {} THEN ErrorCall(CollectErr(prom, elems[Min(CollectErrs(prom, elems))]))
    ELSE LET obs == CatObs(elems, 1)
         IN  IF SumCounts(obs, 1) = 0 THEN NoCall
             ELSE Metric(<<[t |-> "R", slot |-> obs[1].slot, slots |-> [i \in DOMAIN obs |-> obs[i].slot],
                            e2 |-> obs[1].e2, e10 |-> obs[1].e10, occ |-> SumCounts(obs, 1)]>>, prom,
                         IF elems[1].orig = "None" THEN prom ELSE elems[1].orig, <<>>, {})
\* the same call with its observation slots shifted (to combine several values in one collector)
Reslot(c, k) == [c EXCEPT !.obs = [i \in DOMAIN @ |-> [@[i] EXCEPT !.slot = @ + k]]]

\* the unit-carrying part of a call: emitted number * scale(unit) = magnitude * scale(orig)
PhysicalOK(c) ==
    c.kind = "metric" =>
        IF c.orig = "None" THEN c.unit = "None" /\ \A i \in DOMAIN c.obs : c.obs[i].e2 = 0 /\ c.obs[i].e10 = 0
        ELSE \A i \in DOMAIN c.obs : /\ c.obs[i].e2 + U(c.unit).p2 = U(c.orig).p2
                                     /\ c.obs[i].e10 + U(c.unit).p10 = U(c.orig).p10

(* The documented additions, stated on the whole stack (innermost first) *)
RECURSIVE CatDs(_, _)
CatDs(s, i) == IF i > Len(s) THEN <<>> ELSE (IF s[i].w = "Dim" THEN s[i].ds ELSE <<>>) \o CatDs(s, i + 1)
RECURSIVE SumRatio(_, _)
SumRatio(s, i) == IF i > Len(s) THEN RZero
                  ELSE RAdd(IF s[i].w = "Unit" THEN Ratio(U(s[i].from), U(s[i].to)) ELSE RZero, SumRatio(s, i + 1))
UnitLayers(s) == {i \in DOMAIN s : s[i].w = "Unit"}

DenoteV(b, s) ==
    LET base == BaseVal(b).call
        ul == UnitLayers(s)
    IN  IF \E i \in DOMAIN s : IsNoneW(s[i].w) THEN NoCall   \* an empty Option: no call at all, whatever is around it
        ELSE CASE base.kind = "nothing" -> NoCall
               [] base.kind = "error"   -> base
               [] base.kind = "string"  -> IF ul = {} THEN base ELSE ErrorCall("unit-on-string")
               [] base.kind = "metric"  ->
                    IF ul # {} /\ base.unit # BaseVal(b).prom THEN ErrorCall("unit-mismatch")
                    ELSE LET r == SumRatio(s, 1)
                             first == IF ul = {} THEN "" ELSE s[Min(ul)].to
                         IN  [base EXCEPT
                                !.dims = @ \o CatDs(s, 1),
                                !.flags = @ \cup ({s[i].f : i \in {j \in DOMAIN s : s[j].w = "Flag"}} \ {"0"}),
                                !.unit = IF ul = {} THEN @ ELSE s[Max(ul)].to,
                                !.orig = IF @ = "None" /\ ul # {} THEN first ELSE @,
                                !.obs = [i \in DOMAIN base.obs |->
                                           [base.obs[i] EXCEPT
                                              !.t = IF @ = "U" /\ \E j \in ul : Ratio(U(s[j].from), U(s[j].to)) # RZero
                                                    THEN "F" ELSE @,
                                              !.e2 = @ + r.p2, !.e10 = @ + r.p10]]]

-----------------------------------------------------------------------------
(* Entries *)

Item(t, id, name, call) == [t |-> t, id |-> id, name |-> name, call |-> call]
TsItem(id) == Item("ts", id, "", NoCall)
CfgItem(id) == Item("cfg", id, "", NoCall)
ValItem(name, call) == Item("val", "", name, call)

\* the entry under test: timestamp, config, then one field per base value (field name = base id),
\* a second config in the middle; sample group of two elements
BaseSeq == <<"str", "u64", "f64", "dur", "distu", "distdur", "mean", "rich", "err", "empty", "bad", "zero", "zeron", "richi">>
EntryE ==
    [items |-> <<TsItem("T1"), CfgItem("c1")>>
               \o [i \in 1..5 |-> ValItem(BaseSeq[i], BaseVal(BaseSeq[i]).call)]
               \o <<CfgItem("c2")>>
               \o [i \in 1..(Len(BaseSeq) - 5) |-> ValItem(BaseSeq[i + 5], BaseVal(BaseSeq[i + 5]).call)],
     sg |-> <<"op", "status">>]
\* the globals merged in: own timestamp, config, a string, a metric with its own dimension
EntryG ==
    [items |-> <<TsItem("T2"), CfgItem("cg"), ValItem("gs", StringCall),
                 ValItem("gm", Metric(<<Ob("U", 1, 0, 0)>>, "Count", "Count", <<"g0">>, {}))>>,
     \* three elements (the harness produces them with an iterator whose size hint is inexact)
     sg |-> <<"region", "az", "cell">>]
EntryEmpty == [items |-> <<>>, sg |-> <<>>]
\* small entries that differ only in their sample group: 0, 1, 2, 3 and 5 elements.  The suffix says how
\* the harness produces the group ("x": iterator with an exact size hint, "i": filter_map / flat_map, lower
\* bound 0) - invisible to the model, a (key, value) sequence is a (key, value) sequence.
SgKeys == <<"k1", "k2", "k3", "k4", "k5">>
SgBases == {"S0x", "S0i", "S1x", "S1i", "S2x", "S2i", "S3x", "S3i", "S5x", "S5i"}
SgSize(b) == CASE b \in {"S0x", "S0i"} -> 0 [] b \in {"S1x", "S1i"} -> 1 [] b \in {"S2x", "S2i"} -> 2
               [] b \in {"S3x", "S3i"} -> 3 [] b \in {"S5x", "S5i"} -> 5
EntryS(b) == [items |-> <<TsItem("T1"), ValItem("u64", BaseVal("u64").call)>>, sg |-> SubSeq(SgKeys, 1, SgSize(b))]
\* the entry sent repeatedly through one long-lived stream / format wrapper (VPStreamHist)
EntryH == [items |-> <<TsItem("T1"), ValItem("u64", BaseVal("u64").call), ValItem("f64", BaseVal("f64").call),
                       ValItem("rich", BaseVal("rich").call), ValItem("richi", BaseVal("richi").call),
                       ValItem("str", BaseVal("str").call)>>,
           sg |-> <<"op">>]
\* small entries that differ in the timestamp items of their sequence: none, two equal ones (both halves of
\* a merge stamping the same request start), two different ones, equal-different-equal.  (One timestamp:
\* every other entry.)  A timestamp item is an item like any other: wrappers hand on each of them, in order.
TsBases == {"T0", "T2e", "T2d", "T3"}
EntryT(b) ==
    [items |-> CASE b = "T0"  -> <<ValItem("u64", BaseVal("u64").call)>>
                 [] b = "T2e" -> <<TsItem("T1"), ValItem("u64", BaseVal("u64").call), TsItem("T1")>>
                 [] b = "T2d" -> <<TsItem("T1"), ValItem("u64", BaseVal("u64").call), TsItem("T2")>>
                 [] b = "T3"  -> <<TsItem("T1"), TsItem("T1"), TsItem("T2"), ValItem("u64", BaseVal("u64").call), TsItem("T1")>>,
     sg |-> <<>>]
BaseEntry(b) == CASE b \in TsBases -> EntryT(b) [] b = "H" -> EntryH [] b = "E" -> EntryE [] b = "G" -> EntryG [] b = "0" -> EntryEmpty [] b \in SgBases -> EntryS(b)

(* Entry wrappers: [w, ds, deny, f] *)
EW(w) == [w |-> w, ds |-> <<>>, deny |-> {}, f |-> ""]
MergeFirst == {"MergeG", "MergeRef", "MergeStream", "MergeFormat"}   \* globals' items first (entry, stream, format)
MergeLast == {"MergeAfter"}                              \* entry.merge(other): other's items last
DimAll == {"EDims", "RootDims"}                          \* WithDimensions<E> as Entry / InflectableEntry
DimDeny == {"GDims", "GDimsStream", "GDimsFormat"}       \* WithGlobalDimensions / MergeGlobalDimensions (stream, format)
FlagAll == {"EFlag", "RootFlag", "FlagStream"}           \* ForceFlag<E> as Entry / InflectableEntry / stream
IdentityEntryWrappers == {"Boxed", "Root", "Some", "Box", "Arc", "Cow", "Ref", "RootSome", "RootBox", "RootArc"}

ModItem(w, it) ==
    IF it.t # "val" THEN it
    ELSE CASE w.w \in DimAll  -> [it EXCEPT !.call = AddDims(@, w.ds)]
           [] w.w \in DimDeny -> IF it.name \in w.deny THEN it ELSE [it EXCEPT !.call = AddDims(@, w.ds)]
           [] w.w \in FlagAll -> [it EXCEPT !.call = AddFlag(@, w.f)]
           [] OTHER           -> it

ApplyE(w, e) ==
    CASE w.w = "NoneE"       -> EntryEmpty
      [] w.w \in MergeFirst  -> [items |-> EntryG.items \o e.items, sg |-> EntryG.sg \o e.sg]
      [] w.w \in MergeLast   -> [items |-> e.items \o EntryG.items, sg |-> e.sg \o EntryG.sg]
      [] OTHER               -> [e EXCEPT !.items = [i \in DOMAIN @ |-> ModItem(w, @[i])]]

(* The documented additions on the whole stack: every *source* (the entry itself at position 0,  *)
(* the globals of a merge layer at that layer's position) is modified by exactly the layers      *)
(* above it; merge-first layers contribute outermost first, then the entry, then merge-last      *)
(* layers innermost first; an empty Option discards everything below it.                         *)
RECURSIVE ModAbove(_, _, _)
ModAbove(s, p, it) == IF p >= Len(s) THEN it ELSE ModAbove(s, p + 1, ModItem(s[p + 1], it))
ModSeq(s, p, items) == [i \in DOMAIN items |-> ModAbove(s, p, items[i])]
Killed(s) == IF \E i \in DOMAIN s : s[i].w = "NoneE" THEN Max({i \in DOMAIN s : s[i].w = "NoneE"}) ELSE 0
RECURSIVE FirstsDown(_, _, _)   \* merge-first layers from index i down to lo+1
FirstsDown(s, i, lo) ==
    IF i <= lo THEN EntryEmpty
    ELSE LET rest == FirstsDown(s, i - 1, lo)
         IN  IF s[i].w \in MergeFirst
             THEN [items |-> ModSeq(s, i, EntryG.items) \o rest.items, sg |-> EntryG.sg \o rest.sg]
             ELSE rest
RECURSIVE LastsUp(_, _)         \* merge-last layers from index i up
LastsUp(s, i) ==
    IF i > Len(s) THEN EntryEmpty
    ELSE LET rest == LastsUp(s, i + 1)
         IN  IF s[i].w \in MergeLast
             THEN [items |-> ModSeq(s, i, EntryG.items) \o rest.items, sg |-> EntryG.sg \o rest.sg]
             ELSE rest
DenoteE(b, s) ==
    LET k == Killed(s)
        f == FirstsDown(s, Len(s), k)
        l == LastsUp(s, k + 1)
        own == IF k = 0 THEN [items |-> ModSeq(s, 0, BaseEntry(b).items), sg |-> BaseEntry(b).sg] ELSE EntryEmpty
    IN  [items |-> f.items \o own.items \o l.items, sg |-> f.sg \o own.sg \o l.sg]
=============================================================================
