---------------------------- MODULE KeepAliveSeq ----------------------------
(***************************************************************************)
(* R-sequential behaviour generator: KeepAlive with every operation        *)
(* atomic (a drop runs to completion before the next operation starts)     *)
(* and a history variable.  Every maximal history up to Depth operations   *)
(* (exhaustive BFS bounded by CONSTRAINT, or -simulate) is printed as one  *)
(* JSON line and executed on a real AppendAndCloseOnDrop by `ka seq`.      *)
(* Each history element <<op, kind, index, mode, PObs>> carries PObs, the   *)
(* property-level observation <<cond, ver, dropped slot guards, slot       *)
(* values, appended>> of the state *before* the operation; `final` is the  *)
(* one after the last.                                                     *)
(* Identical objects (guards among themselves, force guards, handles) are  *)
(* dropped lowest index first: the other orders differ by renaming only.   *)
(***************************************************************************)
EXTENDS KeepAlive, Json

CONSTANTS Depth,
          SeqOps   \* names of the operations the generator may use (drops are always allowed)
VARIABLE hist

svarsAll == <<vars, hist>>

H_(name, k, i, m) == hist' = Append(hist, <<name, k, i, m, PObs>>)

Lowest(st, D, x, live) == \A y \in D : y < x => st[y] # live
NotYet(op, s) == \A j \in 1..Len(hist) : ~(hist[j][1] = op /\ hist[j][3] = s)

Redelays(s) == Cardinality({j \in 1..Len(hist) : hist[j][1] = "DelayFlush" /\ hist[j][3] = s /\ hist[j][4] = "wait"})

(* a second open of an opened slot: returns None, changes nothing *)
ReOpen(s) == opc = "live" /\ sst[s] # "unopened" /\ NotYet("ReOpen", s) /\ UNCHANGED vars
(* the owner starts to wait for the slot's data and gives up (the pending future is dropped, e.g. by a
   timeout): changes nothing *)
WaitCancel(s) == opc = "live" /\ sst[s] = "open" /\ rxst[s] = "open" /\ NotYet("WaitCancel", s) /\ UNCHANGED vars
(* the owner takes the data that wait_for_data handed back out of the slot (through the returned
   reference): the slot value is then absent from the entry, the rest of the entry is unaffected *)
TakeWaited(s) == /\ opc = "live" /\ data[s] >= 0
                 /\ data' = [data EXCEPT ![s] = -1]
                 /\ UNCHANGED <<ovars, valueRc, guardRc, closure, mutex, gst, fst, sst, smode, sval, chan, rxst, ver, emA, emB>>

(* GuardDropFault: the slot payload's close panics inside SlotGuard::drop (a panic in user code is
   data): the guard goes away without delivering a value - abstractly the same as a guard that is
   still alive when the entry closes: the slot value is absent, the entry is otherwise intact and
   appended exactly once; in wait mode the flush guard is still released (by the unwinding).
   Only generated where that release does not close the entry on the unwinding thread itself
   (a panic while closing there would be a double panic = abort of the driver). *)
SFault(s) ==
    /\ sst[s] = "open" /\ CanStart
    /\ (smode[s] = "discard" \/ guardRc > 1 \/ closure # "present")
    /\ sst' = [sst EXCEPT ![s] = IF smode[s] = "wait" THEN "sent" ELSE "done"]
    /\ UNCHANGED <<ovars, valueRc, guardRc, closure, mutex, gst, fst, smode, sval, chan, rxst, data, ver, emA, emB>>

Start ==
    \/ "Mutate" \in SeqOps /\ Mutate /\ H_("Mutate", "o", 0, "")
    \/ "MakeHandle" \in SeqOps /\ MakeHandle /\ H_("MakeHandle", "h", 1, "")
    \/ "NewGuard" \in SeqOps /\ \E g \in G : NewGuard(g) /\ H_("NewGuard", "g", g, "")
    \/ "NewForce" \in SeqOps /\ \E f \in F : NewForce(f) /\ H_("NewForce", "f", f, "")
    \/ "CloneHandle" \in SeqOps /\ \E h \in H : CloneHandle(h) /\ H_("CloneHandle", "h", h, "")
    \/ "OpenSlot" \in SeqOps /\ \E s \in S, m \in Modes : OpenSlot(s, m) /\ H_("OpenSlot", "s", s, m)
    \* delay_flush, repeatable: Discard -> Wait, and Wait -> Wait with a fresh flush guard (at most twice per slot)
    \/ "DelayFlush" \in SeqOps /\ \E s \in S : DelayFlush(s) /\ H_("DelayFlush", "s", s, "discard")
    \/ "DelayFlush" \in SeqOps /\ \E s \in S : ReDelayFlush(s) /\ Redelays(s) < 2 /\ H_("DelayFlush", "s", s, "wait")
    \/ "ReOpen" \in SeqOps /\ \E s \in S : ReOpen(s) /\ H_("ReOpen", "s", s, "")
    \/ "WaitForData" \in SeqOps /\ \E s \in S : WaitForData(s) /\ H_("WaitForData", "s", s, "")
    \/ "WaitCancel" \in SeqOps /\ \E s \in S : WaitCancel(s) /\ H_("WaitCancel", "s", s, "")
    \/ "TakeWaited" \in SeqOps /\ \E s \in S : TakeWaited(s) /\ H_("TakeWaited", "s", s, "")
    \/ "MutSlot" \in SeqOps /\ \E s \in S : MutSlot(s) /\ H_("MutSlot", "s", s, "")
    \/ opc = "live" /\ DropOwner1 /\ H_("Drop", "o", 0, "")
    \/ \E h \in H : Lowest(hst, H, h, "live") /\ DropHandle(h) /\ H_("Drop", "h", h, "")
    \/ \E g \in G : Lowest(gst, G, g, "live") /\ DropGuard(g) /\ H_("Drop", "g", g, "")
    \/ \E f \in F : Lowest(fst, F, f, "live") /\ FUpgrade(f) /\ H_("Drop", "f", f, "")
    \/ \E s \in S : SBegin(s) /\ H_("Drop", "s", s, smode[s])
    \* the slot guard is dropped by the unwinding of a panic of the thread that holds it (after its last
    \* mutation): the same steps, and the property expects the same (value present as last mutated)
    \/ "DropFault" \in SeqOps /\ \E s \in S : SFault(s) /\ H_("DropFault", "s", s, smode[s])
    \/ "DropUnwind" \in SeqOps /\ \E s \in S : SBegin(s) /\ H_("DropUnwind", "s", s, smode[s])

Continue ==
    /\ \/ opc = "d_value" /\ DropOwner1
       \/ DropOwner2
       \/ \E f \in F : FTake(f) \/ FCall(f) \/ FRelease(f)
       \/ \E s \in S : SSend(s) \/ SRelease(s)
       \/ EmitRead \/ EmitAppend
    /\ UNCHANGED hist

(* the first element describes the initial configuration: <<"Init", #guards, #force guards, #handles, slot modes, PObs>> *)
SInit == Init /\ hist = << <<"Init", Cardinality({g \in G : gst[g] = "live"}),
                             Cardinality({f \in F : fst[f] = "live"}),
                             Cardinality({h \in H : hst[h] = "live"}),
                             [s \in S |-> IF sst[s] = "unopened" THEN "none" ELSE smode[s]], PObs>> >>

SNext == IF Quiescent THEN Start ELSE Continue
SSpec == SInit /\ [][SNext]_svarsAll

Terminal == /\ Quiescent /\ opc = "done"
            /\ (\A g \in G : gst[g] # "live") /\ (\A f \in F : fst[f] # "live") /\ (\A s \in S : sst[s] # "open")

Bound == Len(hist) <= Depth + 1
Emit == (Quiescent /\ (Len(hist) = Depth + 1 \/ Terminal))
            => PrintT(<<"REPLAY", ToJson([steps |-> hist, final |-> PObs])>>)
(* the model itself: at every quiescent point the entry has been appended iff the condition holds *)
SeqOK == Quiescent => emitted = (IF CondEnded THEN 1 ELSE 0)
=============================================================================
