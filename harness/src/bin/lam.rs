//! prototype
use metrics_024 as metrics;
use metrique_metricsrs::lambda_reporter;
use metrique_writer_format_emf::Emf;
use std::io;
use std::sync::{Arc, Mutex};

#[derive(Clone, Default)]
struct Dest(Arc<Mutex<Vec<String>>>);
struct DestW(Dest, Vec<u8>);
impl io::Write for DestW {
    fn write(&mut self, b: &[u8]) -> io::Result<usize> { self.1.extend_from_slice(b); self.0.0.lock().unwrap().push(format!("write {}", b.len())); Ok(b.len()) }
    fn flush(&mut self) -> io::Result<()> { self.0.0.lock().unwrap().push(format!("flush {:?}", String::from_utf8_lossy(&self.1))); Ok(()) }
}
fn main() {
    let d = Dest::default();
    let d2 = d.clone();
    lambda_reporter::install_reporter_to_writer::<dyn metrics::Recorder, _, _, _>(Emf::all_validations("NS".into(), vec![vec![]]), move || { d2.0.lock().unwrap().push("make".into()); DestW(d2.clone(), vec![]) });
    println!("empty flush: {:?}", lambda_reporter::flush_metrics_sync().is_ok());
    println!("{:#?}", std::mem::take(&mut *d.0.lock().unwrap()));
    metrics::counter!("c1").increment(2);
    metrics::counter!("c2", "lab" => "v").increment(3);
    metrics::gauge!("g1").set(4.0);
    metrics::histogram!("h1").record(5.0);
    metrics::histogram!("h1").record(7.0);
    lambda_reporter::flush_metrics_sync().unwrap();
    println!("{:#?}", std::mem::take(&mut *d.0.lock().unwrap()));
    lambda_reporter::flush_metrics_sync().unwrap();
    println!("{:#?}", std::mem::take(&mut *d.0.lock().unwrap()));
    std::thread::sleep(std::time::Duration::from_millis(2100));
    println!("{:#?}", std::mem::take(&mut *d.0.lock().unwrap()));
}
