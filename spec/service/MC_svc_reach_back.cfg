\* vacuity guard (must be refuted): one try_append handed back, one accepted
CONSTANTS
  Plan <- Plan11
  ModesOf <- TryOnly
  NFlush = 0
  EarlyClose = FALSE
SPECIFICATION Spec
INVARIANTS ReachHandBack

CHECK_DEADLOCK FALSE
