------------------------- MODULE QueueCountTrace -------------------------
(***************************************************************************)
(* Counting view of a recorded execution (C09, overflow counter), for runs *)
(* with many concurrently overflowing producers, where enumerating the      *)
(* linearizations of QueueTrace is hopeless and unnecessary: once the join  *)
(* handle has been dropped (and nothing was appended after the drop began), *)
(* every appended entry was either handed to the stream or discarded, so    *)
(*      discarded = appended - handed over                                  *)
(* and the overflow counter reported to the metrics recorder must equal it. *)
(* Also: no entry is handed over twice, and only appended entries are.      *)
(***************************************************************************)
EXTENDS Naturals, Sequences, FiniteSets, TLC, Json, IOUtils

Rec == ndJsonDeserialize(IOEnv.TRACE)
N == Len(Rec)

VARIABLES l, appended, handed, dropEnded, lateAppend, closed
cvars == <<l, appended, handed, dropEnded, lateAppend, closed>>

Ev(name) == l <= N /\ Rec[l].ev = name
Adv == l' = l + 1

CInit == l = 1 /\ appended = {} /\ handed = {} /\ dropEnded = FALSE /\ lateAppend = FALSE
         /\ closed = FALSE /\ TLCSet(1, 1)

CReset == Ev("Reset") /\ Adv /\ appended' = {} /\ handed' = {} /\ dropEnded' = FALSE
          /\ lateAppend' = FALSE /\ closed' = FALSE
CAppEnd == /\ Ev("AppEnd") /\ Adv
           /\ Rec[l].e \notin appended
           /\ appended' = appended \cup {Rec[l].e}
           /\ lateAppend' = (lateAppend \/ dropEnded)
           /\ UNCHANGED <<handed, dropEnded, closed>>
\* handed over at most once; (an AppEnd may be logged after the hand-off of its entry, so
\* membership in `appended` is checked at the end, in COverflows)
CNext == /\ Ev("Next") /\ Adv /\ ~closed
         /\ Rec[l].e \notin handed
         /\ handed' = handed \cup {Rec[l].e}
         /\ UNCHANGED <<appended, dropEnded, lateAppend, closed>>
CClose == Ev("Close") /\ Adv /\ closed' = TRUE /\ UNCHANGED <<appended, handed, dropEnded, lateAppend>>
CDropEnd == Ev("DropEnd") /\ Adv /\ closed /\ dropEnded' = TRUE
            /\ UNCHANGED <<appended, handed, lateAppend, closed>>
COverflows == /\ Ev("Overflows") /\ Adv
              /\ dropEnded /\ ~lateAppend
              /\ handed \subseteq appended
              /\ Rec[l].n = Cardinality(appended) - Cardinality(handed)
              /\ UNCHANGED <<appended, handed, dropEnded, lateAppend, closed>>
Skip == /\ l <= N
        /\ Rec[l].ev \in {"AppStart", "Report", "Flush", "FlushReq", "FlushDone", "DropStart",
                          "SinkDrop", "Quiesce", "Forget", "SinkClone", "SelfMetrics", "SubInstalled", "BurstBegin", "BurstEnd"}
        /\ Adv /\ UNCHANGED <<appended, handed, dropEnded, lateAppend, closed>>

CNext_ == CReset \/ CAppEnd \/ CNext \/ CClose \/ CDropEnd \/ COverflows \/ Skip
CSpec == CInit /\ [][CNext_]_cvars

Track == /\ IF l > TLCGet(1) THEN TLCSet(1, l) /\ TLCSet(2, <<Cardinality(appended), Cardinality(handed), dropEnded, lateAppend, closed>>) ELSE TRUE
         /\ IF l = N + 1 THEN TLCSet("exit", TRUE) ELSE TRUE
Accepted ==
    IF TLCGet(1) = N + 1 THEN PrintT(<<"ACCEPTED", N>>)
    ELSE /\ PrintT(<<"REJECTED", TLCGet(1), ToJson(Rec[TLCGet(1)]), TLCGet(2)>>)
         /\ FALSE
=============================================================================
