CONSTANTS
  Depth = 5
  EmitZero = TRUE
  DescUnits = {"Bytes", "CountPerSecond", "Percent"}
SPECIFICATION Spec
INVARIANT Emit
INVARIANT UnitInv
CONSTRAINT Bound
CHECK_DEADLOCK FALSE
