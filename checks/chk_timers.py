"""C18 - timers and stopwatches report exactly the spans they were asked to measure.

spec/timers/Stopwatch.tla: TLC proves (exhaustively within the constants) that the two-representation
stopwatch machine (exclusive field / shared cell, guards, overwrite = take-then-add, discard, clear, the
borrow rule) reports, in every reachable state, exactly `Kept` of the property layer (sum of completed,
non-discarded spans since the last clear/overwrite, None if there is none); same for the Timer and
Timestamp machines.  StopwatchConc.tla: owned guards completed on several threads - every interleaving of the
critical sections keeps the total; conformance T: `tm conc` records rounds of T threads x M owned guards completed at the
same moment, StopwatchConcTrace.tla validates the total reported at close.

Conformance R: StopwatchReplay.tla / TimersReplay.tla print every operation sequence of length Depth
(exhaustive BFS over the history variable) and long -simulate walks; `tm` steps each of them through
the real Stopwatch / Timer / Timestamp / TimestampOnClose over a ManuallyAdvancedTimeSource and compares
what closing reports after EVERY step with the value TLC computed from the property layer.
"""
import json, os, re, sys
sys.path.insert(0, os.path.join(os.path.dirname(os.path.abspath(__file__)), "..", "lib"))
import vlib
from vlib import log

SPECD = os.path.join(vlib.SPEC, "timers")

# tick lengths (ns) used to concretise one model tick; the first two are always used, one more is seeded
TICKS = [1_000_000, 1_000_003, 1_000_000_000, 1, 999, 86_400_000_000_000 // 1000, 123_456_789]

SW_ACTIONS = ["Advance", "Start", "StartOwned", "Stop", "DropGuard", "DropUnwind", "Overwrite", "Discard", "Clear"]
TM_ACTIONS = ["Advance", "AdvanceB", "SetAmbient", "TimerNew", "TimerStop", "TsNew", "TocNew", "TocClose"]


def extract_replay(r, path):
    """REPLAY lines of a TLC run -> ndjson file (no parsing of the payload: the TLA+ string escapes
    of ToJson's output are JSON string escapes). Returns the number of behaviours."""
    n = 0
    pre = '<<"REPLAY", '
    with open(path, "w") as o:
        for l in r.out.splitlines():
            if l.startswith(pre):
                o.write(json.loads(l[len(pre):-2]))
                o.write("\n")
                n += 1
    return n


def nth_line(path, n):
    with open(path) as f:
        for i, l in enumerate(f):
            if i == n:
                return json.loads(l)
    return None


def generate(chk, module, cfg, name, simulate=None, depth=None, seed=None, invariants=()):
    r = vlib.tlc(SPECD, module, cfg, timeout=3600, simulate=simulate, depth=depth, seed=seed,
                 heap="12g" if chk.tier == "thorough" else "6g")
    if r.errors or r.invariant_violated:
        sys.stdout.write(r.out[-3000:])
        raise vlib.ToolError(f"{module}/{cfg}: the model does not satisfy its own invariants: {r.errors[:2]}")
    path = os.path.join(chk.dir, name + ".ndjson")
    n = extract_replay(r, path)
    if n == 0:
        raise vlib.ToolError(f"{module}/{cfg} produced no behaviours")
    log(f"[tlc] {module}/{cfg}{' -simulate' if simulate else ''}: {n} behaviours in {r.wall:.1f}s")
    return path, n


VIOLATION_KINDS = {"close", "timestamp", "format", "panic"}


def fmt_step(kind, s):
    if kind == "sw":
        op, g, d = s[0], s[1], s[2]
        if op == "Amb":
            return f"[override={('none', 'A', 'B')[g]}{', other thread' if d else ''}]"
        return op + (f"({g})" if g else "") + (f"+{d}" if op.startswith("Advance") else "")
    op = s["op"]
    if op == "Amb":
        return f"[override={s['a']}{', other thread' if s['d'] else ''}]"
    return op + (f"+{s['d']}" if op.startswith("Advance") else "") + (f"({s['a']})" if s.get("a") else "")


def replay_file(chk, kind, path, n, ticks, label):
    """Run `tm` on a behaviour file for each tick length; turn mismatches into verdicts."""
    total_bad = 0
    for tick in ticks:
        out = os.path.join(chk.dir, f"{label}-{tick}.out")
        vlib.run_bin("tm", [kind, "--behaviours", path, "--out", out, "--tick-ns", tick], timeout=3600)
        rows = vlib.read_ndjson(out)
        summ = rows[-1]
        assert summ.get("summary") and summ["behaviours"] == n, (summ, n)
        chk.evaluations += summ["behaviours"]
        chk.extra["steps_replayed"] = chk.extra.get("steps_replayed", 0) + summ["steps"]
        chk.extra["close_observations_compared"] = chk.extra.get("close_observations_compared", 0) + summ["observations"]
        cases = chk.extra.setdefault("cases_reached", {})
        for k, v in summ["cases"].items():
            cases[k] = cases.get(k, 0) + v
        for row in rows[:-1]:
            beh = nth_line(path, row["id"])
            viol = [m for m in row["mismatches"] if m["kind"] in VIOLATION_KINDS]
            drift = [m for m in row["mismatches"] if m["kind"] not in VIOLATION_KINDS]
            if viol:
                total_bad += 1
                m = viol[0]
                steps = beh if kind == "sw" else beh["steps"]
                upto = steps[: m["step"] + 1]
                ops = [fmt_step(kind, s) for s in upto]
                unit = "ns since the epoch" if m["kind"] in ("timestamp", "format") else "ticks; -1 = nothing"
                chk.violation(
                    f"{label}: after {' '.join(ops)} (tick {tick} ns): {m['what']}: the specification expects "
                    f"{m['expected']} ({unit}), the real code reports {m['got']}",
                    {"kind": kind, "behaviour": beh, "id": row["id"], "tick_ns": tick, "mismatches": row["mismatches"]},
                    key=f"C18:{kind}:{m['kind']}")
            if drift and len(chk.drift) < 20:
                chk.drift.append({"source": label, "behaviour": row["id"], "tick_ns": tick, "mismatches": drift[:3]})
        chk.traces += summ["behaviours"] - summ["bad"]
    return total_bad


# --------------------------------------------------------------------------------------------
# T: owned guards completed concurrently on several threads
# --------------------------------------------------------------------------------------------
def run_concurrent(chk, plans, seed, tag="conc"):
    """plans: [(rounds, threads, guards per thread)]; every round is a scenario of StopwatchConcTrace.tla"""
    rejected = 0
    for n, (rounds, threads, guards) in enumerate(plans):
        tp = os.path.join(chk.dir, f"{tag}-{n}-trace.ndjson")
        mp = os.path.join(chk.dir, f"{tag}-{n}-meta.ndjson")
        vlib.run_bin("tm", ["conc", "--out", tp, "--meta", mp, "--rounds", rounds, "--threads", threads, "--guards", guards,
                            "--seed", seed * 10 + n], timeout=1800)
        metas = vlib.read_ndjson(mp)
        rej = []

        def on_reject(m, v, lines):
            ev = v.event if isinstance(v.event, dict) else {}
            st = v.state if isinstance(v.state, dict) else {}
            if ev.get("ev") == "Close":
                why = (f"{m['threads']} threads completed {m['guards_per_thread']} owned guards each at the same moment; the completed, "
                       f"non-discarded spans add up to {st.get('expected')} ticks, closing the stopwatch reports {ev.get('total')} "
                       f"(-1 = nothing)")
            elif ev.get("ev") == "CloseDuring":
                why = (f"while {m['threads']} threads were completing their owned guards the creating thread closed &stopwatch: kept "
                       f"completions worth {ev.get('lo')} ticks had returned before that close started (at most {ev.get('hi')} had been "
                       f"started when it returned), total before the phase {st.get('expected')}; the close reports {ev.get('total')} "
                       f"(-1 = nothing)")
            else:
                why = f"event {json.dumps(ev)[:200]} is not allowed here"
            rej.append(m["id"])
            chk.violation(f"concurrent owned guards, round {m['round']} (seed {m['seed']}): {why}",
                          {"kind": "conc", "meta": m, "rejected_line": v.line, "trace": [json.loads(x) for x in lines]},
                          key="C18:conc")

        acc = vlib.validate_scenarios(SPECD, "StopwatchConcTrace", "StopwatchConcTrace.cfg", tp, mp, on_reject,
                                      chunk=100, jobs=2, chunk_timeout=300, one_timeout=300)
        rejected += len(rej)
        chk.traces += acc
        chk.evaluations += len(metas)
        ex = chk.extra.setdefault("concurrent", {"rounds": 0, "guards_completed_concurrently": 0})
        ex["rounds"] += len(metas)
        ex["guards_completed_concurrently"] += sum(m["completed"] for m in metas)
        ex["closes_while_completing"] = ex.get("closes_while_completing", 0) + sum(m["closes_while_completing"] for m in metas)
        chk.nontrivial.update(f"conc:{m['seed']}:{threads}x{guards}" for m in metas)
    return rejected


def check_coverage(r, actions, what):
    missing = [a for a in actions if r.coverage.get(a, 0) == 0]
    if missing:
        raise vlib.ToolError(f"{what}: actions never taken (vacuous model): {missing}")


def run(prop, tier):
    chk = vlib.Check(prop, tier)
    chk.rule = ("evaluations = TLC-generated operation sequences stepped through the real Stopwatch/Timer/Timestamp "
                "(each sequence x tick length); after every step the closed value is compared with the property layer's "
                "value computed by TLC (close_observations_compared); distinct_nontrivial = distinct operation sequences")
    chk.assumptions = [
        "two ManuallyAdvancedTimeSources are the only clocks (no real time); operations run under a thread-local override "
        "A / B / none on the creating thread or on a freshly spawned thread; the tokio-runtime level of the resolution order "
        "is not exercised",
        "while a borrowed TimerGuard lives the stopwatch cannot be closed (Rust borrow rule): those steps are checked at the "
        "first step after the guard is gone",
        "a guard dropped by a panic unwinding through its scope is a completed span (the panic is raised and caught by the harness)",
        "concurrent part: owned guards are completed (drop / stop / unwinding / discard) at the same moment on 2-16 OS threads while the clock "
        "stands still; concurrent overwrite / clear are not exercised (their result depends on an unobservable order); a lost "
        "update that needs a window never hit in the recorded rounds is not seen",
        "exhaustive only up to the depth / slot / advance constants of the MC_*.cfg files; longer histories by random walks",
        "rendered timestamps are compared numerically (1e-12 relative for the floating-point units, +-1 for whole microseconds)",
    ]
    vlib.cargo_build(["tm"])
    quick = tier == "quick"
    # 1. the implementation-shaped machines satisfy the property layer (exhaustive, small constants)
    if not vlib.SKIP_MC:
        cfg = "MC_sw.cfg" if quick else "MC_sw_big.cfg"
        r = vlib.model_check(SPECD, "Stopwatch", cfg, timeout=3600)
        check_coverage(r, SW_ACTIONS, "Stopwatch/SwSpec")
        chk.add_model("Stopwatch/" + cfg, r)
        # the stopwatch under a changing ambient override / thread (it captured source A)
        r = vlib.model_check(SPECD, "Stopwatch", "MC_sw_amb.cfg", timeout=3600)
        check_coverage(r, SW_ACTIONS + ["AdvanceB", "SetAmbient"], "Stopwatch/SwSpec with ambient overrides")
        chk.add_model("Stopwatch/MC_sw_amb.cfg", r)
        r = vlib.model_check(SPECD, "Stopwatch", "MC_tm.cfg", timeout=3600)
        check_coverage(r, TM_ACTIONS, "Stopwatch/TmSpec")
        chk.add_model("Stopwatch/MC_tm.cfg", r)
        # owned guards completed on several threads: every interleaving of the critical sections
        r = vlib.model_check(SPECD, "StopwatchConc", "MC_conc.cfg", timeout=600)
        check_coverage(r, ["Complete", "CompleteByUnwind", "Discard"], "StopwatchConc")
        chk.add_model("StopwatchConc/MC_conc.cfg", r)
        r = vlib.tlc(SPECD, "StopwatchConc", "MC_conc_neg.cfg", timeout=600)
        if not r.invariant_violated:
            raise vlib.ToolError("the property layer accepts an add that is split into read and write (MC_conc_neg.cfg)")
        log(f"[tlc] StopwatchConc/MC_conc_neg.cfg: add split into read / write rejected ({r.invariant_violated[0]})")
        # negative model: a close-timestamp that prefers the ambient override must be rejected
        r = vlib.tlc(SPECD, "Stopwatch", "MC_tm_neg.cfg", timeout=600)
        if not r.invariant_violated:
            raise vlib.ToolError("the property layer accepts a close-timestamp that reads the ambient override (MC_tm_neg.cfg)")
        log(f"[tlc] Stopwatch/MC_tm_neg.cfg: close-timestamp reading the ambient override rejected ({r.invariant_violated[0]})")
        chk.extra["negative_models_rejected"] = [{"model": "TimestampOnClose prefers the ambient override", "invariant": r.invariant_violated[0]}]
    ticks = TICKS[:2] + [TICKS[2 + chk.seed % (len(TICKS) - 2)]]
    chk.extra["tick_lengths_ns"] = ticks
    # 2. every behaviour up to the depth bound, through the real code
    gens = [("sw", "StopwatchReplay", "MC_sw_replay_quick.cfg" if quick else "MC_sw_replay.cfg", "sw-exhaustive"),
            ("tm", "TimersReplay", "MC_tm_replay_quick.cfg" if quick else "MC_tm_replay.cfg", "tm-exhaustive")]
    if not quick:
        gens.append(("sw", "StopwatchReplay", "MC_sw_replay_d8.cfg", "sw-exhaustive-d8"))
    # histories that also switch the ambient thread-local override (A / B / none) and the thread
    gens += [("sw", "StopwatchReplay", "MC_sw_replay_amb_quick.cfg" if quick else "MC_sw_replay_amb.cfg", "sw-ambient"),
             ("tm", "TimersReplay", "MC_tm_replay_amb_quick.cfg" if quick else "MC_tm_replay_amb.cfg", "tm-ambient")]
    nb = {}
    for kind, module, cfg, label in gens:
        path, n = generate(chk, module, cfg, label)
        nb[label] = n
        replay_file(chk, kind, path, n, [ticks[1 + chk.seed % 2]] if label.endswith("ambient") else ticks, label)
        chk.nontrivial.update(f"{label}:{i}" for i in range(n))
        chk.sample({label: nth_line(path, n // 2)})
    # 3. long random walks (TLC -simulate, seeded); (walks per TLC worker, steps)
    plans = [(30, 2000)] if quick else [(200, 2000), (25, 10000)]
    for walks, wdepth in plans:
        for kind, module, cfg, label in [("sw", "StopwatchReplay", "MC_sw_sim.cfg", f"sw-walks-{wdepth}"),
                                         ("tm", "TimersReplay", "MC_tm_sim.cfg", f"tm-walks-{wdepth}")]:
            # Depth is a constant of the cfg: write a cfg with this plan's depth into the run directory
            src = open(os.path.join(SPECD, cfg)).read()
            src = re.sub(r"Depth = \d+", f"Depth = {wdepth}", src)
            lcfg = os.path.join(chk.dir, f"{label}.cfg")
            with open(lcfg, "w") as f:
                f.write(src)
            path, n = generate(chk, module, lcfg, label, simulate=walks, depth=wdepth + 1, seed=chk.seed * 1000 + 18)
            nb[label] = n
            replay_file(chk, kind, path, n, ticks[:2], label)
            chk.nontrivial.update(f"{label}:{chk.seed}:{i}" for i in range(n))
    chk.extra["behaviours"] = nb
    # 4. owned guards completed at the same moment on several OS threads (recorded, validated by TLC)
    run_concurrent(chk, [(50, 4, 200), (20, 8, 100), (10, 2, 400)] if quick else [(600, 4, 300), (300, 8, 150), (200, 2, 600), (100, 16, 60)],
                   chk.seed)
    # vacuity: the interesting cases must actually have been reached
    cases = chk.extra.get("cases_reached", {})
    for need in ["switch_to_shared_with_kept", "overwrite_over_kept", "discard_with_kept", "clear_with_live_guards",
                 "owned_acts_while_borrowed", "borrowed_guard_on_shared_repr", "toc_close", "timer_stop_repeated_or_immediate",
                 "sw_op_under_override_b", "sw_op_on_other_thread", "timer_op_under_different_override",
                 "toc_closed_under_different_override", "toc_closed_on_other_thread_with_different_override",
                 "explicit_source_under_other_override", "env_no_override",
                 "owned_guard_dropped_by_unwinding", "borrowed_guard_dropped_by_unwinding"]:
        if not cases.get(need):
            raise vlib.ToolError(f"no generated behaviour reached the case '{need}'")
    return chk.finish()


def replay(prop, path):
    """Re-run the behaviour stored in a violation file against the current tree."""
    with open(path) as f:
        v = json.load(f)
    rp = v["replay"]
    vlib.cargo_build(["tm"])
    if rp["kind"] == "conc":
        chk = vlib.Check(prop + "-replay", "quick")
        tp = os.path.join(chk.dir, "stored.ndjson")
        vlib.write_ndjson(tp, rp["trace"])
        r = vlib.validate_trace(SPECD, "StopwatchConcTrace", "StopwatchConcTrace.cfg", tp)
        log("stored trace:", "ACCEPTED" if r.accepted else f"REJECTED at line {r.line}")
        m = rp["meta"]
        # the schedule is not reproducible: run the same shape a number of times
        rej = run_concurrent(chk, [(60, m["threads"], m["guards_per_thread"])], m["seed"] % 1000, tag="replay")
        log(f"re-ran 60 rounds of {m['threads']} threads x {m['guards_per_thread']} guards: {rej} rejected")
        return 1 if rej else 0
    d = vlib.rundir(prop + "-replay")
    bp = os.path.join(d, "beh.ndjson")
    # keep the behaviour's id parity (it selects how the time source is injected)
    with open(bp, "w") as f:
        if rp["id"] % 2 == 1:
            f.write("\n")
        f.write(json.dumps(rp["behaviour"]) + "\n")
    out = os.path.join(d, "out.ndjson")
    vlib.run_bin("tm", [rp["kind"], "--behaviours", bp, "--out", out, "--tick-ns", rp["tick_ns"]])
    rows = vlib.read_ndjson(out)
    bad = [m for row in rows[:-1] for m in row["mismatches"] if m["kind"] in VIOLATION_KINDS]
    for m in bad:
        log(f"step {m['step']}: {m['what']}: expected {m['expected']} got {m['got']}")
    log("replay:", "still violated" if bad else "no longer violated")
    return 1 if bad else 0
