"""X02 (extension of the specification): the buffer-and-flush state machines that are not the background queue.

(a) spec/lambda/LambdaReporter.tla        the Lambda-style reporter (metrique-metricsrs lambda_reporter.rs):
    LambdaReporterReplay.tla              updates during an invocation, ONE flush_metrics at its end, the
    harness/src/bin/lam.rs                buffering writer against a destination that misbehaves as scripted.
                                          R: every TLC behaviour in a process of its own (the reporter is a
                                          process global), oracle = the observation TLC computed.
(b) spec/sinks/ImmediateFlush.tla         FlushImmediately / build_boxed / build_any: lock, next, flush, unlock;
    ImmediateFlushReplay.tla, ImmTrace    panics of the stream poison the mutex; flush_async is ready.
    harness/src/bin/imm.rs                R: sequential scripts; T: traces of 2-4 concurrent appenders.
(c) spec/sinks/RateLimit.tla              rate_limited! (shared clock state machine, at most one call per whole
    RateLimitTrace.tla                    second across threads); T: the queue's in-band validation report with
                                          wall-clock stamps (the only observable call site).
(d) spec/sinks/TestSinks.tla              VecEntrySink / test_entry_sink / to_test_entry record exactly what a
    TestSinksReplay.tla                   real format is given (recording EntryWriter as the cross-check).
"""
import json, os, random, time, hashlib
import vlib
from vlib import log

LSPEC = os.path.join(vlib.SPEC, "lambda")
SSPEC = os.path.join(vlib.SPEC, "sinks")
ERR_FAULTS = ("werr0", "werrP", "ferr")


def _printed_json(r, tag="REPLAY"):
    """PrintT(<<tag, ToJson(x)>>) lines -> python objects. TLC prints the string with \\" and \\\\ escapes only,
    which is also a JSON string literal (vlib.replay_lines does the same through a character-level parser)."""
    pre, out = f'<<"{tag}", ', []
    for l in r.out.splitlines():
        if l.startswith(pre) and l.endswith(">>"):
            out.append(json.loads(json.loads(l[len(pre):-2])))
    return out


def _tlc_replay(chk, spec_dir, module, cfg, **kw):
    r = vlib.tlc(spec_dir, module, cfg, timeout=1800, **kw)
    if r.errors or r.invariant_violated:
        raise vlib.ToolError(f"{module}/{cfg}: {r.errors[:2]}")
    beh = _printed_json(r)
    if not beh:
        raise vlib.ToolError(f"{module}/{cfg}: no behaviours generated")
    return r, beh


def bug_run(chk, spec_dir, module, cfg, bug, expect):
    """Model-level sensitivity: with the defect re-introduced TLC must reject the model (expect = the
    invariants / properties one of which must be reported)."""
    with open(os.path.join(spec_dir, cfg)) as f:
        base = f.read()
    path = os.path.join(chk.dir, f"{module}_bug_{bug}.cfg")
    with open(path, "w") as f:
        f.write(base.replace('Bug = "none"', f'Bug = "{bug}"'))
    r = vlib.tlc(spec_dir, module, path, workers=2, timeout=300)
    got = set(r.invariant_violated)
    if r.deadlock:
        got.add("Deadlock")
    import re
    if r.property_violated or re.search(r"Error: (Action|Temporal) propert\w+ .*violated", r.out):
        got.add("Property")
    if not (got & set(expect)):
        raise vlib.ToolError(f"{module} with Bug={bug}: expected one of {expect} to fail, TLC reported {sorted(got) or 'no error'}")
    return sorted(got & set(expect))[0]


# ============================================================================================
# (a) Lambda reporter
# ============================================================================================
def lam_models(chk, tier):
    cfgs = ["MC_lam_quick.cfg"] if tier == "quick" else ["MC_lam.cfg", "MC_lam_quick3.cfg"]
    for cfg in cfgs:
        r = vlib.model_check(LSPEC, "LambdaReporter", cfg, timeout=3000)
        chk.add_model("LambdaReporter/" + cfg, r)
        for act in ("Inc", "SetG", "Rec", "FlushCall", "Readout", "Format", "Deliver", "Return"):
            if r.coverage.get(act, 0) == 0:
                raise vlib.ToolError(f"LambdaReporter/{cfg}: action {act} never taken")
        if r.coverage.get("EmptyFlush", 0) != 0:
            raise vlib.ToolError("LambdaReporter: the periodic flush found something buffered (BufferEmpty should forbid it)")
    bugs = [("noclear", ["Conservation", "NoDup"]), ("eager", ["NoTear"]), ("noswap", ["Conservation"]),
            ("nowait", ["OnlyOnFlush", "FlushDelivers"]), ("retry", ["OnlyOnFlush", "TornIsLast", "Permanent", "NoDup"]),
            ("gaugereset", ["GaugeLast"])]
    if tier == "quick":                       # three of the six per run, rotating with the seed
        bugs = [bugs[(chk.seed + i) % 6] for i in (0, 2, 4)] if chk.seed % 2 else [bugs[(chk.seed + i) % 6] for i in (1, 3, 5)]
    caught = {}
    for b, exp in bugs:
        caught[b] = bug_run(chk, LSPEC, "LambdaReporter", "MC_lam_quick3.cfg", b, exp)
    chk.extra["lambda_model_bugs_caught"] = caught


def lam_behaviours(chk, tier):
    rng = random.Random(chk.seed * 7919 + 2)
    beh = []
    r, b = _tlc_replay(chk, LSPEC, "LambdaReporterReplay", "MC_lam_replay_c.cfg")
    chk.add_model("LambdaReporterReplay/MC_lam_replay_c.cfg", r)
    beh += b
    counts = {"exhaustive_c": len(b)}
    for name, cfg in (("a", "MC_lam_replay_a.cfg"), ("b", "MC_lam_replay_b.cfg")):
        r, b = _tlc_replay(chk, LSPEC, "LambdaReporterReplay", cfg)
        chk.add_model("LambdaReporterReplay/" + cfg, r)
        counts["generated_" + name] = len(b)
        if tier == "quick":
            b = rng.sample(b, min(len(b), 900))
        counts["replayed_" + name] = len(b)
        beh += b
    for name, cfg, num in (("sim", "MC_lam_replay_sim.cfg", 150 if tier == "quick" else 3000),
                           ("sim_benign", "MC_lam_replay_simok.cfg", 150 if tier == "quick" else 3000)):
        r, b = _tlc_replay(chk, LSPEC, "LambdaReporterReplay", cfg, workers=1, simulate=num, depth=100, seed=chk.seed + len(name))
        seen, uniq = set(), []
        for x in b:
            k = json.dumps(x["steps"], sort_keys=True)
            if k not in seen:
                seen.add(k)
                uniq.append(x)
        counts[name] = len(uniq)
        beh += uniq
    fmts, calls = ["emf", "chunky"], ["sync", "block_on", "tokio"]
    for i, x in enumerate(beh):
        x["id"] = i + 1
        h = int(hashlib.sha256(f"{chk.seed}:{i}".encode()).hexdigest()[:8], 16)
        x["variant"] = {"fmt": fmts[h % 2], "call": calls[(h >> 1) % 3], "reinstall": (h >> 4) % 4 == 0}
    chk.extra["lambda_behaviours"] = counts
    return beh


def _norm_steps(b):
    """ToJson turns an empty sequence into [] and records into objects: nothing to fix; kept for clarity."""
    return b["steps"]


def _parse_chunk(ch, ts_to_inv, names):
    """-> (whole, records): whole = the chunk is a sequence of complete, valid EMF lines; records =
    {inv: {"c": {...}, "g": {...}, "h": {...}, "lines": n}} merged over the lines (split entries)."""
    data = ch["bytes"]
    problems = []
    if not ch.get("utf8", True):
        problems.append("not UTF-8")
    if data and not data.endswith("\n"):
        problems.append("does not end with a newline")
    recs = {}
    rev = {v: k for k, v in names.items()}
    for ln in [x for x in data.split("\n") if x != ""]:
        try:
            o = json.loads(ln)
            aws = o["_aws"]
            ts = aws["Timestamp"]
        except Exception:
            problems.append(f"line is not a complete EMF record: {ln[:60]!r}")
            continue
        inv = ts_to_inv.get(ts)
        if inv is None:
            problems.append(f"record with a timestamp of no invocation: {ts}")
            continue
        rec = recs.setdefault(inv, {"c": {}, "g": {}, "h": {}, "lines": 0})
        rec["lines"] += 1
        for d in aws.get("CloudWatchMetrics", []):
            for m in d.get("Metrics", []):
                nm = m.get("Name")
                k = rev.get(nm)
                v = o.get(nm)
                if k is None or v is None:
                    problems.append(f"unknown or valueless metric {nm!r}")
                elif k.startswith("c"):
                    rec["c"][k] = rec["c"].get(k, 0) + v
                elif k.startswith("g"):
                    rec["g"][k] = v
                else:
                    cnt = sum(v.get("Counts", [])) if isinstance(v, dict) else 1
                    rec["h"][k] = rec["h"].get(k, 0) + cnt
    return problems, recs


def _expected_rec(r):
    return {"c": {k: v for k, v in r["c"].items() if v}, "g": {k: v for k, v in r["g"].items() if v},
            "h": {k: v for k, v in r["h"].items() if v}}


def judge_lambda(b, o):
    """-> (violation or None, drift or None, stats)"""
    stats = {"records": 0, "torn_by_dest": 0, "after_error": 0}
    if o.get("timeout"):
        return "flush_metrics (or an update) did not return within the time limit: the behaviour hung", None, stats
    steps, obs = _norm_steps(b), o["steps"]
    names = o["names"]
    ts_to_inv, inv = {}, 0
    for s, g in zip(steps, obs):
        if s["op"] == "Flush":
            inv += 1
            ts_to_inv[g["ts_ms"]] = inv
    delivered, drift = set(), None
    dest_failed = False          # an error was injected by the destination (what really happened)
    torn_seen = False
    inv = 0
    for i, (s, g) in enumerate(zip(steps, obs)):
        where = f"step {i + 1} ({s['op']}" + (f" of invocation {s['inv']}, destination: {s['fault']})" if s["op"] == "Flush" else ")")
        if isinstance(g.get("ret"), str) and g["ret"].startswith("panic"):
            return f"{where}: {g['ret']}", drift, stats
        if s["op"] != "Flush":
            if g["chunks"]:
                return (f"{where}: {sum(len(c['bytes']) for c in g['chunks'])} bytes reached the destination during an update, "
                        f"outside flush_metrics"), drift, stats
            continue
        inv = s["inv"]
        if g["ret"] != "ok" and drift is None:
            drift = {"behaviour": b["id"], "step": i + 1, "what": "flush_metrics returned " + str(g["ret"])}
        got = {}
        for ch in g["chunks"]:
            problems, recs = _parse_chunk(ch, ts_to_inv, names)
            by_dest = ch.get("fault") == "werrP"
            if ch.get("fault") in ERR_FAULTS:
                pass
            if problems and not by_dest:
                return (f"{where}: the destination received a chunk that is not a sequence of whole records ({problems[0]}); "
                        f"write calls (offered, accepted): {ch['calls'][:6]}"), drift, stats
            if torn_seen and ch["bytes"]:
                return (f"{where}: bytes reached the destination after it had torn a record (partial write then error): "
                        f"the partial record is continued or repeated: {ch['bytes'][:60]!r}"), drift, stats
            if by_dest:
                stats["torn_by_dest"] += 1
                torn_seen = True
                dest_failed = True
                continue
            for k, rec in recs.items():
                if k in delivered or k in got:
                    return f"{where}: the record of invocation {k} reached the destination twice", drift, stats
                if k > inv:
                    return f"{where}: a record of a later invocation ({k})", drift, stats
                got[k] = rec
            if dest_failed and recs:
                stats["after_error"] += 1
                if drift is None:
                    drift = {"behaviour": b["id"], "step": i + 1, "what": "records reached the destination after it had failed (the model makes errors permanent)"}
            if ch.get("fault") in ("werr0", "ferr"):
                dest_failed = True
        exp = {}
        for ch in s["delivered"]:
            for r in ch["recs"]:
                exp[r["inv"]] = _expected_rec(r)
        for k, rec in got.items():
            stats["records"] += 1
            want = exp.get(k)
            if want is None and k == inv:
                want = _expected_rec(s["readout"])      # the model lost it to the failed destination; content still judged
            if want is None:
                return f"{where}: the record of invocation {k} arrives only now (flush_metrics of invocation {k} had returned without it)", drift, stats
            have = {x: rec[x] for x in ("c", "g", "h")}
            if have != want:
                return (f"{where}: the record of invocation {k} reports {json.dumps(have, sort_keys=True)}, the updates since the last "
                        f"readout are {json.dumps(want, sort_keys=True)} (every update exactly once, gauges the last value set)"), drift, stats
        for k in exp:
            if k not in got:
                return (f"{where}: flush_metrics returned {g['ret']!r} but the record of invocation {k} is not at the destination "
                        f"(chunks received in this step: {len(g['chunks'])})"), drift, stats
        delivered |= set(got)
        if s["surfaced"] and not g["logs"]:
            return f"{where}: the destination failed ({s['fault']}) and nothing was logged: the I/O error is not surfaced", drift, stats
        nwhole = len([c for c in g["chunks"] if c.get("fault") != "werrP" and c["bytes"]])
        if nwhole > max(1, len([c for c in s["delivered"] if not c["torn"]])) and drift is None:
            drift = {"behaviour": b["id"], "step": i + 1, "what": f"{nwhole} destination handles received the records of one flush (model: one)"}
    if o.get("second_install_chunks") and drift is None:
        drift = {"behaviour": b["id"], "what": "the destination of a second install_reporter_to_writer received bytes"}
    return None, drift, stats


def run_lambda(chk, tier, beh=None, tag="lam"):
    if beh is None:
        beh = lam_behaviours(chk, tier)
    bp, op = (os.path.join(chk.dir, f"{tag}-{x}.ndjson") for x in ("beh", "out"))
    vlib.write_ndjson(bp, beh)
    t0 = time.time()
    vlib.run_bin("lam", ["batch", "--behaviours", bp, "--out", op, "--jobs", 8, "--timeout", 30], timeout=3600)
    outs = {o["id"]: o for o in vlib.read_ndjson(op)}
    st = chk.extra.setdefault("lambda_replay", {"behaviours": 0, "invocations": 0, "records_compared": 0, "with_destination_error": 0,
                                                "torn_by_destination": 0, "chunky_format": 0, "drift": 0, "process_s": 0})
    st["process_s"] = round(time.time() - t0, 1)
    bad = 0
    for b in beh:
        o = outs.get(b["id"])
        if o is None or "crash" in o:
            raise vlib.ToolError(f"lam one crashed on behaviour {b['id']}: {(o or {}).get('crash', 'no result')[:500]}")
        viol, drift, s = judge_lambda(b, o)
        chk.evaluations += 1
        st["behaviours"] += 1
        st["invocations"] += sum(1 for x in b["steps"] if x["op"] == "Flush")
        st["records_compared"] += s["records"]
        st["torn_by_destination"] += s["torn_by_dest"]
        st["with_destination_error"] += any(x["op"] == "Flush" and x["fault"] in ERR_FAULTS for x in b["steps"])
        st["chunky_format"] += b["variant"]["fmt"] == "chunky"
        chk.nontrivial.add("lam:" + json.dumps([[(x["op"], x.get("k"), x.get("v"), x.get("fault")) for x in b["steps"]], b["variant"]["fmt"]]))
        if viol:
            bad += 1
            chk.violation("Lambda reporter, behaviour %d (%s/%s): %s" % (b["id"], b["variant"]["fmt"], b["variant"]["call"], viol),
                          {"kind": "lambda", "behaviour": b, "observed": o}, key="X02:lambda")
        elif drift:
            st["drift"] += 1
            if len(chk.drift) < 20:
                chk.drift.append(dict(drift, kind="lambda"))
    chk.traces += len(beh) - bad
    mid = beh[len(beh) // 2]
    chk.sample({"lambda_behaviour": {"variant": mid["variant"], "steps": [{k: v for k, v in x.items() if k in ("op", "k", "v", "fault", "inv")} for x in mid["steps"]]},
                "destination": [[c["bytes"][:160] for c in g["chunks"]] for g in outs[mid["id"]]["steps"] if g["op"] == "Flush"]})


# ============================================================================================
# (b) FlushImmediately
# ============================================================================================
def imm_models(chk, tier):
    cfgs = ["MC_imm.cfg"] if tier == "quick" else ["MC_imm.cfg", "MC_imm_3t.cfg"]
    for cfg in cfgs:
        r = vlib.model_check(SSPEC, "ImmediateFlush", cfg, timeout=3000)
        chk.add_model("ImmediateFlush/" + cfg, r)
        for act in ("Start", "Lock", "Next", "Flush", "Unlock", "FlushAsync"):
            if r.coverage.get(act, 0) == 0:
                raise vlib.ToolError(f"ImmediateFlush/{cfg}: action {act} never taken")
    caught = {}
    bugs = [("flushOutside", ["Atomic"]), ("noFlush", ["Atomic", "FlushedOnReturn"]), ("wedge", ["Deadlock", "Property", "HolderOK"]),
            ("flushOnOk", ["FlushEach"]), ("recover", ["Property"])]
    if tier == "quick":
        bugs = [bugs[(chk.seed + i) % 5] for i in (0, 1, 2)]
    for b, exp in bugs:
        caught[b] = bug_run(chk, SSPEC, "ImmediateFlush", "MC_imm.cfg", b, exp)
    chk.extra["imm_model_bugs_caught"] = caught


def run_imm_seq(chk, tier, beh=None, tag="immseq"):
    if beh is None:
        cfg = "MC_imm_replay.cfg" if tier == "quick" else "MC_imm_replay_thorough.cfg"
        r, base = _tlc_replay(chk, SSPEC, "ImmediateFlushReplay", cfg)
        chk.add_model("ImmediateFlushReplay/" + cfg, r)
        beh = [dict(b, sink=s) for b in base for s in ("imm_typed", "imm_boxed", "imm_any")]
        for i, b in enumerate(beh):
            b["id"] = i + 1
    bp, op = (os.path.join(chk.dir, f"{tag}-{x}.ndjson") for x in ("beh", "out"))
    vlib.write_ndjson(bp, beh)
    vlib.run_bin("imm", ["seq", "--behaviours", bp, "--out", op], timeout=3600)
    outs = {o["id"]: o for o in vlib.read_ndjson(op)}
    st = chk.extra.setdefault("imm_seq", {"behaviours": 0, "appends": 0, "stream_panics": 0, "appends_after_poison": 0, "flush_async": 0, "drift": 0})
    bad = 0
    for b in beh:
        o = outs[b["id"]]
        viol, drift = None, None
        if o.get("blocked"):
            viol = "an append (or flush_async) did not terminate within 10 s: the sink is wedged"
        else:
            poisoned = False
            for i, (s, g) in enumerate(zip(b["steps"], o["obs"])):
                calls = [(c["ev"], c.get("e", 0), c["res"]) for c in g["calls"]]
                if s["op"] == "FlushAsync":
                    st["flush_async"] += 1
                    if not g["ready"]:
                        viol = f"step {i + 1}: the future of flush_async was not ready at its first poll ({g.get('message')})"
                    elif calls and drift is None:
                        drift = {"kind": "imm-seq", "behaviour": b["id"], "sink": b["sink"], "step": i + 1, "what": f"flush_async called the stream: {calls}"}
                    if viol:
                        break
                    continue
                st["appends"] += 1
                e = s["e"]
                want = [("Next" if c["op"] == "next" else "Flush", c["e"], c["r"]) for c in s["calls"]]
                nexts = [c for c in calls if c[0] == "Next"]
                if poisoned:
                    st["appends_after_poison"] += 1
                if g["outcome"] == "returned":
                    # property layer: handed over exactly once, flushed before the return (if next was ok)
                    if [c[1] for c in nexts] != [e]:
                        viol = f"step {i + 1}: append({e}) returned but the stream was handed {[c[1] for c in nexts]}"
                    elif nexts[0][2] == "ok" and calls[-1][0] != "Flush":
                        viol = f"step {i + 1}: append({e}) returned without flushing the stream after next: calls {calls}"
                    elif calls[0][0] != "Next":
                        viol = f"step {i + 1}: append({e}): the stream was flushed before the entry was handed over: {calls}"
                else:
                    # a panic is allowed only if the stream panicked in this append, or (poisoning) in an earlier one
                    own = any(c[2] == "panic" for c in calls)
                    if not own and not poisoned:
                        viol = f"step {i + 1}: append({e}) panicked ({g.get('message')}) although the stream never panicked"
                    elif len(nexts) > 1:
                        viol = f"step {i + 1}: append({e}) handed the entry over {len(nexts)} times"
                if viol:
                    break
                if (calls != want or g["outcome"] != s["outcome"]) and drift is None:
                    drift = {"kind": "imm-seq", "behaviour": b["id"], "sink": b["sink"], "step": i + 1, "model": [want, s["outcome"]],
                             "real": [calls, g["outcome"]]}
                if any(c[2] == "panic" for c in calls):
                    poisoned = True
                    st["stream_panics"] += 1
        chk.evaluations += 1
        st["behaviours"] += 1
        chk.nontrivial.add("immseq:" + json.dumps([b["sink"], [(s["op"], s.get("next"), s.get("flush")) for s in b["steps"]]]))
        if viol:
            bad += 1
            chk.violation(f"FlushImmediately ({b['sink']}), sequential behaviour {b['id']}: {viol}",
                          {"kind": "imm-seq", "behaviour": b, "observed": o}, key="X02:imm-seq")
        elif drift:
            st["drift"] += 1
            if len(chk.drift) < 20:
                chk.drift.append(drift)
    chk.traces += len(beh) - bad
    mid = beh[len(beh) // 2]
    chk.sample({"imm_behaviour": {"sink": mid["sink"], "steps": [(s["op"], s.get("next"), s.get("flush"), s.get("outcome")) for s in mid["steps"]]}})


def imm_scenarios(chk, tier):
    rng = random.Random(chk.seed * 15485863 + 2)
    scen = []
    n = 240 if tier == "quick" else 4000
    for i in range(n):
        threads = rng.choice([2, 2, 3, 4])
        per = rng.randint(2, 9 if i % 3 else 4)
        mode = rng.choice(["ok", "ok", "errors", "errors", "panic"])
        script = {}
        for t in range(1, threads + 1):
            for k in range(1, per + 1):
                x = rng.random()
                if mode == "errors" and x < 0.5:
                    script[str(t * 10 + k)] = [rng.choice(["val", "io", "ok"]), rng.choice(["ok", "err"])]
        if mode == "panic":
            t, k = rng.randint(1, threads), rng.randint(1, per)
            script[str(t * 10 + k)] = rng.choice([["panic", "ok"], ["ok", "panic"], ["val", "panic"]])
        scen.append({"id": i + 1, "sink": rng.choice(["imm_typed", "imm_boxed", "imm_any"]), "threads": threads, "per": per,
                     "script": script, "spin_ns": rng.choice([0, 0, 2000, 20000]), "pause_ns": rng.choice([0, 1000, 10000]),
                     "async_every": rng.choice([0, 2, 3]), "mode": mode})
    return scen


def _validate_conc(chk, tp, mp, tag, st, nchunks=6, max_rejects=3):
    """Chunks of scenarios against the strict (implementation-shaped) configuration, in parallel. A rejected
    scenario (every scenario starts with Reset, so the rest of its chunk is independent of it) is re-judged alone
    with the property-layer configuration: rejected there = VIOLATION, accepted there = MODEL-DRIFT, and the rest
    of that chunk is then validated against the property layer only. At most max_rejects violations are examined
    per chunk (a broken tree must not cost hundreds of TLC runs); what is left is counted as unexamined."""
    from concurrent.futures import ThreadPoolExecutor
    metas = vlib.read_ndjson(mp)
    with open(tp) as f:
        lines = f.readlines()
    per = max(1, (len(metas) + nchunks - 1) // nchunks)
    chunks = [metas[i:i + per] for i in range(0, len(metas), per)]

    def write(ms, path):
        with open(path, "w") as f:
            for m in ms:
                f.writelines(vlib.lines_for(lines, m))

    def work(arg):
        ci, ms = arg
        cfg, acc, viol, drift, left = "ImmTrace.cfg", 0, [], [], 0
        while ms:
            path = f"{tp}.c{ci}"
            write(ms, path)
            v = vlib.validate_trace(SSPEC, "ImmTrace", cfg, path, timeout=600)
            if v.accepted:
                acc += len(ms)
                break
            pos, hit = 0, len(ms) - 1
            for k, m in enumerate(ms):
                if pos + m["events"] >= (v.line or 1):
                    hit = k
                    break
                pos += m["events"]
            m = ms[hit]
            acc += hit
            ms = ms[hit + 1:]
            one = f"{tp}.r{m['id']}"
            write([m], one)
            absv = vlib.validate_trace(SSPEC, "ImmTrace", "ImmTraceAbs.cfg", one, timeout=300)
            if absv.accepted:
                drift.append((m, v))
                acc += 1
                cfg = "ImmTraceAbs.cfg"
            else:
                viol.append((m, absv, one))
                if len(viol) >= max_rejects:
                    left = len(ms)
                    break
        return acc, viol, drift, left

    accepted = 0
    with ThreadPoolExecutor(max_workers=nchunks) as ex:
        for acc, viol, drift, left in ex.map(work, list(enumerate(chunks))):
            accepted += acc
            st["unexamined_after_rejections"] = st.get("unexamined_after_rejections", 0) + left
            for m, v in drift:
                st["drift"] += 1
                if len(chk.drift) < 20:
                    chk.drift.append({"kind": "imm-conc", "scenario": m["id"], "what": "accepted by the property layer only (flush after a failed "
                                      "next skipped, an append went through after a panic, or a flush outside any append)", "event": v.event})
            for m, absv, one in viol:
                with open(one) as f:
                    tr = [json.loads(l) for l in f]
                what = (f"FlushImmediately ({m['scenario']['sink']}), {m['scenario']['threads']} concurrent appenders, scenario {m['id']}: "
                        + (f"invariant {absv.invariant} violated" if absv.invariant else f"event {json.dumps(absv.event)} (line {absv.line}) is not enabled")
                        + f"; model state <<pc, lock holder, poisoned, stream calls so far>> = {absv.state}")
                ev = absv.event if isinstance(absv.event, dict) else {}
                chk.violation(what, {"kind": "imm-conc", "scenario": m["scenario"], "trace": tr}, key=f"X02:imm-conc:{ev.get('ev', absv.invariant)}")
    return accepted


def run_imm_conc(chk, tier, scen=None, tag="immconc"):
    if scen is None:
        scen = imm_scenarios(chk, tier)
    sp, tp, mp = (os.path.join(chk.dir, f"{tag}-{x}.ndjson") for x in ("scen", "trace", "meta"))
    vlib.write_ndjson(sp, scen)
    vlib.run_bin("imm", ["conc", "--scenarios", sp, "--out", tp, "--meta", mp], timeout=3600)
    st = chk.extra.setdefault("imm_conc", {"scenarios": 0, "events": 0, "handoffs_by_other_thread_between": 0, "panic_scenarios": 0,
                                           "appends_refused_after_poison": 0, "drift": 0})

    acc = _validate_conc(chk, tp, mp, tag, st)
    chk.traces += acc
    metas = vlib.read_ndjson(mp)
    with open(tp) as f:
        lines = [json.loads(l) for l in f]
    for m in metas:
        evs = lines[m["first_line"] - 1: m["last_line"]]
        st["scenarios"] += 1
        st["events"] += len(evs)
        st["panic_scenarios"] += any(e["ev"] == "Panic" for e in evs)
        nx = {e["e"] for e in evs if e["ev"] == "Next"}
        st["appends_refused_after_poison"] += sum(1 for e in evs if e["ev"] == "Panic" and e["e"] not in nx)
        # contention actually observed: thread u's Next between AppStart and Next of thread t
        waiting = {}
        for e in evs:
            if e["ev"] == "AppStart":
                waiting[e["t"]] = 0
            elif e["ev"] == "Next":
                for t in waiting:
                    if t != e["t"]:
                        waiting[t] += 1
                st["handoffs_by_other_thread_between"] += 1 if waiting.pop(e["t"], 0) else 0
        chk.evaluations += 1
        s = m["scenario"]
        chk.nontrivial.add("immconc:" + json.dumps([s["sink"], s["threads"], s["per"], s["script"], s["spin_ns"]], sort_keys=True))
    if tag == "immconc" and st["handoffs_by_other_thread_between"] < st["scenarios"] // 4:
        raise vlib.ToolError(f"imm conc: too little contention observed ({st['handoffs_by_other_thread_between']} overlapped appends in "
                             f"{st['scenarios']} scenarios): the traces do not exercise the lock")



# ============================================================================================
# (d) test sinks
# ============================================================================================
def _norm_obs(o):
    return [o["t"], float(o["v"]), o.get("n", 1) if o["t"] == "r" else 1]


def _norm_metric(m):
    return {"obs": [_norm_obs(o) for o in m["obs"]], "unit": m["unit"], "dims": [list(d) for d in m["dims"]], "flag": bool(m["flag"])}


def _norm_image(im):
    ts = im.get("timestamp")
    return {"timestamp": None if ts in (None, -1) else ts,
            "values": sorted([list(x) for x in im["values"]]),
            "metrics": sorted([[x[0], _norm_metric(x[1])] for x in im["metrics"]], key=lambda x: x[0])}


def _norm_call(c):
    if c["call"] == "timestamp":
        return ["timestamp", c["secs"]]
    if c["kind"] == "string":
        return ["value", c["name"], "string", c["s"]]
    if c["kind"] == "metric":
        return ["value", c["name"], "metric", _norm_metric(c.get("m") or c)]
    return ["value", c["name"], c["kind"]]


def _driver_entry(script):
    out = []
    for c in script:
        d = {"call": c["call"], "secs": c["secs"], "name": c["name"], "kind": c["kind"], "s": c["s"]}
        d.update(c["m"])
        out.append(d)
    return out


def run_tsink(chk, tier, beh=None, catalogue=None, tag="tsink"):
    r = vlib.model_check(SSPEC, "TestSinks", "MC_tsink.cfg", timeout=600)
    chk.add_model("TestSinks/MC_tsink.cfg", r)
    if beh is None:
        cfg = "MC_tsink_replay.cfg" if tier == "quick" else "MC_tsink_replay_thorough.cfg"
        rr, beh = _tlc_replay(chk, SSPEC, "TestSinksReplay", cfg)
        chk.add_model("TestSinksReplay/" + cfg, rr)
        catalogue = _printed_json(rr, "CATALOGUE")[0]
        for i, b in enumerate(beh):
            b["id"] = i + 1
            b["entries"] = [_driver_entry(sc) for sc in catalogue]
            b["catalogue"] = catalogue
    bp, op = (os.path.join(chk.dir, f"{tag}-{x}.ndjson") for x in ("beh", "out"))
    vlib.write_ndjson(bp, beh)
    vlib.run_bin("imm", ["tsink", "--behaviours", bp, "--out", op], timeout=1800)
    outs = {o["id"]: o for o in vlib.read_ndjson(op)}
    st = chk.extra.setdefault("test_sinks", {"behaviours": 0, "appends": 0, "images_compared": 0, "drains": 0})
    bad = 0
    for b in beh:
        o = outs[b["id"]]
        cat = b["catalogue"]
        viol = None
        for i, (s, g) in enumerate(zip(b["steps"], o["obs"])):
            w = f"step {i + 1} ({s['op']})"
            if "panic" in g:
                viol = f"{w}: panicked: {g['panic']}"
            elif s["op"] == "Append":
                st["appends"] += 1
                script = [_norm_call(c) for c in cat[s["e"] - 1]]
                given = [_norm_call(c) for c in g["given"]]
                if given != script:
                    raise vlib.ToolError(f"tsink: the recording EntryWriter was not given the scripted calls: {given} vs {script}")
                st["images_compared"] += 1
                if _norm_image(g["test_entry"]) != _norm_image(s["image"]):
                    viol = (f"{w}: to_test_entry of catalogue entry {s['e']} is {json.dumps(_norm_image(g['test_entry']))}; a format is given the calls "
                            f"{json.dumps(given)}, whose image is {json.dumps(_norm_image(s['image']))}")
            elif s["op"] == "Entries":
                st["images_compared"] += len(s["inspector"])
                if [_norm_image(x) for x in g["inspector"]] != [_norm_image(x) for x in s["inspector"]]:
                    viol = f"{w}: Inspector::entries() returned {len(g['inspector'])} entries that are not the images of everything appended so far, in order"
            elif s["op"] == "Get":
                if _norm_image(g["get"]) != _norm_image(s["image"]):
                    viol = f"{w}: Inspector::get({s['i'] - 1}) is not the image of the entry appended at that position"
            elif s["op"] == "Drain":
                st["drains"] += 1
                got = [[_norm_call(c) for c in e] for e in g["drained"]]
                want = [[_norm_call(c) for c in cat[e - 1]] for e in s["drained"]]
                if got != want:
                    viol = f"{w}: VecEntrySink::drain returned {len(got)} entries, expected exactly the {len(want)} entries appended since the last drain, in order"
            elif s["op"] == "Contains":
                if g["contains"] != s["contains"]:
                    viol = f"{w}: VecEntrySink::contains_entry(== catalogue entry {s['e']}) returned {g['contains']}"
            elif s["op"] == "FlushAsync":
                if g["ready"] != [True, True]:
                    viol = f"{w}: flush_async of VecEntrySink / test_entry_sink not ready at the first poll: {g['ready']}"
            if viol:
                break
        chk.evaluations += 1
        st["behaviours"] += 1
        chk.nontrivial.add("tsink:" + json.dumps([(s["op"], s["e"], s["i"]) for s in b["steps"]]))
        if viol:
            bad += 1
            chk.violation(f"test sinks, behaviour {b['id']}: {viol}", {"kind": "tsink", "behaviour": b, "observed": o}, key="X02:tsink")
    chk.traces += len(beh) - bad


# ============================================================================================
# (c) rate_limited! through the queue's in-band validation report
# ============================================================================================
def rl_models(chk, tier):
    cfgs = ["MC_rl.cfg"] if tier == "quick" else ["MC_rl.cfg", "MC_rl_3t.cfg"]
    for cfg in cfgs:
        r = vlib.model_check(SSPEC, "RateLimit", cfg, timeout=3000)
        chk.add_model("RateLimit/" + cfg, r)
        for act in ("Tick", "Sample", "Load", "Cas"):
            if r.coverage.get(act, 0) == 0:
                raise vlib.ToolError(f"RateLimit/{cfg}: action {act} never taken")
    caught = {}
    for b, exp in (("lt", ["FirstCalls"]), ("nointerval", ["Spaced"]), ("store", ["Spaced"])):
        caught[b] = bug_run(chk, SSPEC, "RateLimit", "MC_rl.cfg", b, exp)
    chk.extra["ratelimit_model_bugs_caught"] = caught


def rl_scenarios(chk, tier):
    rng = random.Random(chk.seed * 2654435761 % (1 << 31) + 2)
    out = []
    for p in range(3 if tier == "quick" else 12):          # one process each (the limiter's state is a static)
        t, bursts = 0, []
        budget = 2300 if tier == "quick" else 6000
        first_gap = rng.choice([0, 0, 40])
        while t < budget:
            gap = first_gap if not bursts else rng.choice([5, 60, 300, 450, 700, 990, 1010, 1300])
            t += gap
            bursts.append({"gap_ms": gap, "n": rng.randint(1, 6), "fail": rng.random() < 0.8 or not bursts})
        out.append({"id": p + 1, "threads": rng.choice([1, 2, 3]), "bursts": bursts})
    # a long quiet period, then a burst: exactly one report for the burst (a limiter that schedules from its
    # previous deadline instead of from now would report several times)
    out[0] = {"id": 1, "threads": out[0]["threads"], "bursts": [{"gap_ms": 0, "n": 3, "fail": True},
              {"gap_ms": rng.choice([2100, 2300, 3050]), "n": 6, "fail": True}, {"gap_ms": rng.choice([20, 200]), "n": 3, "fail": True}]}
    return out


def rl_record(chk, tier, scen, tag="rl"):
    """Runs the recording processes (mostly sleeping) - called from a helper thread."""
    res = []
    for sc in scen:
        sp, tp, mp = (os.path.join(chk.dir, f"{tag}{sc['id']}-{x}.ndjson") for x in ("scen", "trace", "meta"))
        vlib.write_ndjson(sp, [sc])
        vlib.run_bin("imm", ["rl", "--scenarios", sp, "--out", tp, "--meta", mp], timeout=600)
        res.append((sc, tp))
    return res


def rl_validate(chk, recorded):
    st = chk.extra.setdefault("rate_limit", {"processes": 0, "failing_entries": 0, "reports": 0, "recorded_ms": 0})
    for sc, tp in recorded:
        evs = vlib.read_ndjson(tp)
        v = vlib.validate_trace(SSPEC, "RateLimitTrace", "RateLimitTrace.cfg", tp, timeout=300)
        st["processes"] += 1
        fails = [e for e in evs if e["ev"] == "Fail"]
        reps = [e for e in evs if e["ev"] == "Report"]
        st["failing_entries"] += len(fails)
        st["reports"] += len(reps)
        st["recorded_ms"] += evs[-1]["ms"] if evs else 0
        chk.evaluations += 1
        chk.nontrivial.add("rl:" + json.dumps(sc["bursts"]))
        if not fails:
            raise vlib.ToolError("imm rl: no failing entry reached the stream")
        if v.accepted:
            chk.traces += 1
            chk.sample({"rate_limit": {"failing_entries_ms": [e["ms"] for e in fails][:12], "reports_ms": [e["ms"] for e in reps]}})
        else:
            chk.violation(f"rate_limited! (in-band validation report of the background queue), process {sc['id']}: event {json.dumps(v.event)} "
                          f"(line {v.line}) cannot be explained by any epoch / sampling within the recorded bounds: a report where the limiter must "
                          f"skip, or none where it must call (first failure, or a whole interval later); <<epoch ms, NEXT_CALL>> = {v.state}; "
                          f"reports at ms {[e['ms'] for e in reps]}",
                          {"kind": "rl", "scenario": sc, "trace": evs}, key="X02:ratelimit")

# ============================================================================================
def run(prop, tier):
    chk = vlib.Check(prop, tier)
    chk.rule = ("evaluations = TLC behaviours replayed into the real code (one process per Lambda behaviour; FlushImmediately scripts x 3 sink "
                "variants; test-sink scripts) + recorded concurrent scenarios validated by TLC; distinct_nontrivial = distinct (steps, format) / "
                "(sink, script) / scenario parameter tuples")
    chk.assumptions = [
        "Lambda reporter: updates and flush_metrics are sequential (one handler); updates racing with a readout are C20's subject",
        "Lambda reporter: a record is identified by the timestamp of its readout (thread-local time source, one value per invocation)",
        "Lambda reporter: the fault of an invocation is applied by the first destination handle that is offered bytes (periodic empty flushes of the queue pass)",
        "FlushImmediately: the stream logs its own calls, i.e. inside whatever lock the sink holds; Lock/Unlock are silent steps of the trace spec",
        "FlushImmediately after a stream panic: the code poisons its mutex and every later append panics; the property layer only demands that appends terminate and hand-offs stay whole",
        "rate_limited! is observable only at the queue's in-band validation report (one call site, called by the writer thread only): the cross-thread part of the macro is decided by TLC on the model alone",
        "rate-limit traces: stamps are ms of one monotonic clock taken by the writer thread; an attempt is sampled between the stamp of its failing entry and the stamp of the next event",
        "test sinks: TestEntry is an image of the writer calls (last timestamp / last string / last metric per name); for entries without repeated names the image is one-to-one",
    ]
    vlib.cargo_build(["lam", "imm"])
    # the rate-limit recordings are mostly sleeping (seconds of wall clock), the exhaustive model runs do not depend
    # on the code: both run beside the replays
    from concurrent.futures import ThreadPoolExecutor
    only = os.environ.get("VERIF_X02_ONLY")      # self-test only: run the steps of one subject (lambda | imm | test | rate)
    pool = ThreadPoolExecutor(max_workers=3)
    rl_future = pool.submit(rl_record, chk, tier, rl_scenarios(chk, tier) if not only or only == "rate" else [])

    def timed(name, step):
        t0 = time.time()
        step(chk, tier)
        log(f"[{prop}] {name}: {time.time() - t0:.1f}s")

    class ModelSide:
        """What the model steps need of the Check, with add_model deferred to the main thread."""
        def __init__(self):
            self.dir, self.seed, self.extra, self.models = chk.dir, chk.seed, {}, []

        def add_model(self, name, r):
            self.models.append((name, r))

    side = ModelSide()

    def models():
        for name, step in (("lambda models", lam_models), ("imm models", imm_models), ("rate limit models", rl_models)):
            if not vlib.SKIP_MC and (not only or name.startswith(only)):
                t0 = time.time()
                step(side, tier)
                log(f"[{prop}] {name}: {time.time() - t0:.1f}s")

    model_future = pool.submit(models)
    steps = [("lambda replay", run_lambda), ("imm sequential", run_imm_seq), ("imm concurrent", run_imm_conc),
             ("test sinks", run_tsink), ("rate limit traces", lambda c, t: rl_validate(c, rl_future.result()))]
    try:
        for name, step in steps:
            if not only or name.startswith(only):
                timed(name, step)
        model_future.result()
        for name, r in side.models:
            chk.add_model(name, r)
        chk.extra.update(side.extra)
    finally:
        pool.shutdown()
    return chk.finish()


def replay(prop, path):
    with open(path) as f:
        v = json.load(f)
    rp = v["replay"]
    vlib.cargo_build(["lam", "imm"])
    chk = vlib.Check(prop + "-replay", "quick")
    kind = rp.get("kind")
    if kind == "lambda":
        run_lambda(chk, "quick", beh=[dict(rp["behaviour"], id=i + 1) for i in range(3)], tag="replay")
    elif kind == "imm-seq":
        run_imm_seq(chk, "quick", beh=[dict(rp["behaviour"], id=1)], tag="replay")
    elif kind == "imm-conc":
        run_imm_conc_replay(chk, rp)
    elif kind == "tsink":
        run_tsink(chk, "quick", beh=[dict(rp["behaviour"], id=1)], tag="replay")
    elif kind == "rl":
        rl_validate(chk, rl_record(chk, "quick", [dict(rp["scenario"], id=1)], tag="replay"))
    else:
        raise vlib.ToolError(f"unknown replay kind {kind}")
    log("replay:", "violation reproduced" if chk.violations else "no violation")
    return 1 if chk.violations else 0


def run_imm_conc_replay(chk, rp):
    """A concurrent scenario is a schedule-dependent observation: the scenario is re-run 40 times."""
    run_imm_conc(chk, "quick", scen=[dict(rp["scenario"], id=i + 1) for i in range(40)], tag="replay")
