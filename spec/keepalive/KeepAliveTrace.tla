--------------------------- MODULE KeepAliveTrace ---------------------------
(***************************************************************************)
(* Trace validation for C06 / C13: is an execution recorded from the real  *)
(* AppendAndCloseOnDrop (ndjson, one event per line, scenarios separated   *)
(* by Reset events) explainable by the PROPERTY LAYER of KeepAlive.tla?    *)
(* The monitor is deliberately permissive: it knows nothing about Arcs,    *)
(* closures or the thread that emits.  It only tracks which objects exist, *)
(* which drops have started / ended (DropStart is logged before the drop   *)
(* is called, DropEnd after it returned), the mutations made, and judges   *)
(* EmitBegin (the entry begins to close: logged by the entry's first       *)
(* field), Append (logged by the sink, with the content it received) and   *)
(* Quiesce (no drop in progress).                                          *)
(*                                                                         *)
(*   once      at most one Append                                   (C06)  *)
(*   early     (early(slot) when only a wait-mode slot guard is missing)   *)
(*             EmitBegin / Append only after the drop of the owner and of  *)
(*             every handle has started, and the drops of all flush guards *)
(*             (including those held by wait-mode slot guards) or of some  *)
(*             force guard have started                              (C06) *)
(*   missing   at Quiesce: appended iff owner and all handles dropped and  *)
(*             (all flush guards dropped or some force guard dropped) (C06)*)
(*   version   the appended owner field counts every mutation        (C06) *)
(*   partial   an appended slot value is the value as last mutated   (C13) *)
(*   lost      slot guard drop ended before EmitBegin => value present;    *)
(*             wait mode and no force guard drop started => present  (C13) *)
(*   ghost     slot guard drop not started at Append => value absent (C13) *)
(*   reopen    a second open returns no guard                        (C13) *)
(* The first violated rule of a scenario is named in `bad` (with its line   *)
(* in `badl`) and printed as <<"BAD", "[scenario, line, rule]">> when the next  *)
(* Reset event is reached (the runner appends a final Reset), so one       *)
(* linear pass judges every scenario of the file.                          *)
(***************************************************************************)
EXTENDS Naturals, Integers, Sequences, FiniteSets, TLC, Json, IOUtils

Rec == ndJsonDeserialize(IOEnv.TRACE)
N == Len(Rec)
Ix == 1..3
SIx == 1..2

VARIABLES l, ost, hst, gst, fst, sst, smode, ver, sval, app, ebeg, endedB, bad, badl, scen,
          faulted  \* slot guards whose payload's close was made to panic: they deliver no value
tvars == <<l, ost, hst, gst, fst, sst, smode, ver, sval, app, ebeg, endedB, bad, badl, scen, faulted>>

Ev(name) == l <= N /\ Rec[l].ev = name
Adv == l' = l + 1

Fresh ==
    /\ ost' = "live"
    /\ hst' = [i \in Ix |-> "none"] /\ gst' = [i \in Ix |-> "none"] /\ fst' = [i \in Ix |-> "none"]
    /\ sst' = [i \in SIx |-> "none"] /\ smode' = [i \in SIx |-> "discard"]
    /\ ver' = 0 /\ sval' = [i \in SIx |-> 0] /\ app' = 0 /\ ebeg' = FALSE /\ endedB' = {}

TInit ==
    /\ l = 1 /\ bad = "ok" /\ badl = 0 /\ scen = 0 /\ faulted = {}
    /\ ost = "live"
    /\ hst = [i \in Ix |-> "none"] /\ gst = [i \in Ix |-> "none"] /\ fst = [i \in Ix |-> "none"]
    /\ sst = [i \in SIx |-> "none"] /\ smode = [i \in SIx |-> "discard"]
    /\ ver = 0 /\ sval = [i \in SIx |-> 0] /\ app = 0 /\ ebeg = FALSE /\ endedB = {}
    /\ TLCSet(1, 1)

Begun(st) == st \in {"dropping", "dropped"}
(* owner dropped directly, or turned into handles which are all being / have been dropped *)
OwnersStarted == \/ ost \in {"dropping", "dropped"}
                 \/ ost = "handles" /\ \A i \in Ix : hst[i] # "live"
OwnersEnded == \/ ost = "dropped"
               \/ ost = "handles" /\ \A i \in Ix : hst[i] \in {"none", "dropped"}
IsWait(s) == sst[s] # "none" /\ smode[s] = "wait"
GuardsStarted == (\A i \in Ix : gst[i] # "live") /\ (\A s \in SIx : IsWait(s) => Begun(sst[s]))
GuardsEnded == (\A i \in Ix : gst[i] \in {"none", "dropped"}) /\ (\A s \in SIx : IsWait(s) => sst[s] = "dropped")
ForceStarted == \E i \in Ix : Begun(fst[i])
ForceEnded == \E i \in Ix : fst[i] = "dropped"
CondStarted == OwnersStarted /\ (GuardsStarted \/ ForceStarted)
(* the only thing missing is the drop of a wait-mode slot guard (C13: "appended only after the slot guard has been dropped") *)
OnlySlotMissing == /\ OwnersStarted /\ ~ForceStarted /\ (\A i \in Ix : gst[i] # "live")
                   /\ \E s \in SIx : IsWait(s) /\ ~Begun(sst[s])
Early(what) == IF OnlySlotMissing THEN "early(slot): the entry is " \o what \o " before a wait-mode slot guard was dropped (no force-flush guard dropped)"
               ELSE "early: the entry is " \o what \o " before the enabling drops have started"
CondEnded == OwnersEnded /\ (GuardsEnded \/ ForceEnded)
NoneDropping == /\ ost # "dropping" /\ \A i \in Ix : hst[i] # "dropping" /\ gst[i] # "dropping" /\ fst[i] # "dropping"
                /\ \A s \in SIx : sst[s] # "dropping"

Keep(vs) == UNCHANGED <<vs, scen, faulted>>
Flag(b) == /\ bad' = (IF bad = "ok" THEN b ELSE bad)
           /\ badl' = (IF bad = "ok" /\ b # "ok" THEN l ELSE badl)

TReset == /\ Ev("Reset") /\ Adv /\ Fresh
          /\ bad' = "ok" /\ badl' = 0 /\ scen' = Rec[l].id /\ faulted' = {}
          /\ (bad = "ok" \/ PrintT(<<"BAD", ToJson(<<scen, badl, bad>>)>>))

TNew ==
    /\ Ev("New") /\ Adv
    /\ LET k == Rec[l].k
           i == Rec[l].i IN
        /\ gst' = IF k = "g" THEN [gst EXCEPT ![i] = "live"] ELSE gst
        /\ fst' = IF k = "f" THEN [fst EXCEPT ![i] = "live"] ELSE fst
        /\ hst' = IF k = "h" THEN [hst EXCEPT ![i] = "live"] ELSE hst
        /\ ost' = IF k = "h" THEN "handles" ELSE ost
        /\ sst' = IF k = "s" THEN [sst EXCEPT ![i] = "live"] ELSE sst
        /\ smode' = IF k = "s" THEN [smode EXCEPT ![i] = Rec[l].mode] ELSE smode
    /\ Keep(<<ver, sval, app, ebeg, endedB, bad, badl>>)

TMut == Ev("Mut") /\ Adv /\ ver' = ver + 1
        /\ Keep(<<ost, hst, gst, fst, sst, smode, sval, app, ebeg, endedB, bad, badl>>)
TSMut == Ev("SMut") /\ Adv /\ sval' = [sval EXCEPT ![Rec[l].i] = @ + 1]
         /\ Keep(<<ost, hst, gst, fst, sst, smode, ver, app, ebeg, endedB, bad, badl>>)

SetSt(k, i, v) ==
    /\ ost' = IF k = "o" THEN v ELSE ost
    /\ hst' = IF k = "h" THEN [hst EXCEPT ![i] = v] ELSE hst
    /\ gst' = IF k = "g" THEN [gst EXCEPT ![i] = v] ELSE gst
    /\ fst' = IF k = "f" THEN [fst EXCEPT ![i] = v] ELSE fst
    /\ sst' = IF k = "s" THEN [sst EXCEPT ![i] = v] ELSE sst

TDropStart == Ev("DropStart") /\ Adv /\ SetSt(Rec[l].k, Rec[l].i, "dropping")
              /\ Keep(<<smode, ver, sval, app, ebeg, endedB, bad, badl>>)
TDropEnd == Ev("DropEnd") /\ Adv /\ SetSt(Rec[l].k, Rec[l].i, "dropped")
            /\ Keep(<<smode, ver, sval, app, ebeg, endedB, bad, badl>>)

TEmitBegin ==
    /\ Ev("EmitBegin") /\ Adv
    /\ ebeg' = TRUE
    /\ endedB' = IF ebeg THEN endedB ELSE {s \in SIx : sst[s] = "dropped"}
    /\ Flag(IF ebeg \/ app > 0 THEN "once: the entry is closed a second time"
            ELSE IF ~CondStarted THEN Early("closed")
            ELSE "ok")
    /\ Keep(<<ost, hst, gst, fst, sst, smode, ver, sval, app>>)

SlotVerdict(s, v) ==
    IF s \in faulted THEN (IF v >= 0 THEN "ghost: slot value appended although its guard went away without delivering one" ELSE "ok")
    ELSE IF v >= 0 /\ ~Begun(sst[s]) THEN "ghost: slot value appended although its guard's drop has not started"
    ELSE IF v >= 0 /\ v # sval[s] THEN "partial: appended slot value is not the value as last mutated through the guard"
    ELSE IF v < 0 /\ s \in endedB THEN "lost: slot guard was dropped before the entry was closed but its value is absent"
    ELSE IF v < 0 /\ IsWait(s) /\ ~ForceStarted THEN "lost: wait-mode slot value absent although no force-flush guard was dropped"
    ELSE "ok"

TAppend ==
    /\ Ev("Append") /\ Adv
    /\ app' = app + 1
    /\ LET v1 == SlotVerdict(1, Rec[l].s[1])
           v2 == SlotVerdict(2, Rec[l].s[2]) IN
       Flag(IF app > 0 THEN "once: the entry is appended a second time"
            ELSE IF ~CondStarted THEN Early("appended")
            ELSE IF Rec[l].ver # ver THEN "version: the appended entry does not reflect every mutation made through the owner"
            ELSE IF v1 # "ok" THEN v1
            ELSE v2)
    /\ Keep(<<ost, hst, gst, fst, sst, smode, ver, sval, ebeg, endedB>>)

TQuiesce ==
    /\ Ev("Quiesce") /\ Adv
    /\ Flag(IF ~NoneDropping THEN "tool: Quiesce while a drop is in progress"
            ELSE IF CondEnded /\ app = 0 THEN "missing: owner and guards are dropped but the entry was not appended"
            ELSE IF ~CondEnded /\ app > 0 THEN "early: the entry was appended although the condition does not hold"
            ELSE "ok")
    /\ Keep(<<ost, hst, gst, fst, sst, smode, ver, sval, app, ebeg, endedB>>)

TReOpen ==
    /\ Ev("ReOpen") /\ Adv
    /\ Flag(IF Rec[l].some = 1 THEN "reopen: a second open of the slot returned a guard" ELSE "ok")
    /\ Keep(<<ost, hst, gst, fst, sst, smode, ver, sval, app, ebeg, endedB>>)

TWaited == Ev("Waited") /\ Adv /\ Keep(<<ost, hst, gst, fst, sst, smode, ver, sval, app, ebeg, endedB, bad, badl>>)

\* SlotGuard::delay_flush with a fresh flush guard of the entry: the guard is in wait mode from here on
TDelay == /\ Ev("Delay") /\ Adv /\ smode' = [smode EXCEPT ![Rec[l].i] = "wait"]
          /\ Keep(<<ost, hst, gst, fst, sst, ver, sval, app, ebeg, endedB, bad, badl>>)

\* fault injection: the payload of slot guard i will panic in its close (the guard's drop then delivers nothing;
\* the entry must still be appended exactly once, with everything else in it)
TFault == /\ Ev("Fault") /\ Adv /\ faulted' = faulted \cup {Rec[l].i}
          /\ UNCHANGED <<ost, hst, gst, fst, sst, smode, ver, sval, app, ebeg, endedB, bad, badl, scen>>

\* an observer thread Debug-formatted a live flush guard / slot guard n times while others were dropping:
\* a stuttering step, it must not change anything the property talks about
TObserve == Ev("Observe") /\ Adv /\ Keep(<<ost, hst, gst, fst, sst, smode, ver, sval, app, ebeg, endedB, bad, badl>>)

\* scheduled replay: the wait was given up after its short budget (a gated thread was slow): no observation
TWaitSkipped == Ev("WaitSkipped") /\ Adv /\ Keep(<<ost, hst, gst, fst, sst, smode, ver, sval, app, ebeg, endedB, bad, badl>>)

TWaitTimeout == Ev("WaitTimeout") /\ Adv /\ Flag("lost: wait_for_data did not complete within its budget")
                /\ Keep(<<ost, hst, gst, fst, sst, smode, ver, sval, app, ebeg, endedB>>)

TPanic == Ev("Panic") /\ Adv /\ Flag("panic: the code under test panicked")
          /\ Keep(<<ost, hst, gst, fst, sst, smode, ver, sval, app, ebeg, endedB>>)

TNext_ == TReset \/ TNew \/ TMut \/ TSMut \/ TDropStart \/ TDropEnd \/ TEmitBegin \/ TAppend \/ TQuiesce
          \/ TReOpen \/ TWaited \/ TDelay \/ TFault \/ TObserve \/ TWaitSkipped \/ TWaitTimeout \/ TPanic

TSpec == TInit /\ [][TNext_]_tvars

Ok == bad = "ok"

Track ==
    /\ IF l > TLCGet(1) THEN TLCSet(1, l) ELSE TRUE
    /\ IF l = N + 1 THEN TLCSet("exit", TRUE) ELSE TRUE

Accepted ==
    IF TLCGet(1) = N + 1 THEN PrintT(<<"ACCEPTED", N>>)
    ELSE /\ PrintT(<<"REJECTED", TLCGet(1), ToJson(Rec[TLCGet(1)]), "malformed">>)
         /\ FALSE
=============================================================================
