CONSTANTS
  Guards = {1, 2, 3}
  Mode = "split"
SPECIFICATION Spec
INVARIANT CloseOK
CHECK_DEADLOCK FALSE
