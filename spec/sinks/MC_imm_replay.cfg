CONSTANTS
  Threads = {1}
  PerThread = 3
  NextRes = {"ok", "val", "io", "panic"}
  FlushRes = {"ok", "err", "panic"}
  AsyncOK = TRUE
  Bug = "none"
SPECIFICATION RSpec
INVARIANTS Emit Atomic ExactlyOnce FlushedOnReturn
CHECK_DEADLOCK FALSE
