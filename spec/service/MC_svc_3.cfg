\* thorough: 3 requests (2 + 1), direct modes, one flush
CONSTANTS
  Plan <- Plan21
  ModesOf <- Direct
  NFlush = 1
  EarlyClose = FALSE
SPECIFICATION Spec
INVARIANTS SvcInv AtEnd
PROPERTY SilentAfterDetach
CHECK_DEADLOCK FALSE
