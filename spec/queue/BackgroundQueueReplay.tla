---------------------- MODULE BackgroundQueueReplay ----------------------
(***************************************************************************)
(* Behaviour generator: BackgroundQueue plus a history variable naming the *)
(* (action, actor) of every step.  Run with `tlc -simulate`; every         *)
(* simulated behaviour is printed as one JSON line ("REPLAY") when it      *)
(* terminates or reaches the length bound, and is then stepped through the *)
(* real queue by the harness's cooperative controller (bq sched).          *)
(* The history variable never enters the exhaustive configurations.        *)
(***************************************************************************)
EXTENDS BackgroundQueue, Json, IOUtils

VARIABLE hist
MaxLen == 80

H(a, who) == hist' = Append(hist, <<a, who>>)
PN(p) == "p" \o ToString(p)
FN(f) == "f" \o ToString(f)

RInit == Init /\ hist = <<>>

RNext ==
    \/ \E p \in Producers :
         \/ AStart(p) /\ H("AStart", PN(p))
         \/ Push(p) /\ H("Push", PN(p))
         \/ PUnpark(p) /\ H("PUnpark", PN(p))
         \/ DropSink(p) /\ H("DropSink", PN(p))
    \/ \E f \in Flushers :
         \/ FSend(f) /\ H("FSend", FN(f))
         \/ FUnpark(f) /\ H("FUnpark", FN(f))
         \/ FComplete(f) /\ H("FComplete", FN(f))
    \/ HSetFlag /\ H("HSetFlag", "h")
    \/ HUnpark /\ H("HUnpark", "h")
    \/ HJoin /\ H("HJoin", "h")
    \/ HForget /\ H("HForget", "h")
    \/ DropMain /\ H("DropMain", "m")
    \/ Tick /\ H("Tick", "t")
    \/ OuterStart /\ H("OuterStart", "w")
    \/ PopSome("Drain") /\ H("PopSome", "w")
    \/ PopNone("Drain", "Handle") /\ H("PopNone", "w")
    \/ Consume("Drain", "Handle")
         /\ hist' = Append(hist, <<"Consume", "w", ToString(cur), written'[Len(written')][2]>>)
    \/ Report /\ H("Report", "w")
    \/ SkipReport /\ H("SkipReport", "w")
    \/ Handle /\ H("Handle", "w")
    \/ HWake /\ H("HWake", "w")
    \/ HCollect /\ H("HCollect", "w")
    \/ Park /\ H("Park", "w")
    \/ AfterPark /\ H("AfterPark", "w")
    \/ OuterFlush /\ H("OuterFlush", "w")
    \/ ExitCheck /\ H("ExitCheck", "w")
    \/ PopSome("SDrain") /\ H("PopSome", "w")
    \/ PopNone("SDrain", "SFlush") /\ H("PopNone", "w")
    \/ Consume("SDrain", "SFlush")
         /\ hist' = Append(hist, <<"Consume", "w", ToString(cur), written'[Len(written')][2]>>)
    \/ SFlush /\ H("SFlush", "w")
    \/ Close /\ H("Close", "w")
    \/ ExitWake /\ H("ExitWake", "w")

RSpec == RInit /\ [][RNext]_<<vars, hist>>

Terminal == /\ wpc = "Done" /\ hstate \in {"joined", "forgotten"} /\ ~mainHeld
            /\ \A p \in Producers : ppc[p] = "dropped"
            /\ \A f \in Flushers : fpc[f] = "idle" \/ f \in done

Behaviour == [cap |-> Cap, producers |-> Cardinality(Producers), maxapp |-> MaxApp,
              flushers |-> Cardinality(Flushers), steps |-> hist]

\* "invariant" used only for its side effect: print each finished behaviour once
Emit == (Terminal \/ Len(hist) = MaxLen) => PrintT(<<"REPLAY", ToJson(Behaviour)>>)
Bound == Len(hist) <= MaxLen
=============================================================================
