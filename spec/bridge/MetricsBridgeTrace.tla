------------------------ MODULE MetricsBridgeTrace ------------------------
(***************************************************************************)
(* Trace validation for C20: is an execution recorded from the real          *)
(* metrics.rs bridge (ndjson, one event per line, several runs separated by  *)
(* Reset events) accepted by the property layer BridgeObs?                    *)
(*                                                                         *)
(* Updater threads log the start and the end of every batch of counter        *)
(* increments (IncStart/IncEnd k n: n = total amount of the batch), histogram *)
(* records (RecStart/RecEnd k v n: n samples of value v), gauge sets          *)
(* (SetStart/SetEnd k v) and unit descriptions (DescStart/DescEnd name unit); *)
(* the reader logs ReadoutStart and ReadoutEnd with every item the readout    *)
(* entry wrote into a recording EntryWriter: name, dimensions, unit and the   *)
(* observations.  The log order is a linear extension of real time, so "A's   *)
(* end is logged before B's start" implies A happened before B; nothing else  *)
(* about time is used.  The specification is deterministic: no silent steps.  *)
(*                                                                         *)
(* Besides the accounting rules of BridgeObs, a readout is accepted only if   *)
(* every item carries the name of a registered key with exactly its labels as *)
(* dimensions, and a unit that was the described one at some moment of the    *)
(* readout (UnitName maps the metrics.rs unit to the name metrique gives it).  *)
(***************************************************************************)
EXTENDS BridgeObs, Json, IOUtils

Rec == ndJsonDeserialize(IOEnv.TRACE)
N == Len(Rec)

VARIABLES l, keys, emitZero, classes,
          uThr,     \* key -> what had been STARTED on it when the latest description of its name ended (-1: none)
          uSince    \* name -> units the name can have had since that moment
tvars == <<ovars, l, keys, emitZero, classes, uThr, uSince>>

\* metrics.rs unit (as described) -> the unit metrique must report
UnitName == [None |-> "None", Count |-> "Count", Percent |-> "Percent", Seconds |-> "Seconds",
             Milliseconds |-> "Milliseconds", Microseconds |-> "Microseconds", Nanoseconds |-> "Nanoseconds",
             Tebibytes |-> "Tebibytes", Gibibytes |-> "Gibibytes", Mebibytes |-> "Mebibytes",
             Kibibytes |-> "Kibibytes", Bytes |-> "Bytes", TerabitsPerSecond |-> "Terabits/Second",
             GigabitsPerSecond |-> "Gigabits/Second", MegabitsPerSecond |-> "Megabits/Second",
             KilobitsPerSecond |-> "Kilobits/Second", BitsPerSecond |-> "Bits/Second",
             CountPerSecond |-> "Count/Second"]

RECURSIVE SumTo(_, _)
SumTo(w, i) == IF i = 0 THEN 0 ELSE w[i] + SumTo(w, i - 1)
Sum(w) == SumTo(w, Len(w))

Ev(name) == l <= N /\ Rec[l].ev = name
Adv == l' = l + 1
UT0 == UNCHANGED <<keys, emitZero, classes>>
UT == UT0 /\ UNCHANGED <<uThr, uSince>>

Range(s) == {s[i] : i \in DOMAIN s}
KeysOfKind(ks, kind) == {i \in DOMAIN ks : ks[i].kind = kind}
GReg(i) == "g" \o ToString(i)
UReg(name) == "u:" \o name

TInit ==
    /\ l = 1 /\ keys = <<>> /\ emitZero = FALSE /\ classes = <<>> /\ uThr = <<>> /\ uSince = <<>>
    /\ OInit({}, {}, {}, <<>>)
    /\ TLCSet(1, 1) /\ TLCSet(2, {})

TReset ==
    /\ Ev("Reset") /\ Adv
    /\ keys' = Rec[l].keys /\ emitZero' = Rec[l].emit_zero /\ classes' = Rec[l].classes
    /\ uThr' = [i \in DOMAIN Rec[l].keys |-> -1]
    /\ uSince' = [n \in {Rec[l].keys[i].name : i \in DOMAIN Rec[l].keys} |-> {}]
    /\ LET ks == Rec[l].keys
           gregs == {GReg(i) : i \in KeysOfKind(ks, "g")}
           uregs == {UReg(ks[i].name) : i \in DOMAIN ks}
       IN OReset(KeysOfKind(ks, "c"), KeysOfKind(ks, "h") \X DOMAIN Rec[l].classes, gregs \cup uregs,
                 [r \in gregs \cup uregs |-> IF r \in gregs THEN 0 ELSE "None"])

\* Value classes of histogram samples.  classes[i] = <<c, u>>: the recorded value is c units of u
\* (u = 1, or 1024 for values that do not fit TLC's 32-bit integers; values above u32::MAX are
\* documented to be capped to u32::MAX, the last class).  The harness records only these values
\* (or value + 1), which are far enough apart for a reported bucket to belong to one class only.
\* A reported bucket <<lo, hi, lok, hik, n>> carries floor / ceiling of total / occurrences in units
\* of 1 (-1: too large) and of 1024; it belongs to class i if that mean is within 1/16 of the value.
Abs(x) == IF x < 0 THEN -x ELSE x
Near(m, c) == m >= 0 /\ Abs(m - c) <= c \div 16
InClass(p, i) == LET c == classes[i][1] IN
                 IF classes[i][2] = 1 THEN Near(p[1], c) /\ Near(p[2], c)
                 ELSE Near(p[3], c) /\ Near(p[4], c)
ClassOf(p) == IF \E i \in DOMAIN classes : InClass(p, i)
              THEN CHOOSE i \in DOMAIN classes : InClass(p, i) ELSE -1

TIncStart == Ev("IncStart") /\ Adv /\ OIncStart(Rec[l].k, Rec[l].n) /\ UT
TIncEnd   == Ev("IncEnd") /\ Adv /\ OIncEnd(Rec[l].k, Rec[l].n) /\ UT
TRecStart == Ev("RecStart") /\ Adv /\ ORecStart(Rec[l].k, Rec[l].c, Rec[l].n) /\ UT
TRecEnd   == Ev("RecEnd") /\ Adv /\ ORecEnd(Rec[l].k, Rec[l].c, Rec[l].n) /\ UT
TSetStart == Ev("SetStart") /\ Adv /\ OWriteStart(GReg(Rec[l].k), Rec[l].v) /\ UT
TSetEnd   == Ev("SetEnd") /\ Adv /\ OWriteEnd(GReg(Rec[l].k), Rec[l].v) /\ UT
\* Causality rule for units ("a metric described before it was updated is reported with that unit"):
\* when a description D of a name ends, remember for every key of the name how much had been started on
\* it (uThr) and which units the name can have from now on (uSince: the candidates after D, plus every
\* description that starts later).  A readout whose cumulative report for the key exceeds uThr has seen
\* an update that started after D ended, so whatever it reads afterwards - the unit table - is later
\* than D: the unit it writes must be in uSince.
StartedOn(i) == IF keys[i].kind = "c" THEN cS[i]
                ELSE IF keys[i].kind = "h" THEN SumTo([c \in DOMAIN classes |-> hS[<<i, c>>]], Len(classes))
                ELSE -1
TDescStart ==
    /\ Ev("DescStart") /\ Adv /\ OWriteStart(UReg(Rec[l].name), UnitName[Rec[l].unit]) /\ UT0
    /\ uSince' = [uSince EXCEPT ![Rec[l].name] = @ \cup {UnitName[Rec[l].unit]}] /\ UNCHANGED uThr
TDescEnd ==
    /\ Ev("DescEnd") /\ Adv /\ OWriteEnd(UReg(Rec[l].name), UnitName[Rec[l].unit]) /\ UT0
    /\ uSince' = [uSince EXCEPT ![Rec[l].name] = lCand'[UReg(Rec[l].name)]]
    /\ uThr' = [i \in DOMAIN keys |-> IF keys[i].name = Rec[l].name THEN StartedOn(i) ELSE uThr[i]]
TReadoutStart == Ev("ReadoutStart") /\ Adv /\ OReadoutStart /\ UT

(***************************************************************************)
(* a readout                                                                *)
(***************************************************************************)

\* the registered key an item stands for: same kind, same name, its labels as dimensions (0 = none)
Match(it) == {i \in DOMAIN keys : keys[i].kind = it.kind /\ keys[i].name = it.name
                                   /\ Len(keys[i].labels) = Len(it.dims)
                                   /\ Range(keys[i].labels) = Range(it.dims)}
\* (TLCEval: evaluate once, eagerly - TLC would otherwise re-evaluate the body at every application)
KeyIdx(items) == TLCEval([j \in DOMAIN items |-> IF Match(items[j]) = {} THEN 0 ELSE CHOOSE i \in Match(items[j]) : TRUE])

\* class of every reported bucket of every item (0: no occurrences, -1: none - the mean of the bucket
\* is not within the bucket error of any recorded value)
ObsClasses(items) == TLCEval([j \in DOMAIN items |-> TLCEval([q \in DOMAIN items[j].obs |->
                        LET p == items[j].obs[q] IN IF p[5] = 0 THEN 0 ELSE ClassOf(p)])])

Dc(items, idx) == TLCEval([i \in DOMAIN cC |-> Sum([j \in DOMAIN items |-> IF idx[j] = i THEN items[j].v ELSE 0])])
Dh(items, idx, cls) ==
    TLCEval([k \in DOMAIN hC |->
        Sum([j \in DOMAIN items |->
                IF idx[j] = k[1]
                THEN Sum([q \in DOMAIN items[j].obs |-> IF cls[j][q] = k[2] THEN items[j].obs[q][5] ELSE 0])
                ELSE 0])])
Dg(items, idx) == {<<GReg(idx[j]), items[j].v>> : j \in {jj \in DOMAIN items : idx[jj] # 0 /\ items[jj].kind = "g"}}
Du(items) == {<<UReg(items[j].name), items[j].unit>> : j \in DOMAIN items}

\* cumulative report for a key including this readout
ReportedOn(i, dc, dh) == IF keys[i].kind = "c" THEN cC[i] + dc[i]
                         ELSE IF keys[i].kind = "h" THEN SumTo([c \in DOMAIN classes |-> hC[<<i, c>>] + dh[<<i, c>>]], Len(classes))
                         ELSE -1

\* the rules, each with a name (Failures is what the runner prints when a readout is rejected)
Rules(items, idx, cls, dc, dh, dg) ==
    [names      |-> \A j \in DOMAIN items : idx[j] # 0,
     units      |-> \A j \in DOMAIN items : idx[j] # 0 => items[j].unit \in lW[UReg(items[j].name)],
     counters   |-> CountersOK(dc),
     histograms |-> HistsOK(dh),
     histvalues |-> \A j \in DOMAIN items : items[j].kind = "h" =>
                        \A q \in DOMAIN items[j].obs : cls[j][q] >= 0,
     gauges     |-> RegsOK(dg),
     gaugeshown |-> RegsPresent(dg, {GReg(i) : i \in KeysOfKind(keys, "g")}),
     unitsafter |-> \A j \in DOMAIN items :
                        LET i == idx[j] IN
                        (i # 0 /\ uThr[i] >= 0 /\ ReportedOn(i, dc, dh) > uThr[i]) => items[j].unit \in uSince[items[j].name],
     zerocounters |-> emitZero => \A i \in DOMAIN cC : cLo[i] > 0 => \E j \in DOMAIN items : idx[j] = i]
RuleNames == {"names", "units", "unitsafter", "counters", "histograms", "histvalues", "gauges", "gaugeshown", "zerocounters"}

TReadoutEnd ==
    /\ Ev("ReadoutEnd") /\ Adv
    /\ LET items == Rec[l].items
           idx == KeyIdx(items)
           cls == ObsClasses(items)
           dc == Dc(items, idx)
           dh == Dh(items, idx, cls)
           dg == Dg(items, idx)
           r == Rules(items, idx, cls, dc, dh, dg)
       IN /\ \A n \in RuleNames : r[n]
          /\ OReadoutEnd(dc, dh)
    /\ UT

TNext_ ==
    \/ TReset \/ TIncStart \/ TIncEnd \/ TRecStart \/ TRecEnd \/ TSetStart \/ TSetEnd
    \/ TDescStart \/ TDescEnd \/ TReadoutStart \/ TReadoutEnd

TSpec == TInit /\ [][TNext_]_tvars

\* high-water mark of consumed lines (register 1); needs -workers 1.  With env DIAG=1 (second pass
\* of the runner over a rejected run) register 2 holds, for the line that is next, why a readout would
\* be rejected together with the bounds.
DiagOn == "DIAG" \in DOMAIN IOEnv /\ IOEnv.DIAG = "1"
Diag == IF DiagOn /\ l <= N /\ Rec[l].ev = "ReadoutEnd" /\ rOpen
        THEN LET items == Rec[l].items
                 idx == KeyIdx(items)
                 cls == ObsClasses(items)
                 dc == Dc(items, idx)
                 dh == Dh(items, idx, cls)
                 dg == Dg(items, idx)
                 r == Rules(items, idx, cls, dc, dh, dg)
             IN <<{n \in RuleNames : ~r[n]},
                  [lo |-> cLo, cum |-> cC, delta |-> dc, started |-> cS],
                  [lo |-> hLo, cum |-> hC, delta |-> dh, started |-> hS],
                  [window |-> lW, reported |-> dg \cup Du(items), since |-> uSince]>>
        ELSE <<{}>>
Track ==
    /\ IF l > TLCGet(1) THEN TLCSet(1, l) /\ TLCSet(2, Diag) ELSE TRUE
    /\ IF l = N + 1 THEN TLCSet("exit", TRUE) ELSE TRUE

Accepted ==
    IF TLCGet(1) = N + 1 THEN PrintT(<<"ACCEPTED", N>>)
    ELSE /\ PrintT(<<"REJECTED", TLCGet(1), ToJson(Rec[TLCGet(1)]), TLCGet(2)>>)
         /\ FALSE
=============================================================================
