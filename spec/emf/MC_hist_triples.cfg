\* C14 behaviours, thorough: kind -> (kind x fault) -> kind for every configuration
CONSTANTS
  Bug = "none"
  ConfigNames = {"v1", "n1", "v2d", "n2d", "v3dd", "v1i", "s2d", "sn1", "wf", "ws", "wg"}
  Depth = 3
  Configs = {"v1", "n1", "v2d", "n2d", "v3dd", "v1i", "s2d", "sn1", "wf", "ws", "wg"}
  FaultAt = {1}
  FaultMod = 0
  NoHuge = {"v1", "n1", "n2d", "v1i", "sn1", "wf", "ws", "wg"}
SPECIFICATION RSpec
INVARIANT Emit
CONSTRAINT Bound
CHECK_DEADLOCK FALSE
