CONSTANTS
  CKeys = {"c1", "c2"}
  GKeys = {"g1"}
  HKeys = {"h1"}
  EmitZero = FALSE
  MaxUpdates = 5
  MaxTicks = 3
  FinalMode = "always"
SPECIFICATION Spec
INVARIANT ReporterInv
PROPERTY StopIsFinal
CHECK_DEADLOCK FALSE
