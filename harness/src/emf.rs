//! EMF formatter conformance support (C02 C03 C08; reusable by C14/C16):
//!
//! * `Script`     — an `Entry` that issues exactly a given sequence of `EntryWriter` calls
//!                  (timestamp / config / value(string | metric | error | empty))
//! * `Conc`       — concretisation of the abstract symbols of `spec/emf/EmfFormat.tla`
//!                  (names, string values, observation tokens, units, dimension values,
//!                  namespaces) into nasty strings and extreme numbers, driven by a variant number
//! * `Formatter`  — a real `Emf` / `SampledEmf` built from an abstract configuration through one
//!                  of the documented ways of choosing the validation mode; it can be kept and
//!                  reused across entries (`format` takes `&mut self`)
//! * `project`    — strict parse of the produced bytes (framing, JSON, duplicate members,
//!                  `_aws` skeleton) projected to the abstract record shape of the model

use crate::json::{self, J};
use metrique_writer::format::Format;
use metrique_writer::sample::SampledFormat;
use metrique_writer::stream::IoStreamError;
use metrique_writer::value::{FlagConstructor, MetricFlags};
use metrique_writer::{
    Entry, EntryWriter, Observation, Unit, ValidationError, Value, ValueWriter,
    unit::{NegativeScale, PositiveScale},
};
use metrique_writer_core::config::AllowUnroutableEntries;
use metrique_writer_format_emf::{
    AllowSplitEntries, Emf, EntryDimensions, HighStorageResolutionCtor, MetricDefinition,
    MetricDirective, NoMetricCtor, SampledEmf,
};
use serde_json::{Value as SV, json};
use std::borrow::Cow;
use std::time::{Duration, SystemTime};

// ------------------------------------------------------------------------------------------
// concretisation
// ------------------------------------------------------------------------------------------

/// suffixes appended to a symbol to make a nasty but still distinct concrete string
const SUFFIX: &[&str] = &[
    "",
    "\"q\"",
    "\\b\\",
    "\u{0}\u{1f}",
    "\u{7f}\u{80}",
    "\u{2028}\u{2029}",
    "\u{1F600}\u{1D11E}",
    "\u{e9}\t\u{f1}\n\r",
    "</script>\u{feff}\u{fffd}",
    "\u{8}\u{c}/",
    "{\"Values\":[1,],\"x\":NaN}",
    // every escape-relevant character on its own: whether a string needs escaping is decided per character, so a
    // class that only ever appears next to another one (U+001F next to U+0000) hides a wrong boundary (C02-m7)
    "\"",
    "\\",
    " ",
    "!",
    "\u{0}",
    "\u{1}",
    "\u{2}",
    "\u{3}",
    "\u{4}",
    "\u{5}",
    "\u{6}",
    "\u{7}",
    "\u{8}",
    "\u{9}",
    "\u{a}",
    "\u{b}",
    "\u{c}",
    "\u{d}",
    "\u{e}",
    "\u{f}",
    "\u{10}",
    "\u{11}",
    "\u{12}",
    "\u{13}",
    "\u{14}",
    "\u{15}",
    "\u{16}",
    "\u{17}",
    "\u{18}",
    "\u{19}",
    "\u{1a}",
    "\u{1b}",
    "\u{1c}",
    "\u{1d}",
    "\u{1e}",
    "\u{1f}",
    "\u{7f}",
];

const STD_UNITS: &[(Unit, &str)] = &[
    (Unit::Second(NegativeScale::Milli), "Milliseconds"),
    (Unit::Count, "Count"),
    (Unit::Percent, "Percent"),
    (Unit::Second(NegativeScale::Micro), "Microseconds"),
    (Unit::Second(NegativeScale::One), "Seconds"),
    (Unit::Byte(PositiveScale::One), "Bytes"),
    (Unit::Byte(PositiveScale::Kilo), "Kilobytes"),
    (Unit::BytePerSecond(PositiveScale::Tera), "Terabytes/Second"),
    (Unit::Bit(PositiveScale::Mega), "Megabits"),
    (Unit::BitPerSecond(PositiveScale::Giga), "Gigabits/Second"),
];

const CUSTOM_UNITS: &[&str] = &[
    "Widgets",
    "w\"x",
    "back\\slash",
    "\u{1}ctl",
    "\u{fc}nit\u{2028}",
    "None",
    "\u{1F600}",
];

const U_VALUES: &[u64] = &[0, 1, 42, (1 << 53) + 1, u64::MAX, 1 << 53, 1_000_000_007, u64::MAX - 1];
const F_VALUES: &[f64] = &[
    -0.0,
    5e-324,
    1e300,
    1.5,
    -2.5e-7,
    0.30000000000000004,
    1e21,
    1e-7,
    -1.7976931348623157e308,
    123456789.125,
    0.0,
    1.0,
    9007199254740993.0,
    -1.0,
];
const TOTALS: &[f64] = &[6.0, 5e-324, 1e300, -3.25, 0.0, 1.7976931348623157e308, 7.0];
const ZERO_OCC_TOTALS: &[f64] = &[1.0, f64::NAN, f64::INFINITY, 0.0, -5.0];

#[derive(Clone, Copy, Debug)]
pub struct Conc {
    pub v: u64,
}

fn salt(s: &str) -> u64 {
    // small deterministic hash (FNV-1a), independent of std's randomised hasher
    let mut h: u64 = 0xcbf29ce484222325;
    for b in s.bytes() {
        h ^= b as u64;
        h = h.wrapping_mul(0x100000001b3);
    }
    h % 1009
}

impl Conc {
    fn pick<'t, T>(&self, table: &'t [T], salt: u64) -> &'t T {
        // splitmix64 of (variant, salt): every table entry is reached whatever the table length
        let mut x = self.v.wrapping_mul(0x9E37_79B9_7F4A_7C15).wrapping_add(salt.wrapping_mul(0xBF58_476D_1CE4_E5B9));
        x ^= x >> 30;
        x = x.wrapping_mul(0xBF58_476D_1CE4_E5B9);
        x ^= x >> 27;
        x = x.wrapping_mul(0x94D0_49BB_1331_11EB);
        x ^= x >> 31;
        &table[(x % table.len() as u64) as usize]
    }
    /// member / dimension names: "" and "_aws" stay exactly themselves
    pub fn name(&self, sym: &str) -> String {
        if sym.is_empty() || sym == "_aws" || self.v == 0 {
            return sym.to_string();
        }
        format!("{sym}{}", self.pick(SUFFIX, salt(sym)))
    }
    pub fn dim_value(&self, sym: &str) -> String {
        if self.v == 0 {
            return sym.to_string();
        }
        format!("{sym}{}", self.pick(SUFFIX, salt(sym) + 3))
    }
    pub fn namespace(&self, i: usize) -> String {
        if self.v == 0 {
            return format!("NS{i}");
        }
        format!("NS{i}{}", self.pick(SUFFIX, i as u64 + 5))
    }
    pub fn log_group(&self) -> String {
        format!("lg{}", self.pick(SUFFIX, 11))
    }
    pub fn string_value(&self, sym: &str, pos: usize) -> String {
        match sym {
            "plain" => "value".to_string(),
            _ => {
                let k = (self.v + pos as u64) % (SUFFIX.len() as u64 + 3);
                if self.v % 53 == 17 {
                    // 100 kB, mixed content
                    return "long\"\\\u{1}\u{2028}\u{1F600}x".repeat(100_000 / 16);
                }
                match k {
                    0 => String::new(),
                    1 => "x".repeat(300) + "\"\\",
                    2 => "\\u0041\\\\\"\\n".to_string(),
                    k => SUFFIX[(k - 3) as usize].to_string(),
                }
            }
        }
    }
    pub fn unit(&self, sym: &str, pos: usize) -> (Unit, Option<&'static str>) {
        match sym {
            "std" => {
                let (u, n) = *self.pick(STD_UNITS, pos as u64);
                (u, Some(n))
            }
            "custom" => {
                let n: &'static str = *self.pick(CUSTOM_UNITS, pos as u64);
                (Unit::Custom(n), Some(n))
            }
            _ => (Unit::None, None),
        }
    }
    pub fn observation(&self, tok: &str, pos: usize) -> Observation {
        let s = pos as u64 * 3;
        match tok {
            "U" => Observation::Unsigned(*self.pick(U_VALUES, s)),
            "F" => Observation::Floating(*self.pick(F_VALUES, s)),
            "NaN" => Observation::Floating(f64::NAN),
            "PInf" => Observation::Floating(f64::INFINITY),
            "NInf" => Observation::Floating(f64::NEG_INFINITY),
            "Rep1" => Observation::Repeated { total: *self.pick(TOTALS, s), occurrences: 1 },
            "Rep4" => Observation::Repeated { total: *self.pick(TOTALS, s), occurrences: 4 },
            "RepBig" => Observation::Repeated { total: *self.pick(TOTALS, s), occurrences: 1 << 63 },
            "Rep0" => Observation::Repeated { total: *self.pick(ZERO_OCC_TOTALS, s), occurrences: 0 },
            "RepNaN" => Observation::Repeated { total: f64::NAN, occurrences: 2 },
            "RepInf" => Observation::Repeated { total: f64::INFINITY, occurrences: 2 },
            other => panic!("unknown observation token {other}"),
        }
    }
    pub fn timestamp(&self, sym: &str) -> SystemTime {
        match sym {
            // whole milliseconds are 1_700_000_000_123 + 1000 v: seconds, sub-millisecond part
            "t1" => SystemTime::UNIX_EPOCH + Duration::new(1_700_000_000 + self.v, 123_456_789),
            // less than one millisecond after the epoch
            _ => SystemTime::UNIX_EPOCH + Duration::new(0, 999_999),
        }
    }
}

fn obs_json(o: &Observation) -> SV {
    match o {
        Observation::Unsigned(v) => json!({"k": "U", "v": v.to_string()}),
        Observation::Floating(v) => json!({"k": "F", "v": format!("{v:?}")}),
        Observation::Repeated { total, occurrences } => {
            json!({"k": "R", "total": format!("{total:?}"), "occ": occurrences.to_string()})
        }
        _ => json!({"k": "?"}),
    }
}

// ------------------------------------------------------------------------------------------
// scripted entry
// ------------------------------------------------------------------------------------------

#[derive(Clone, Copy, Debug, PartialEq)]
pub enum Flag {
    None,
    Hires,
    NoMetric,
}

#[derive(Debug)]
pub enum Call {
    Ts(SystemTime),
    Split,
    Unroutable,
    EntryDims(EntryDimensions),
    Str { name: String, value: String },
    Met { name: String, value: MetVal },
    Err { name: String },
    Empty { name: String },
}

#[derive(Debug)]
pub struct MetVal {
    pub obs: Vec<Observation>,
    pub unit: Unit,
    pub dims: Vec<(String, String)>,
    pub flag: Flag,
}

impl Value for MetVal {
    fn write(&self, writer: impl ValueWriter) {
        let flags = match self.flag {
            Flag::None => MetricFlags::empty(),
            Flag::Hires => HighStorageResolutionCtor::construct(),
            Flag::NoMetric => NoMetricCtor::construct(),
        };
        writer.metric(
            self.obs.iter().copied(),
            self.unit,
            self.dims.iter().map(|(k, v)| (k.as_str(), v.as_str())),
            flags,
        )
    }
}

struct ErrVal;
impl Value for ErrVal {
    fn write(&self, writer: impl ValueWriter) {
        writer.error(ValidationError::invalid("scripted value error"))
    }
}

struct EmptyVal;
impl Value for EmptyVal {
    fn write(&self, _writer: impl ValueWriter) {}
}

/// An entry that issues exactly `calls`, in order.
#[derive(Debug)]
pub struct Script {
    pub calls: Vec<Call>,
    split: AllowSplitEntries,
    unroutable: AllowUnroutableEntries,
}

impl Entry for Script {
    fn write<'a>(&'a self, w: &mut impl EntryWriter<'a>) {
        for c in &self.calls {
            match c {
                Call::Ts(t) => w.timestamp(*t),
                Call::Split => w.config(&self.split),
                Call::Unroutable => w.config(&self.unroutable),
                Call::EntryDims(d) => w.config(d),
                Call::Str { name, value } => w.value(name.as_str(), value.as_str()),
                Call::Met { name, value } => w.value(name.as_str(), value),
                Call::Err { name } => w.value(name.as_str(), &ErrVal),
                Call::Empty { name } => w.value(name.as_str(), &EmptyVal),
            }
        }
    }
}

fn entry_dims(conc: &Conc, kind: &str) -> EntryDimensions {
    let sets: Vec<Vec<&str>> = match kind {
        "ed_d2" => vec![vec!["d2"]],
        "ed_two" => vec![vec![], vec!["d2"]],
        "ed_empty" => vec![],
        "ed_unit" => vec![vec![]],
        other => panic!("unknown entry dimension config {other}"),
    };
    let owned: Vec<Cow<'static, [Cow<'static, str>]>> = sets
        .into_iter()
        .map(|s| Cow::Owned(s.into_iter().map(|n| Cow::Owned(conc.name(n))).collect::<Vec<Cow<'static, str>>>()))
        .collect();
    EntryDimensions::new(Cow::Owned(owned))
}

impl Script {
    pub fn new(calls: Vec<Call>) -> Self {
        Script { calls, split: AllowSplitEntries::new(), unroutable: AllowUnroutableEntries::default() }
    }

    /// Build from the abstract calls of a TLC behaviour (`calls` array of EmfReplay), returning
    /// the script and a JSON description of the concrete values chosen.
    pub fn from_abstract(calls: &[SV], conc: &Conc) -> (Script, SV) {
        Self::from_abstract_prefilled(calls, conc, 0)
    }

    /// `prefill` > 0: directly behind the entry's `AllowSplitEntries` config the entry writes `prefill` filler metrics
    /// with fresh names under fresh per-metric dimension sets (one record each). Dimension sets are independent in
    /// EmfFormat.tla, so the model's verdict and records for the behaviour are unchanged and the fillers only shift the
    /// behaviour's own dimension sets to record numbers `prefill`, `prefill + 1`, ... (C08-m7: state per record number).
    pub fn from_abstract_prefilled(calls: &[SV], conc: &Conc, prefill: usize) -> (Script, SV) {
        let mut filled = false;
        let mut out = Vec::new();
        let mut desc = Vec::new();
        for (pos, c) in calls.iter().enumerate() {
            let op = c["op"].as_str().unwrap_or_default();
            let name = conc.name(c["name"].as_str().unwrap_or_default());
            let arg = c["arg"].as_str().unwrap_or_default();
            match op {
                "TS" => {
                    let t = conc.timestamp(arg);
                    let d = t.duration_since(SystemTime::UNIX_EPOCH).unwrap();
                    desc.push(json!({"ts": {"s": d.as_secs(), "n": d.subsec_nanos()}}));
                    out.push(Call::Ts(t));
                }
                "CFG" => {
                    desc.push(json!({}));
                    out.push(match arg {
                        "split" => Call::Split,
                        "unroutable" => Call::Unroutable,
                        k => Call::EntryDims(entry_dims(conc, k)),
                    });
                    if arg == "split" && !std::mem::replace(&mut filled, true) {
                        for i in 0..prefill {
                            out.push(Call::Met {
                                name: format!("zzfill{i}"),
                                value: MetVal {
                                    obs: vec![Observation::Unsigned(i as u64)],
                                    unit: Unit::None,
                                    dims: vec![("zzfilldim".to_string(), format!("zz{i}"))],
                                    flag: Flag::None,
                                },
                            });
                        }
                    }
                }
                "STR" => {
                    let value = conc.string_value(arg, pos);
                    desc.push(json!({"name": name, "sval": value}));
                    out.push(Call::Str { name, value });
                }
                "MET" => {
                    let obs: Vec<Observation> = c["obs"]
                        .as_array()
                        .map(|a| a.iter().enumerate().map(|(i, t)| conc.observation(t.as_str().unwrap(), pos * 5 + i)).collect())
                        .unwrap_or_default();
                    let (unit, unit_name) = conc.unit(c["unit"].as_str().unwrap_or("none"), pos);
                    let dims: Vec<(String, String)> = c["dims"]
                        .as_array()
                        .map(|a| {
                            a.iter()
                                .map(|p| (conc.name(p[0].as_str().unwrap()), conc.dim_value(p[1].as_str().unwrap())))
                                .collect()
                        })
                        .unwrap_or_default();
                    let flag = match c["flag"].as_str().unwrap_or("none") {
                        "hires" => Flag::Hires,
                        "nometric" => Flag::NoMetric,
                        _ => Flag::None,
                    };
                    desc.push(json!({"name": name, "obs": obs.iter().map(obs_json).collect::<Vec<_>>(),
                                     "unit": unit_name, "dims": dims}));
                    out.push(Call::Met { name, value: MetVal { obs, unit, dims, flag } });
                }
                "ERR" => {
                    desc.push(json!({"name": name}));
                    out.push(Call::Err { name });
                }
                "EMPTY" => {
                    desc.push(json!({"name": name}));
                    out.push(Call::Empty { name });
                }
                other => panic!("unknown call op {other}"),
            }
        }
        (Script::new(out), SV::Array(desc))
    }
}

// ------------------------------------------------------------------------------------------
// formatter construction
// ------------------------------------------------------------------------------------------

#[derive(Clone, Debug)]
pub struct CfgSpec {
    pub dd: Vec<Vec<String>>,
    pub ns: usize,
    pub ignore_dims: bool,
    pub mult: String,
    pub lg: bool,
    pub extra: bool,
}

impl CfgSpec {
    pub fn from_json(c: &SV) -> Self {
        CfgSpec {
            dd: c["dd"]
                .as_array()
                .unwrap()
                .iter()
                .map(|s| s.as_array().unwrap().iter().map(|n| n.as_str().unwrap().to_string()).collect())
                .collect(),
            ns: c["ns"].as_u64().unwrap() as usize,
            ignore_dims: c["ignoreDims"].as_bool().unwrap(),
            mult: c["mult"].as_str().unwrap().to_string(),
            lg: c["lg"].as_bool().unwrap(),
            extra: c["extra"].as_bool().unwrap(),
        }
    }
    /// only such configurations can be built by the plain constructors
    pub fn is_simple(&self) -> bool {
        self.ns == 1 && !self.ignore_dims && !self.lg && !self.extra
    }
}

/// the ways of choosing the validation mode
#[derive(Clone, Copy, Debug, PartialEq, Eq, Hash)]
pub enum Way {
    /// `Emf::all_validations(ns, dims)`
    AllValidations,
    /// `Emf::builder(ns, dims)…build()` (documented: validations on iff debug assertions)
    BuilderDefault,
    /// `Emf::builder(ns, dims).skip_all_validations(false)…build()`
    BuilderSkipFalse,
    /// `Emf::no_validations(ns, dims)`
    NoValidations,
    /// `Emf::builder(ns, dims).skip_all_validations(true)…build()`
    BuilderSkipTrue,
}

impl Way {
    pub const ALL: [Way; 5] =
        [Way::AllValidations, Way::BuilderDefault, Way::BuilderSkipFalse, Way::NoValidations, Way::BuilderSkipTrue];
    pub fn name(self) -> &'static str {
        match self {
            Way::AllValidations => "all_validations",
            Way::BuilderDefault => "builder",
            Way::BuilderSkipFalse => "skip_false",
            Way::NoValidations => "no_validations",
            Way::BuilderSkipTrue => "skip_true",
        }
    }
    pub fn from_name(s: &str) -> Option<Way> {
        Way::ALL.into_iter().find(|w| w.name() == s)
    }
}

/// `rng.random::<f64>()` is always 1 - 2^-53: `rate_to_n` rounds up unless 1/rate is an integer
#[derive(Clone, Copy, Default)]
pub struct OnesRng;
impl rand::RngCore for OnesRng {
    fn next_u32(&mut self) -> u32 {
        u32::MAX
    }
    fn next_u64(&mut self) -> u64 {
        u64::MAX
    }
    fn fill_bytes(&mut self, dst: &mut [u8]) {
        dst.fill(0xff)
    }
}

pub enum FormatterKind {
    Plain(Emf),
    /// `SampledEmf` used through `Format::format` (no multiplicity)
    Wrapped(SampledEmf<OnesRng>),
    /// `SampledEmf` used through `format_with_sample_rate`
    Sampled(SampledEmf<OnesRng>, f32),
}

/// A real formatter; keep it to format several entries with one instance.
pub struct Formatter {
    pub kind: FormatterKind,
}

pub const EXTRA_NS: &str = "Extra\"NS";
pub const EXTRA_DIM: &str = "X\\dim";
pub const EXTRA_METRIC: &str = "a";

impl Formatter {
    /// `None` when the configuration cannot be expressed through that way
    pub fn build(cfg: &CfgSpec, way: Way, conc: &Conc) -> Option<Formatter> {
        let dd: Vec<Vec<String>> = cfg.dd.iter().map(|s| s.iter().map(|n| conc.name(n)).collect()).collect();
        let ns1 = conc.namespace(1);
        let emf = match way {
            Way::AllValidations | Way::NoValidations => {
                if !cfg.is_simple() {
                    return None;
                }
                if way == Way::AllValidations { Emf::all_validations(ns1, dd) } else { Emf::no_validations(ns1, dd) }
            }
            _ => {
                let mut b = Emf::builder(ns1, dd);
                // the validation switch is placed at different positions of the chain
                if way == Way::BuilderSkipFalse && conc.v % 2 == 0 {
                    b = b.skip_all_validations(false);
                }
                if way == Way::BuilderSkipTrue && conc.v % 2 == 0 {
                    b = b.skip_all_validations(true);
                }
                for i in 2..=cfg.ns {
                    b = b.add_namespace(conc.namespace(i));
                }
                if cfg.ignore_dims {
                    b = b.allow_ignored_dimensions(true);
                }
                if cfg.lg {
                    b = b.log_group_name(conc.log_group());
                }
                if cfg.extra {
                    b = b.directive(MetricDirective {
                        dimensions: vec![vec![EXTRA_DIM]],
                        metrics: vec![MetricDefinition { name: EXTRA_METRIC, unit: Unit::Count, storage_resolution: None }],
                        namespace: EXTRA_NS,
                    });
                }
                if way == Way::BuilderSkipFalse && conc.v % 2 == 1 {
                    b = b.skip_all_validations(false);
                }
                if way == Way::BuilderSkipTrue && conc.v % 2 == 1 {
                    b = b.skip_all_validations(true);
                }
                b.build()
            }
        };
        let kind = match cfg.mult.as_str() {
            "none" => {
                if conc.v % 3 == 2 {
                    FormatterKind::Wrapped(emf.with_sampling_and_rng(OnesRng))
                } else {
                    FormatterKind::Plain(emf)
                }
            }
            "m1" => FormatterKind::Sampled(emf.with_sampling_and_rng(OnesRng), 1.0),
            // f32(1/3) is slightly above 1/3: floor(1/rate) = 2, rounded up by OnesRng
            "m3" => FormatterKind::Sampled(emf.with_sampling_and_rng(OnesRng), 1.0 / 3.0),
            // below 1/i64::MAX: multiplicity u64::MAX
            "sat" => FormatterKind::Sampled(emf.with_sampling_and_rng(OnesRng), 1e-30),
            other => panic!("unknown multiplicity {other}"),
        };
        Some(Formatter { kind })
    }

    pub fn format(&mut self, entry: &impl Entry, out: &mut impl std::io::Write) -> Result<(), IoStreamError> {
        match &mut self.kind {
            FormatterKind::Plain(e) => e.format(entry, out),
            FormatterKind::Wrapped(e) => e.format(entry, out),
            FormatterKind::Sampled(e, rate) => e.format_with_sample_rate(entry, out, *rate),
        }
    }
}

#[derive(Clone, Debug, PartialEq)]
pub struct RunOut {
    /// "ok" | "validation" | "io" | "panic"
    pub status: &'static str,
    pub err: Option<String>,
    pub bytes: Vec<u8>,
}

/// Format `entry` into a fresh `Vec<u8>`; a panic of the code under test is data.
pub fn run_once(f: &mut Formatter, entry: &impl Entry) -> RunOut {
    let mut bytes = Vec::new();
    let r = crate::util::catch(|| f.format(entry, &mut bytes));
    match r {
        Ok(Ok(())) => RunOut { status: "ok", err: None, bytes },
        Ok(Err(IoStreamError::Validation(e))) => RunOut { status: "validation", err: Some(e.to_string()), bytes },
        Ok(Err(IoStreamError::Io(e))) => RunOut { status: "io", err: Some(e.to_string()), bytes },
        Err(p) => RunOut { status: "panic", err: Some(p), bytes },
    }
}

// ------------------------------------------------------------------------------------------
// projection of the output
// ------------------------------------------------------------------------------------------

fn is_uint(s: &str) -> bool {
    !s.is_empty() && s.bytes().all(|b| b.is_ascii_digit()) && (s == "0" || !s.starts_with('0'))
}

fn str_array(j: &J) -> Option<Vec<String>> {
    j.as_arr()?.iter().map(|x| x.as_str().map(|s| s.to_string())).collect()
}

/// `_aws` skeleton: integer Timestamp, CloudWatchMetrics array of objects with Namespace (string),
/// Dimensions (array of arrays of strings), Metrics (array of objects with Name string, optional
/// Unit string, optional StorageResolution number); optional LogGroupName string.
fn skeleton(aws: &J) -> Result<SV, String> {
    let obj = aws.as_obj().ok_or("`_aws` is not an object")?;
    let mut ts = None;
    let mut lg = SV::Null;
    let mut directives = None;
    for (k, v) in obj {
        match k.as_str() {
            "Timestamp" => {
                let t = v.num_text().ok_or("Timestamp is not a number")?;
                if !is_uint(t) {
                    return Err(format!("Timestamp `{t}` is not an integer"));
                }
                if ts.replace(t.to_string()).is_some() {
                    return Err("two Timestamp members".into());
                }
            }
            "LogGroupName" => lg = SV::String(v.as_str().ok_or("LogGroupName is not a string")?.to_string()),
            "CloudWatchMetrics" => {
                let arr = v.as_arr().ok_or("CloudWatchMetrics is not an array")?;
                let mut ds = Vec::new();
                for d in arr {
                    let dobj = d.as_obj().ok_or("directive is not an object")?;
                    let _ = dobj; // members other than Namespace / Dimensions / Metrics are not judged
                    let ns = d.get("Namespace").and_then(|x| x.as_str()).ok_or("directive without Namespace string")?;
                    let dims: Vec<Vec<String>> = d
                        .get("Dimensions")
                        .and_then(|x| x.as_arr())
                        .ok_or("directive without Dimensions array")?
                        .iter()
                        .map(|s| str_array(s).ok_or("dimension set is not an array of strings"))
                        .collect::<Result<_, _>>()?;
                    let mut metrics = Vec::new();
                    for m in d.get("Metrics").and_then(|x| x.as_arr()).ok_or("directive without Metrics array")? {
                        let mobj = m.as_obj().ok_or("metric definition is not an object")?;
                        let mut name = None;
                        let mut unit = SV::Null;
                        let mut res = SV::Null;
                        for (mk, mv) in mobj {
                            match mk.as_str() {
                                "Name" => name = Some(mv.as_str().ok_or("metric Name is not a string")?.to_string()),
                                "Unit" => unit = SV::String(mv.as_str().ok_or("metric Unit is not a string")?.to_string()),
                                "StorageResolution" => {
                                    res = SV::String(mv.num_text().ok_or("StorageResolution is not a number")?.to_string())
                                }
                                _ => {} // not judged
                            }
                        }
                        metrics.push(json!({"name": name.ok_or("metric definition without Name")?, "unit": unit, "res": res}));
                    }
                    ds.push(json!({"ns": ns, "dims": dims, "metrics": metrics}));
                }
                if directives.replace(ds).is_some() {
                    return Err("two CloudWatchMetrics members".into());
                }
            }
            _ => {} // other `_aws` members are not judged
        }
    }
    Ok(json!({
        "ts": ts.ok_or("no Timestamp")?,
        "lg": lg,
        "directives": directives.ok_or("no CloudWatchMetrics")?,
    }))
}

fn member_value(v: &J) -> SV {
    match v {
        J::Str(s) => json!({"s": s}),
        J::Num(t) => json!({"n": t}),
        J::Obj(m) => {
            let nums = |x: &J| -> Option<Vec<String>> {
                x.as_arr()?.iter().map(|n| n.num_text().map(|s| s.to_string())).collect()
            };
            if m.len() == 2 && m[0].0 == "Values" && m[1].0 == "Counts" {
                if let (Some(vs), Some(cs)) = (nums(&m[0].1), nums(&m[1].1)) {
                    return json!({"values": vs, "counts": cs});
                }
            }
            json!({"other": v.to_serde()})
        }
        other => json!({"other": other.to_serde()}),
    }
}

/// Strict judgement of the bytes one `format` call produced.
/// `{"framing": null | msg, "lines": [ {"json_err": msg, "pos": n} |
///    {"skeleton_err": null | msg, "aws": {...}, "members": [{"name", "v"}], "dups": [paths]} ]}`
pub fn project(bytes: &[u8]) -> SV {
    let lines = match json::split_lines(bytes) {
        Ok(l) => l,
        Err(e) => return json!({"framing": e, "lines": []}),
    };
    let mut out = Vec::new();
    for l in lines {
        match json::parse(l) {
            Err(e) => out.push(json!({"json_err": e.msg, "pos": e.pos})),
            Ok(p) => {
                let Some(obj) = p.value.as_obj() else {
                    out.push(json!({"json_err": "line is not a JSON object", "pos": 0}));
                    continue;
                };
                let mut aws = None;
                let mut members = Vec::new();
                for (k, v) in obj {
                    if k == "_aws" && aws.is_none() {
                        aws = Some(v);
                    } else {
                        members.push(json!({"name": k, "v": member_value(v)}));
                    }
                }
                let (skel_err, aws_v) = match aws {
                    None => (SV::String("no `_aws` member".into()), SV::Null),
                    Some(a) => match skeleton(a) {
                        Ok(v) => (SV::Null, v),
                        Err(e) => (SV::String(e), SV::Null),
                    },
                };
                out.push(json!({"skeleton_err": skel_err, "aws": aws_v, "members": members, "dups": p.duplicates}));
            }
        }
    }
    json!({"framing": SV::Null, "lines": out})
}
