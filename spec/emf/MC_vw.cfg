\* C16 writer model: <= 3 buffers of <= 3 bytes, <= 2 interruptions, every writer behaviour
CONSTANTS
  MaxSlices = 3
  MaxLen = 3
  MaxIntr = 2
  Bug = "none"
SPECIFICATION Spec
INVARIANT VInv
PROPERTY Terminates
CHECK_DEADLOCK FALSE
