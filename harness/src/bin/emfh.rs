//! C14 driver: formatting one entry never depends on the entries formatted before it.
//!
//!   emfh replay --behaviours b.ndjson --out results.ndjson [--seed n]
//!
//! A behaviour (printed by TLC from spec/emf/EmfHistoryReplay.tla) is
//! `{"id":n,"cfg":"v2d","kinds":["hist","dupField",...],"faults":["none","mid",...],"pred":[...]}`:
//! a sequence of calls (entry kind, writer fault); a fault (first byte | mid record | inside the
//! last line) is an attribute of the call and is placed with the entry's complete output.
//! ONE long-lived formatter of configuration `cfg` formats the whole sequence; after every call
//! its bytes and its Result are compared with a FRESHLY BUILT formatter of the same
//! configuration that is given the same entry, the same writer behaviour and the same RNG draws.
//! Outputs are compared as multisets of lines (split records come out in hash order), every line
//! parsed with the strict parser and its members sorted; a line that does not parse is compared
//! as raw text. The `Timestamp` of entries that carry none (current time) is masked.

use serde_json::{Value, json};
use std::collections::HashMap;
use std::io::Write;
use std::rc::Rc;
use vharness::emfkinds::{Big, CallResult, Formatter, KEntry, canon_lines, clip, fault_limit};
use vharness::util;

fn pred_class(c: &str) -> &'static str {
    match c {
        "ok" => "accept",
        "val" => "reject",
        "io" => "io",
        _ => "panic",
    }
}

struct FreshCache {
    /// (cfg, salt, fault) -> result of a fresh formatter, only for the multi-megabyte kind
    huge: HashMap<(String, u64, String), Rc<CallResult>>,
}

fn describe(r: &CallResult, lines: &[String]) -> Value {
    json!({"result": r.class, "message": r.message, "bytes": r.bytes.len(),
           "lines": lines.iter().map(|l| clip(l)).collect::<Vec<_>>()})
}

fn first_diff(a: &[String], b: &[String]) -> Value {
    for (i, (x, y)) in a.iter().zip(b.iter()).enumerate() {
        if x != y {
            let off = x.bytes().zip(y.bytes()).position(|(p, q)| p != q).unwrap_or(x.len().min(y.len()));
            let from = off.saturating_sub(60);
            let cut = |t: &str| {
                let mut s0 = from.min(t.len());
                while !t.is_char_boundary(s0) {
                    s0 -= 1;
                }
                let mut e0 = (off + 80).min(t.len());
                while !t.is_char_boundary(e0) {
                    e0 += 1;
                }
                t[s0..e0].to_string()
            };
            return json!({"line": i, "offset": off, "long_lived": cut(x), "fresh": cut(y)});
        }
    }
    json!({"line_count": [a.len(), b.len()]})
}

/// Are the bytes a faulted call delivered explained by the entry's records (`full`, the output
/// of a writer that never fails)? Every complete line must be one of them (each used once), the
/// unterminated tail a prefix of an unused one.
fn explained(received: &[u8], full: &[u8]) -> Result<(), String> {
    let mut pool: Vec<&[u8]> = full.split_inclusive(|c| *c == b'\n').collect();
    for line in received.split_inclusive(|c| *c == b'\n') {
        if line.ends_with(b"\n") {
            match pool.iter().position(|l| *l == line) {
                Some(p) => {
                    pool.swap_remove(p);
                }
                None => return Err(format!("<line that is no record of the entry> {}", clip(&String::from_utf8_lossy(line)))),
            }
        } else if !pool.iter().any(|l| l.starts_with(line)) {
            return Err(format!("<partial line that is no prefix of a record of the entry> {}", clip(&String::from_utf8_lossy(line))));
        }
    }
    Ok(())
}

fn cmd_replay(a: &HashMap<String, String>) {
    let behaviours = util::read_ndjson(util::arg_str(a, "behaviours", ""));
    let seed = util::arg_u64(a, "seed", 1);
    let mut out = std::io::BufWriter::new(std::fs::File::create(util::arg_str(a, "out", "")).unwrap());
    let big = Big::new();
    let mut cache = FreshCache { huge: HashMap::new() };
    let mut slot: Option<KEntry> = None;
    let mut determinism_checked: std::collections::HashSet<(String, String)> = Default::default();
    for b in behaviours {
        let cfg = b["cfg"].as_str().unwrap().to_string();
        let kinds: Vec<String> = b["kinds"].as_array().unwrap().iter().map(|k| k.as_str().unwrap().to_string()).collect();
        let faults: Vec<String> = b["faults"].as_array().map(|p| p.iter().map(|k| k.as_str().unwrap_or("none").to_string()).collect()).unwrap_or_default();
        let pred: Vec<String> = b["pred"].as_array().map(|p| p.iter().map(|k| k.as_str().unwrap_or("").to_string()).collect()).unwrap_or_default();
        let rng_seed = seed ^ b["id"].as_u64().unwrap_or(0).wrapping_mul(0x9E37_79B9);
        let mut long_lived = Formatter::build(&cfg, rng_seed, 0);
        let mut mismatches: Vec<Value> = Vec::new();
        let mut drift: Vec<Value> = Vec::new();
        let mut classes: Vec<&'static str> = Vec::new();
        let mut nlines: Vec<usize> = Vec::new();
        let mut nondeterministic: Vec<Value> = Vec::new();
        // last EntryDimensions config handed to the long-lived formatter: (address, value)
        let mut prev_edims: Option<(usize, &'static str)> = None;
        let (mut edims_pairs, mut edims_pairs_same_addr) = (0u64, 0u64);
        for (i, kind) in kinds.iter().enumerate() {
            let salt = (i as u64) % 5 + if i >= 5 { 10 } else { 0 };
            let fault = faults.get(i).map(|x| x.as_str()).unwrap_or("none");
            // every entry of a history is built into the SAME storage, after its predecessor was
            // dropped: configs that live inside the entry (EntryDimensions) of consecutive entries
            // then sit at the same address although their values differ
            drop(slot.take());
            slot = Some(KEntry::new(kind, salt, &big));
            let e: &KEntry = slot.as_ref().unwrap();
            if let Some((addr, val)) = e.entry_dimensions_config() {
                if let Some((paddr, pval)) = prev_edims {
                    if pval != val {
                        edims_pairs += 1;
                        if paddr == addr {
                            edims_pairs_same_addr += 1;
                        }
                    }
                }
                prev_edims = Some((addr, val));
            }
            let pos = long_lived.rng_pos();
            // what a freshly built formatter writes into a writer that never fails: the reference
            // when the call has no fault, and what places the fault otherwise
            let full: Rc<CallResult> = if kind == "huge" {
                cache
                    .huge
                    .entry((cfg.clone(), salt, "none".to_string()))
                    .or_insert_with(|| Rc::new(Formatter::build(&cfg, rng_seed, pos).call(&e)))
                    .clone()
            } else {
                Rc::new(Formatter::build(&cfg, rng_seed, pos).call(&e))
            };
            let limit = fault_limit(fault, &full.bytes);
            let got = long_lived.call_limited(&e, limit);
            // the reference: a freshly built formatter, same entry, same writer behaviour, same draws
            let want: Rc<CallResult> = if fault == "none" {
                full.clone()
            } else if kind == "huge" {
                cache
                    .huge
                    .entry((cfg.clone(), salt, fault.to_string()))
                    .or_insert_with(|| Rc::new(Formatter::build(&cfg, rng_seed, pos).call_limited(&e, limit)))
                    .clone()
            } else {
                Rc::new(Formatter::build(&cfg, rng_seed, pos).call_limited(&e, limit))
            };
            let full_lines = full.bytes.iter().filter(|c| **c == b'\n').count();
            // identical bytes are identical records; otherwise compare as canonical multisets.
            // A faulted call of a multi-line entry may have written its lines in another order
            // (hash order): then every byte it delivered must belong to the entry's records.
            // The partial output of an entry without a timestamp cannot be masked: class and size only.
            let same_bytes = got.bytes == want.bytes && !e.no_timestamp();
            let (got_lines, want_lines) = if same_bytes {
                (Vec::new(), Vec::new())
            } else if fault != "none" && (full_lines > 1 || e.no_timestamp()) {
                let mut g = vec![format!("<{} bytes>", got.bytes.len())];
                let w = vec![format!("<{} bytes>", want.bytes.len())];
                if !e.no_timestamp() {
                    if let Err(why) = explained(&got.bytes, &full.bytes) {
                        g.push(why);
                    }
                }
                (g, w)
            } else {
                (canon_lines(&got.bytes, e.no_timestamp()), canon_lines(&want.bytes, e.no_timestamp()))
            };
            if determinism_checked.insert((cfg.clone(), kind.clone())) {
                // the reference itself must be a function of (configuration, entry, draws)
                let w2 = Formatter::build(&cfg, rng_seed, pos).call(&e);
                if w2.class != full.class
                    || canon_lines(&w2.bytes, e.no_timestamp()) != canon_lines(&full.bytes, e.no_timestamp())
                {
                    nondeterministic.push(json!({"pos": i, "kind": kind}));
                }
            }
            classes.push(pred_class(want.class));
            nlines.push(want.bytes.iter().filter(|c| **c == b'\n').count());
            if got.class != want.class || got_lines != want_lines {
                let what = if got.class != want.class {
                    format!("decision differs: long-lived formatter returned {} ({}), a fresh formatter {} ({})",
                            got.class, got.message, want.class, want.message)
                } else {
                    "records differ".to_string()
                };
                mismatches.push(json!({"pos": i, "kind": kind, "fault": fault, "what": what,
                                       "long_lived": describe(&got, &got_lines), "fresh": describe(&want, &want_lines),
                                       "first_difference": first_diff(&got_lines, &want_lines)}));
            } else if got.message != want.message {
                drift.push(json!({"pos": i, "kind": kind, "what": "error text differs", "long_lived": got.message, "fresh": want.message}));
            }
            if let Some(p) = pred.get(i) {
                if p != pred_class(want.class) {
                    drift.push(json!({"pos": i, "kind": kind, "what": "fresh formatter decides differently from the model",
                                      "model": p, "fresh": want.class, "message": want.message}));
                }
            }
        }
        let r = json!({"id": b["id"], "cfg": cfg, "n": kinds.len(), "mismatches": mismatches, "drift": drift,
                       "classes": classes, "lines": nlines, "nondeterministic": nondeterministic,
                       "edims_pairs": edims_pairs, "edims_pairs_same_addr": edims_pairs_same_addr});
        serde_json::to_writer(&mut out, &r).unwrap();
        out.write_all(b"\n").unwrap();
    }
    out.flush().unwrap();
}

/// print what every kind looks like under a configuration (debugging aid)
fn cmd_show(a: &HashMap<String, String>) {
    let cfg = util::arg_str(a, "cfg", "v2d");
    let big = Big::new();
    for kind in vharness::emfkinds::KIND_NAMES {
        let e = KEntry::new(kind, 1, &big);
        let r = Formatter::build(cfg, 1, 0).call(&e);
        println!("== {kind}: {} {} ({} bytes)", r.class, r.message, r.bytes.len());
        for l in canon_lines(&r.bytes, false) {
            println!("   {}", clip(&l));
        }
    }
}

fn main() {
    let (cmd, a) = util::args();
    match cmd.as_str() {
        "replay" => cmd_replay(&a),
        "show" => cmd_show(&a),
        _ => {
            eprintln!("usage: emfh replay|show ...");
            std::process::exit(2);
        }
    }
}
