-------------------------- MODULE StopwatchReplay --------------------------
(***************************************************************************)
(* Behaviour generator for the stopwatch machine of Stopwatch.tla: every    *)
(* operation sequence of length Depth (exhaustive BFS over the history      *)
(* variable, CONSTRAINT Bound) - or random walks with -simulate - printed   *)
(* as one JSON line and stepped through the real Stopwatch by `tm sw`.      *)
(* Each step carries what closing the stopwatch must report afterwards      *)
(* (obs = Kept of the property layer, -1 = None, -2 = the stopwatch is      *)
(* mutably borrowed by a live TimerGuard and cannot be closed) and, for     *)
(* Stop, the duration the call returns.                                     *)
(* Two consecutive Advance steps are never generated (they equal one).      *)
(* With more than one ambient / thread in the configuration the history      *)
(* also switches the thread-local override and the thread under which the    *)
(* following operations and observations run, and advances source B's clock: *)
(* the expected values never depend on that (the stopwatch captured A).       *)
(***************************************************************************)
EXTENDS Stopwatch, Json

CONSTANTS Depth
VARIABLE hist

RInit == Init /\ hist = <<>>

Obs == IF Observable' THEN Kept' ELSE -2
\* a step is the tuple <<op, guard slot, advance, obs, ret>> (JSON array: compact output)
H(op, g, d, ret) == hist' = Append(hist, <<op, g, d, Obs, ret>>)
LastOp == IF hist = <<>> THEN "" ELSE hist[Len(hist)][1]

\* environment steps: <<"Amb", ambient (0 none, 1 A, 2 B), thread (0 creating thread, 1 another thread)>>:
\* all following operations - and the close that observes them - run under that thread-local override
AmbCode(a) == CASE a = "none" -> 0 [] a = "A" -> 1 [] a = "B" -> 2
ThrCode(t) == IF t = "main" THEN 0 ELSE 1

RNext ==
    \/ \E d \in Ds : LastOp # "Advance" /\ Advance(d) /\ H("Advance", 0, d, None)
    \/ \E d \in Ds : LastOp # "AdvanceB" /\ AdvanceB(d) /\ H("AdvanceB", 0, d, None)
    \/ \E a \in Ambients, t \in Threads :
         LastOp # "Amb" /\ SetAmbient(a, t) /\ H("Amb", AmbCode(a), ThrCode(t), None)
    \/ Start /\ H("Start", NextSlot, 0, None)
    \/ StartOwned /\ H("StartOwned", NextSlot, 0, None)
    \/ Clear /\ H("Clear", 0, 0, None)
    \/ \E s \in Slots :
         \/ Stop(s) /\ H("Stop", s, 0, StopRet(s))
         \/ DropGuard(s) /\ H("Drop", s, 0, None)
         \/ DropUnwind(s) /\ H("DropUnwind", s, 0, None)
         \/ Overwrite(s) /\ H("Overwrite", s, 0, None)
         \/ Discard(s) /\ H("Discard", s, 0, None)

RSpec == RInit /\ [][RNext]_<<vars, hist>>
Bound == Len(hist) <= Depth
Emit == (Len(hist) = Depth) => PrintT(<<"REPLAY", ToJson(hist)>>)
=============================================================================
