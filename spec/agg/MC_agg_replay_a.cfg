\* every history of length 4 with up to 2 live guards
CONSTANTS
  NK = 2
  Vals = {1, 2}
  MaxIn = 4
  MaxGuards = 2
  MaxFlush = 4
  Depth = 4
SPECIFICATION RSpecA
INVARIANT Emit
CONSTRAINT Bound
CHECK_DEADLOCK FALSE
