-------------------------- MODULE StopwatchReplay --------------------------
(***************************************************************************)
(* Behaviour generator for the stopwatch machine of Stopwatch.tla: every    *)
(* operation sequence of length Depth (exhaustive BFS over the history      *)
(* variable, CONSTRAINT Bound) - or random walks with -simulate - printed   *)
(* as one JSON line and stepped through the real Stopwatch by `tm sw`.      *)
(* Each step carries what closing the stopwatch must report afterwards      *)
(* (obs = Kept of the property layer, -1 = None, -2 = the stopwatch is      *)
(* mutably borrowed by a live TimerGuard and cannot be closed) and, for     *)
(* Stop, the duration the call returns.                                     *)
(* Two consecutive Advance steps are never generated (they equal one).      *)
(***************************************************************************)
EXTENDS Stopwatch, Json

CONSTANTS Depth
VARIABLE hist

RInit == Init /\ hist = <<>>

Obs == IF Observable' THEN Kept' ELSE -2
\* a step is the tuple <<op, guard slot, advance, obs, ret>> (JSON array: compact output)
H(op, g, d, ret) == hist' = Append(hist, <<op, g, d, Obs, ret>>)
LastOp == IF hist = <<>> THEN "" ELSE hist[Len(hist)][1]

RNext ==
    \/ \E d \in Ds : LastOp # "Advance" /\ Advance(d) /\ H("Advance", 0, d, None)
    \/ Start /\ H("Start", NextSlot, 0, None)
    \/ StartOwned /\ H("StartOwned", NextSlot, 0, None)
    \/ Clear /\ H("Clear", 0, 0, None)
    \/ \E s \in Slots :
         \/ Stop(s) /\ H("Stop", s, 0, StopRet(s))
         \/ DropGuard(s) /\ H("Drop", s, 0, None)
         \/ Overwrite(s) /\ H("Overwrite", s, 0, None)
         \/ Discard(s) /\ H("Discard", s, 0, None)

RSpec == RInit /\ [][RNext]_<<vars, hist>>
Bound == Len(hist) <= Depth
Emit == (Len(hist) = Depth) => PrintT(<<"REPLAY", ToJson(hist)>>)
=============================================================================
