------------------------- MODULE QueueCountTrace -------------------------
(***************************************************************************)
(* Counting view of a recorded execution (C09, overflow counter), for runs *)
(* with many concurrently overflowing producers, where enumerating the      *)
(* linearizations of QueueTrace is hopeless and unnecessary: once the join  *)
(* handle has been dropped (and nothing was appended after the drop began), *)
(* every appended entry was either handed to the stream or discarded, so    *)
(*      discarded = appended - handed over                                  *)
(* and the overflow counter reported to the metrics recorder must equal it. *)
(* Also: no entry is handed over twice, and only appended entries are.      *)
(***************************************************************************)
EXTENDS Integers, Sequences, FiniteSets, TLC, Json, IOUtils

Rec == ndJsonDeserialize(IOEnv.TRACE)
N == Len(Rec)

VARIABLES l, appended, handed, dropEnded, lateAppend, closed,
          ivals, nmany   \* AppMany{a,b}: ids a..b appended by one thread (pairwise disjoint id ranges), and their number
cvars == <<l, appended, handed, dropEnded, lateAppend, closed, ivals, nmany>>

Ev(name) == l <= N /\ Rec[l].ev = name
Adv == l' = l + 1

CInit == l = 1 /\ appended = {} /\ handed = {} /\ dropEnded = FALSE /\ lateAppend = FALSE
         /\ closed = FALSE /\ ivals = {} /\ nmany = 0 /\ TLCSet(1, 1) /\ TLCSet(2, "nothing consumed")

CReset == Ev("Reset") /\ Adv /\ appended' = {} /\ handed' = {} /\ dropEnded' = FALSE
          /\ lateAppend' = FALSE /\ closed' = FALSE /\ ivals' = {} /\ nmany' = 0
CAppEnd == /\ Ev("AppEnd") /\ Adv
           /\ Rec[l].e \notin appended
           /\ appended' = appended \cup {Rec[l].e}
           /\ lateAppend' = (lateAppend \/ dropEnded)
           /\ UNCHANGED <<handed, dropEnded, closed, ivals, nmany>>
\* handed over at most once; (an AppEnd may be logged after the hand-off of its entry, so
\* membership in `appended` is checked at the end, in COverflows)
CNext == /\ Ev("Next") /\ Adv /\ ~closed
         /\ Rec[l].e \notin handed
         /\ handed' = handed \cup {Rec[l].e}
         /\ UNCHANGED <<appended, dropEnded, lateAppend, closed, ivals, nmany>>
CClose == Ev("Close") /\ Adv /\ closed' = TRUE /\ UNCHANGED <<appended, handed, dropEnded, lateAppend, ivals, nmany>>
CDropEnd == Ev("DropEnd") /\ Adv /\ closed /\ dropEnded' = TRUE
            /\ UNCHANGED <<appended, handed, lateAppend, closed, ivals, nmany>>
CAppMany == /\ Ev("AppMany") /\ Adv
            /\ Rec[l].a <= Rec[l].b
            /\ \A iv \in ivals : Rec[l].b < iv[1] \/ iv[2] < Rec[l].a
            /\ ivals' = ivals \cup {<<Rec[l].a, Rec[l].b>>}
            /\ nmany' = nmany + (Rec[l].b - Rec[l].a + 1)
            /\ lateAppend' = (lateAppend \/ dropEnded)
            /\ UNCHANGED <<appended, handed, dropEnded, closed>>
WasAppended(e) == e \in appended \/ \E iv \in ivals : iv[1] <= e /\ e <= iv[2]
COverflows == /\ Ev("Overflows") /\ Adv
              /\ dropEnded /\ ~lateAppend
              /\ \A e \in handed : WasAppended(e)
              /\ \A e \in appended : \A iv \in ivals : e < iv[1] \/ iv[2] < e
              /\ Rec[l].n = Cardinality(appended) + nmany - Cardinality(handed)
              /\ UNCHANGED <<appended, handed, dropEnded, lateAppend, closed, ivals, nmany>>
Skip == /\ l <= N
        /\ Rec[l].ev \in {"AppStart", "Report", "Flush", "FlushReq", "FlushDone", "DropStart",
                          "SinkDrop", "Quiesce", "Forget", "SinkClone", "SelfMetrics", "SubInstalled", "BurstBegin", "BurstEnd"}
        /\ Adv /\ UNCHANGED <<appended, handed, dropEnded, lateAppend, closed, ivals, nmany>>

CNext_ == CReset \/ CAppEnd \/ CAppMany \/ CNext \/ CClose \/ CDropEnd \/ COverflows \/ Skip
CSpec == CInit /\ [][CNext_]_cvars

Track == /\ IF l > TLCGet(1) THEN TLCSet(1, l) /\ TLCSet(2, <<Cardinality(appended), Cardinality(handed), dropEnded, lateAppend, closed>>) ELSE TRUE
         /\ IF l = N + 1 THEN TLCSet("exit", TRUE) ELSE TRUE
Accepted ==
    IF TLCGet(1) = N + 1 THEN PrintT(<<"ACCEPTED", N>>)
    ELSE /\ PrintT(<<"REJECTED", TLCGet(1), ToJson(Rec[TLCGet(1)]), TLCGet(2)>>)
         /\ FALSE
=============================================================================
