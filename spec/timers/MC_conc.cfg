CONSTANTS
  Guards = {1, 2, 3, 4, 5}
  Mode = "atomic"
SPECIFICATION Spec
INVARIANT ConcInv
CHECK_DEADLOCK FALSE
