\* every history of length 5 with one guard
CONSTANTS
  NK = 2
  Vals = {1, 2}
  MaxIn = 5
  MaxGuards = 1
  MaxFlush = 5
  Depth = 5
SPECIFICATION RSpecA
INVARIANT Emit
CONSTRAINT Bound
CHECK_DEADLOCK FALSE
