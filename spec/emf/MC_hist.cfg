\* C14 model: all sequences of kinds (reachable formatter states), every configuration class
CONSTANTS
  Bug = "none"
  ConfigNames = {"v1", "n1", "v2d", "n2d", "v3dd", "v1i", "s2d", "sn1", "wf", "ws", "wg"}
SPECIFICATION Spec
INVARIANTS Stateless NoResidue PrefixKept
CHECK_DEADLOCK FALSE
