"""C15 (entry and value wrappers are transparent apart from their documented additions) and
C19 (declaring or converting a unit never changes the physical quantity reported).

spec/value/ValuePipeline.tla states what a format sees behind every wrapper; TLC
  * decides the unit algebra for every ordered triple of the 26 units (VPUnitPairs),
  * checks for every stack of value wrappers (VPValueStacks) and every composition of entry
    wrappers (VPEntryStacks) up to a depth that the layer-by-layer result is the plain value /
    entry plus exactly the documented additions,
  * prints every stack / composition / pair with the expected final call sequence.
harness/src/bin/val.rs builds the same stacks from the REAL wrapper types and records what reaches a
recording ValueWriter / EntryWriter; this module compares (R direction, TLC is the oracle).

A discrepancy is attributed to the property whose statement it contradicts:
  C15  item order / names / timestamp / config / kind / observations of values no unit layer touched /
       dimensions (order) / flags / sample groups / more than one writer call
  C19  emitted unit name, emitted number * scale(emitted unit) != original * scale(original unit)
       (4 ulp, exact rational arithmetic on TLC's exponent pair), a number where a validation error is
       due, occurrences of a Repeated changed by a conversion
Anything else (Unsigned handed on as Floating by a conversion, wording of an error) is MODEL-DRIFT.
"""
import json, os, math, collections
from fractions import Fraction
import vlib
from vlib import log

SPECD = os.path.join(vlib.SPEC, "value")
MAXV = 12            # violation files per category

# ---------------------------------------------------------------------------------------------
# comparison of one call
# ---------------------------------------------------------------------------------------------
class Diff:
    """discrepancies of one behaviour, by property"""
    def __init__(self):
        self.v = []      # (prop, category, text)
        self.drift = []

    def add(self, prop, cat, text):
        self.v.append((prop, cat, text))


def mag_value(m):
    if m["t"] == "D":
        return Fraction(m["s"]) + Fraction(m["n"], 10 ** 9)
    v = m["v"]
    return Fraction(v)


def scaled(m, e2, e10):
    x = mag_value(m)
    x *= Fraction(2) ** e2
    x *= Fraction(10) ** e10
    return x


def num(v):
    """observed JSON number -> Fraction, None if not finite"""
    if isinstance(v, str):
        return None
    return Fraction(v)


def close_enough(got, exp, ulps=4):
    if got is None:
        return False
    if exp == 0:
        return got == 0
    ef = float(exp)
    if math.isinf(ef):
        return False
    return abs(got - exp) <= ulps * Fraction(math.ulp(ef))


def dims_of(ids):
    return [[d + "_k", d + "_v"] for d in ids]


def cmp_call(d, where, exp, calls, mags, unames, unit_touched, plain=None):
    """exp: TLC's call; calls: list of recorded writer calls; mags: echoed magnitudes per slot.
    unit_touched: a unit layer (or the attribute / a static WithUnit) acts on this value.
    plain: what the same value wrote without any wrapper (same magnitudes), if known."""
    if len(calls) > 1:
        d.add("C15", "calls", f"{where}: the value invoked the ValueWriter {len(calls)} times: {json.dumps(calls)[:300]}")
        return
    kind = exp["kind"]
    if kind == "nothing":
        if calls:
            d.add("C15", "kind", f"{where}: expected no writer call, got {json.dumps(calls[0])[:300]}")
        return
    if not calls:
        # silence where a unit error is due (or under a unit layer) contradicts C19, otherwise C15
        unit_err = kind == "error" and exp.get("err") != "base"
        d.add("C19" if unit_err or unit_touched else "C15", "error" if unit_err else "kind",
              f"{where}: expected a {kind} call" + (f" ({exp['err']})" if unit_err else "") + ", the value wrote nothing")
        return
    g = calls[0]
    if kind == "string":
        if g["kind"] != "string" or g.get("s") != "text":
            d.add("C15", "kind", f"{where}: expected the string \"text\", got {json.dumps(g)[:300]}")
        return
    if kind == "error":
        if g["kind"] != "error":
            if exp["err"] == "base":
                d.add("C15", "kind", f"{where}: the value's validation error was replaced by {json.dumps(g)[:300]}")
            else:
                d.add("C19", "error", f"{where}: expected a validation error ({exp['err']}), got {json.dumps(g)[:300]}")
        elif exp["err"] == "base" and "base-error" not in g.get("msg", ""):
            d.add("C15", "kind", f"{where}: the value's validation error was altered: {g.get('msg')!r}")
        return
    # metric
    if g["kind"] != "metric":
        d.add("C15" if not unit_touched else "C19", "kind", f"{where}: expected a metric, got {json.dumps(g)[:300]}")
        return
    ename = unames[exp["unit"]]
    pm = plain[0] if plain and len(plain) == 1 and plain[0]["kind"] == "metric" and not unit_touched else None
    if pm is not None:
        # no unit layer acts on this value: number(s) and unit must be those of the plain value, bit for bit
        if g["unit"] != pm["unit"]:
            d.add("C15", "unit", f"{where}: unit {g['unit']!r}, the plain value reports {pm['unit']!r}")
        if g["obs"] != pm["obs"]:
            d.add("C15", "obs", f"{where}: observations {json.dumps(g['obs'])[:200]}, the plain value reports {json.dumps(pm['obs'])[:200]}")
    if g["unit"] != ename:
        d.add("C19" if unit_touched or exp["unit"] != "None" else "C15", "unit",
              f"{where}: emitted unit {g['unit']!r}, expected {ename!r}")
    if len(g["obs"]) != len(exp["obs"]):
        d.add("C15", "obs", f"{where}: {len(g['obs'])} observations instead of {len(exp['obs'])}: {json.dumps(g['obs'])[:300]}")
    else:
        for i, (eo, go) in enumerate(zip(exp["obs"], g["obs"])):
            if "slots" in eo:     # a mean: the total is the sum over the observations collected
                m = [mags[k - 1] for k in eo["slots"]]
                want = sum((scaled(x, eo["e2"], eo["e10"]) for x in m), Fraction(0))
            else:
                m = mags[eo["slot"] - 1]
                want = scaled(m, eo["e2"], eo["e10"])
            got = num(go.get("v"))
            untouched = eo["e2"] == 0 and eo["e10"] == 0 and not unit_touched
            if untouched:
                # identity on the observation: same variant, same bits
                if go["t"] != eo["t"] or got != want or (eo["t"] == "R" and go.get("occ") != eo["occ"]):
                    d.add("C15", "obs", f"{where}: observation {i} altered: wrote {json.dumps(m)}, format saw {json.dumps(go)}")
                continue
            if not close_enough(got, want):
                d.add("C19", "scale",
                      f"{where}: observation {i}: original {json.dumps(m)} must be reported as {float(want)!r} {ename} "
                      f"(x 2^{eo['e2']} x 10^{eo['e10']}), format saw {json.dumps(go)}")
            elif eo["t"] == "R" and (go["t"] != "R" or go.get("occ") != eo["occ"]):
                d.add("C19", "scale", f"{where}: observation {i}: Repeated with {eo['occ']} occurrences became {json.dumps(go)}")
            elif go["t"] != eo["t"]:
                d.drift.append({"where": where, "obs": i, "model_variant": eo["t"], "real": go})
    if g["dims"] != dims_of(exp["dims"]):
        d.add("C15", "dims", f"{where}: dimensions {json.dumps(g['dims'])}, expected {json.dumps(dims_of(exp['dims']))}")
    if sorted(g["flags"]) != sorted(exp["flags"]):
        d.add("C15", "flags", f"{where}: flags {sorted(g['flags'])}, expected {sorted(exp['flags'])}")


def cmp_entry(d, exp, got, unames, plain=None):
    gi, ei = got["items"], exp["items"]
    skel_g = [(x["t"], x.get("id") or x.get("name")) for x in gi]
    skel_e = [(x["t"], x.get("id") or x.get("name")) for x in ei]
    if skel_g != skel_e:
        d.add("C15", "items", f"item sequence {skel_g}, expected {skel_e}")
    else:
        for e, g in zip(ei, gi):
            if e["t"] == "val":
                mags = got["mags"].get(e["name"], [])
                cmp_call(d, f"field {e['name']}", e["call"], g["calls"], mags, unames, False,
                         plain=(plain or {}).get(e["name"]))
    esg = [[s, s + "_v"] for s in exp["sg"]]
    if got["sg"] != esg:
        d.add("C15", "sample_group", f"sample_group() = {json.dumps(got['sg'])}, expected {json.dumps(esg)}")


# ---------------------------------------------------------------------------------------------
# running TLC + harness
# ---------------------------------------------------------------------------------------------
def tlc_behaviours(chk, module, cfg, timeout=1800):
    r = vlib.model_check(SPECD, module, cfg, timeout=timeout)
    chk.add_model(f"{module}/{cfg}", r)
    beh = vlib.replay_lines(r)
    units = vlib.replay_lines(r, tag="UNITS")
    if not beh or not units:
        raise vlib.ToolError(f"{module}/{cfg} printed no behaviours")
    for i, b in enumerate(beh):
        b["id"] = i
    return r, beh, units[0]


def run_harness(chk, cmd, beh, tag):
    bp = os.path.join(chk.dir, f"{tag}-beh.ndjson")
    op = os.path.join(chk.dir, f"{tag}-out.ndjson")
    vlib.write_ndjson(bp, beh)
    vlib.run_bin("val", [cmd, "--behaviours", bp, "--out", op], timeout=1800)
    outs = {o["id"]: o for o in vlib.read_ndjson(op)}
    if len(outs) != len(beh):
        raise vlib.ToolError(f"val {cmd}: {len(outs)} results for {len(beh)} behaviours")
    return outs


def rotations(chk, n, slots):
    """n magnitude-index vectors; rotation r gives slot s the magnitude (r + s) mod 6"""
    start = chk.rng.randrange(6)
    return [[(start + k + s) % 6 for s in range(slots)] for k in range(n)]


class Reporter:
    """turns Diffs into violations of the property under check; counts what belongs to the other one"""
    def __init__(self, chk):
        self.chk = chk
        self.per_cat = collections.Counter()
        self.other = collections.Counter()
        self.bad = 0

    def report(self, d, kind, sig, replay_obj):
        mine = [x for x in d.v if x[0] == self.chk.prop.split("-")[0]]
        for x in d.v:
            if x[0] != self.chk.prop.split("-")[0]:
                self.other[x[0] + ":" + x[1]] += 1
        for dr in d.drift:
            if len(self.chk.drift) < 20:
                self.chk.drift.append(dict(dr, behaviour=sig))
        if not mine:
            return False
        self.bad += 1
        cat = mine[0][1]
        self.per_cat[cat] += 1
        if self.per_cat[cat] <= MAXV:
            what = f"{kind} {sig}: " + "; ".join(t for _, _, t in mine[:4])
            self.chk.violation(what, replay_obj, key=f"{self.chk.prop}:{cat}:{sig}")
        return True

    def finish(self):
        if self.per_cat:
            self.chk.extra["violations_by_category"] = dict(self.per_cat)
        if self.other:
            self.chk.extra["discrepancies_attributed_to_other_property"] = dict(self.other)
            log(f"[{self.chk.prop}] note: discrepancies that belong to the other property of this subsystem: {dict(self.other)}")


def vsig(b):
    def one(w):
        if w["w"] == "Dim":
            return "Dim(" + ",".join(w["ds"]) + ")"
        if w["w"] == "Flag":
            return "Flag(" + w["f"] + ")"
        if w["w"] == "Unit":
            return f"Unit({w['from']}->{w['to']})"
        return w["w"]
    out = b["base"]
    for w in b["stack"]:
        out = f"{one(w)}[{out}]"
    return out


def esig(b):
    def one(w):
        p = []
        if w["ds"]:
            p.append(",".join(w["ds"]))
        if w["deny"]:
            p.append("deny")
        if w["f"]:
            p.append(w["f"])
        return w["w"] + ("(" + ";".join(p) + ")" if p else "")
    out = b["base"]
    for w in b["stack"]:
        out = f"{one(w)}[{out}]"
    return out


def check_flag_merge(chk, rep, tables, unames):
    """MetricFlags::try_merge on every pair of flag sets, against the spec's FlagMerge"""
    if not tables:
        raise vlib.ToolError("VPValueStacks printed no FLAGMERGE table")
    rows = tables[0]
    for i, row in enumerate(rows):
        row["id"] = i
    outs = run_harness(chk, "flagmerge", rows, "flagmerge")
    for row in rows:
        o = outs[row["id"]]
        d = Diff()
        if "panic" in o:
            d.add("C15", "panic", f"try_merge panicked: {o['panic']}")
        elif sorted(o["r"]) != sorted(row["r"]):
            d.add("C15", "flags", f"flags {sorted(row['x'])} merged with {sorted(row['y'])} gave {sorted(o['r'])}, expected {sorted(row['r'])}")
        chk.evaluations += 1
        if not rep.report(d, "MetricFlags::try_merge", f"{sorted(row['x'])}+{sorted(row['y'])}", {"kind": "flagmerge", "behaviour": row, "observed": o, "units": unames}):
            chk.traces += 1
    chk.extra["flag_merge_pairs"] = len(rows)


def check_value_stacks(chk, rep, tier, only_units=False):
    cfg = "MC_vstacks_quick.cfg" if tier == "quick" else "MC_vstacks.cfg"
    r, beh, unames = tlc_behaviours(chk, "VPValueStacks", cfg)
    if only_units:
        beh = [b for b in beh if not b["stack"] or any(w["w"] == "Unit" for w in b["stack"]) or b["base"] in ("dur", "distdur")]
    runs = rotations(chk, 2 if tier == "quick" else 6, 3)
    for b in beh:
        b["runs"] = runs
    outs = run_harness(chk, "values", beh, "values")
    if not only_units:
        check_flag_merge(chk, rep, vlib.replay_lines(r, tag="FLAGMERGE"), unames)
    plain = {b["base"]: outs[b["id"]]["runs"] for b in beh if not b["stack"]}
    feat = collections.Counter()
    for b in beh:
        o = outs[b["id"]]
        d = Diff()
        touched = any(w["w"] == "Unit" for w in b["stack"])
        for k, (run, ro) in enumerate(zip(b["runs"], o["runs"])):
            if "panic" in ro:
                d.add(chk.prop, "panic", f"panic while writing the stack: {ro['panic']}")
                continue
            pl = plain.get(b["base"], [])
            pl = pl[k].get("calls") if k < len(pl) else None
            cmp_call(d, f"run {run}", b["expect"], ro["calls"], ro["mags"], unames, touched, plain=pl)
            chk.evaluations += 1
        ok = not rep.report(d, "value stack", vsig(b), {"kind": "value", "behaviour": b, "observed": o, "units": unames,
                                                        "plain": plain.get(b["base"])})
        if ok:
            chk.traces += 1
        ws = [w["w"] for w in b["stack"]]
        if b["stack"] and b["expect"]["kind"] == "metric":
            chk.nontrivial.add(vsig(b))
        if b["base"] == "richi" and "Dim" in ws:
            feat["dims_appended_after_own_dims_from_inexact_iterator"] += 1
        if b["base"] == "rich" and "Dim" in ws:
            feat["dims_appended_after_existing"] += 1
        if b["base"] == "rich" and "Flag" in ws:
            feat["flags_merged_with_existing"] += 1
        if ws.count("Dim") >= 2:
            feat["two_dimension_layers"] += 1
        if any(w["w"] == "Flag" and w["f"] == "0" for w in b["stack"]) and b["expect"]["kind"] == "metric" and b["expect"]["flags"]:
            feat["empty_flag_constructor_over_or_under_flags"] += 1
        if ws.count("Flag") >= 2:
            feat["two_flag_layers"] += 1
        if b["expect"]["kind"] == "error" and b["expect"]["err"] != "base":
            feat["unit_errors"] += 1
        if b["expect"]["kind"] == "error" and b["expect"]["err"] == "base" and b["stack"]:
            feat["error_through_wrappers"] += 1
        if touched and b["expect"]["kind"] == "metric":
            feat["unit_conversions_in_stacks"] += 1
        if b["base"] in ("zero", "zeron") and b["stack"] and b["expect"]["kind"] == "metric":
            feat["metric_call_without_observations_through_wrappers"] += 1
        if "None" in ws or "FmtNone" in ws:
            feat["empty_option"] += 1
        if any(w.startswith("Fmt") for w in ws):
            feat["formatter_lifted_container"] += 1
    chk.extra["value_stacks"] = len(beh)
    chk.extra["value_stack_features"] = dict(feat)
    mid = beh[len(beh) // 2]
    chk.sample({"value_stack": vsig(mid), "expected_call": mid["expect"]})
    return unames


BASE_SG = {"E": ("op", "status"), "S0x": (), "S0i": (), "S1x": (1,), "S1i": (1,), "S2x": (1, 2), "S2i": (1, 2),
           "S3x": (1, 2, 3), "S3i": (1, 2, 3), "S5x": (1, 2, 3, 4, 5), "S5i": (1, 2, 3, 4, 5)}


def plain_fields(runs):
    """per run: field name -> recorded calls of the unwrapped entry"""
    return [{it["name"]: it["calls"] for it in ro.get("items", []) if it["t"] == "val"} for ro in runs]


def check_entry_stacks(chk, rep, tier):
    # the entry with one field per base value; then the small entries that differ in their sample group
    # (0/1/2/3/5 elements, exact and inexact size hints) through the same compositions
    cfgs = [("MC_estacks_quick.cfg", "entries"), ("MC_estacks_sg_quick.cfg", "entries-sg")] if tier == "quick" else \
           [("MC_estacks.cfg", "entries"), ("MC_estacks_sg_quick.cfg", "entries-sg2"), ("MC_estacks_sg.cfg", "entries-sg3")]
    for cfg, tag in cfgs:
        check_entry_cfg(chk, rep, tier, cfg, tag)


def hsig(b):
    w = b["wrapper"]
    p = [",".join(w["ds"])] if w["ds"] else []
    if w["deny"]:
        p.append("deny")
    if w["f"]:
        p.append(w["f"])
    return w["w"] + ("(" + ";".join(p) + ")" if p else "") + " after inner results [" + ",".join(st["res"] for st in b["steps"][:-1]) + "]"


def cmp_history(d, b, ro, unames):
    for k, (st, go) in enumerate(zip(b["steps"], ro["steps"])):
        before = [x["res"] for x in b["steps"][:k]]
        where = f"entry {k + 1} (inner results so far {before})"
        if "items" not in go:
            d.add("C15", "history", f"{where}: the inner stream/format was called {go.get('inner_calls')} times instead of once")
            continue
        sub = Diff()
        cmp_entry(sub, st, go, unames)
        for prop, cat, text in sub.v:
            d.add(prop, "history" if prop == "C15" else cat, f"{where}: {text}")
        d.drift.extend(sub.drift)
        if go.get("res") != st["res"]:
            d.drift.append({"where": where, "inner_result": st["res"], "wrapper_returned": go.get("res")})


def check_histories(chk, rep, tier):
    """one long-lived stream / format wrapper, a sequence of entries, inner faults in between"""
    cfg = "MC_hist_quick.cfg" if tier == "quick" else "MC_hist.cfg"
    r, beh, unames = tlc_behaviours(chk, "VPStreamHist", cfg)
    runs = rotations(chk, 1 if tier == "quick" else 2, 12)
    for b in beh:
        b["runs"] = runs
    outs = run_harness(chk, "hist", beh, "hist")
    after_fault = 0
    for b in beh:
        o = outs[b["id"]]
        d = Diff()
        for ro in o["runs"]:
            if "panic" in ro:
                d.add("C15", "panic", f"panic while sending the history: {ro['panic']}")
                continue
            cmp_history(d, b, ro, unames)
            chk.evaluations += len(b["steps"])
        if not rep.report(d, "history through one", hsig(b), {"kind": "hist", "behaviour": b, "observed": o, "units": unames}):
            chk.traces += 1
        after_fault += sum(1 for st in b["steps"] if st["faulted_before"])
        if any(st["faulted_before"] for st in b["steps"]):
            chk.nontrivial.add("hist:" + hsig(b) + b["steps"][-1]["res"])
    chk.extra["histories"] = len(beh)
    chk.extra["history_entries_sent_after_an_inner_fault"] = after_fault
    chk.sample({"history": hsig(beh[len(beh) // 2]), "results": [st["res"] for st in beh[len(beh) // 2]["steps"]]})


def check_entry_cfg(chk, rep, tier, cfg, tag):
    r, beh, unames = tlc_behaviours(chk, "VPEntryStacks", cfg)
    runs = rotations(chk, 1 if tier == "quick" or tag != "entries" else 2, 12)
    for b in beh:
        b["runs"] = runs
    outs = run_harness(chk, "entries", beh, tag)
    plain = {b["base"]: plain_fields(outs[b["id"]]["runs"]) for b in beh if not b["stack"]}
    feat = collections.Counter()
    for b in beh:
        o = outs[b["id"]]
        d = Diff()
        for k, (run, ro) in enumerate(zip(b["runs"], o["runs"])):
            if "panic" in ro:
                d.add("C15", "panic", f"panic while writing the entry: {ro['panic']}")
                continue
            pl = plain.get(b["base"], [])
            cmp_entry(d, b, ro, unames, plain=pl[k] if k < len(pl) else None)
            chk.evaluations += 1
        ok = not rep.report(d, "entry composition", esig(b), {"kind": "entry", "behaviour": b, "observed": o, "units": unames,
                                                              "plain": plain.get(b["base"])})
        if ok:
            chk.traces += 1
        ws = [w["w"] for w in b["stack"]]
        if any(w not in ("Some", "Box", "Arc", "Cow", "Ref") for w in ws):
            chk.nontrivial.add(esig(b))
        for w in b["stack"]:
            if w["deny"]:
                feat["deny_list_layers"] += 1
        for k in ("Boxed", "MergeG", "MergeRef", "MergeStream", "MergeFormat", "MergeAfter", "GDims", "GDimsStream", "GDimsFormat",
                  "EDims", "EFlag",
                  "FlagStream", "Root", "RootDims", "RootFlag", "NoneE"):
            if k in ws:
                feat["with_" + k] += 1
        if sum(1 for w in ws if w.startswith("Merge")) >= 2:
            feat["two_merges"] += 1
        if len(b["sg"]) > len(BASE_SG.get(b["base"], ())) and any(w.startswith("Merge") for w in ws):
            feat["sample_groups_concatenated"] += 1
        if b["base"] in ("T2e", "T3") and "Boxed" in ws:
            feat["boxed_entry_with_repeated_equal_timestamp"] += 1
        if b["base"].endswith("i") and len(b["sg"]) > 2 and "Boxed" in ws:
            feat["boxed_inexact_size_hint_group_over_2"] += 1
    chk.extra["entry_compositions"] = chk.extra.get("entry_compositions", 0) + len(beh)
    chk.extra.setdefault("entry_composition_features", {})[cfg] = dict(feat)
    mid = beh[len(beh) // 3]
    chk.sample({"entry_composition": esig(mid), "expected_items": [(x["t"], x.get("id") or x.get("name")) for x in mid["items"]],
                "expected_sample_group": mid["sg"]})


METRIC_SHAPES = {"u64", "f64", "mean", "tri", "u64_method", "opt_some", "dist_inner", "dist_outer", "box_arc", "zero"}
ERROR_SHAPES = {"str": "unit-on-string", "mismatch": "unit-mismatch", "dist_mismatch": "unit-mismatch",
                "dist_str_unit": "collect-string"}
DUR_SHAPES = {"dur", "dist_dur", "opt_dur"}
RT_SHAPES = {"rt_tri"}


def expected_for_shape(p, sh):
    """TLC's pair line -> expected call for one statically typed shape"""
    n = len(sh["mags"])
    occ = {"mean": 2, "tri": 3, "rt_tri": 3}
    def metric(unit, e2, e10, converted=None):
        if converted is None:
            converted = (e2, e10) != (0, 0)
        obs = []
        for i, m in enumerate(sh["mags"]):
            t = {"U": "U", "F": "F", "D": "F"}[m["t"]]
            if sh["shape"] == "mean" or (sh["shape"].endswith("tri") and i == 2):
                t = "R"
            if t == "U" and converted:
                t = "F"     # an Unsigned that went through a conversion with a ratio other than 1 is handed on as Floating
            obs.append({"t": t, "slot": i + 1, "e2": e2, "e10": e10, "occ": occ.get(sh["shape"], 0) if t == "R" else 0})
        return {"kind": "metric", "obs": obs, "unit": unit, "dims": [], "flags": [], "err": ""}
    s = sh["shape"]
    if s in ("mean_conv", "mean_dur"):
        return p[s]
    if s in METRIC_SHAPES:
        return metric(p["to"], p["e2"], p["e10"])
    if s == "opt_none":
        return {"kind": "nothing"}
    if s in ERROR_SHAPES:
        return {"kind": "error", "err": ERROR_SHAPES[s]}
    if s in DUR_SHAPES:
        return metric(p["to"], 0, p["dur_e10"])
    if s in RT_SHAPES:
        return metric(p["from"], p["rt_e2"], p["rt_e10"], converted=(p["e2"], p["e10"]) != (0, 0))
    raise vlib.ToolError(f"unknown shape {s}")


def check_pairs(chk, rep, tier):
    r = vlib.model_check(SPECD, "VPUnitPairs", "MC_units.cfg", timeout=1800)
    chk.add_model("VPUnitPairs/MC_units.cfg", r)
    pairs = vlib.replay_lines(r)
    unames = vlib.replay_lines(r, tag="UNITS")[0]
    attrs = vlib.replay_lines(r, tag="ATTR")[0]
    if len(pairs) != 435:
        raise vlib.ToolError(f"VPUnitPairs printed {len(pairs)} pairs, expected 435")
    nm = 2 if tier == "quick" else 6
    start = chk.rng.randrange(6)
    for i, p in enumerate(pairs):
        p["id"] = i
        p["mags"] = [(start + i + 3 * k) % 6 for k in range(nm)] if nm < 6 else list(range(6))
    outs = run_harness(chk, "pairs", pairs, "pairs")
    shapes_seen = collections.Counter()
    for p in pairs:
        o = outs[p["id"]]
        d = Diff()
        for sh in o["shapes"]:
            shapes_seen[sh["shape"]] += 1
            where = f"{sh['shape']}"
            if "panic" in sh:
                d.add("C19", "panic", f"{where}: panic: {sh['panic']}")
                continue
            cmp_call(d, where, expected_for_shape(p, sh), sh["calls"], sh["mags"], unames, True)
            chk.evaluations += 1
        sig = f"{p['from']}->{p['to']}"
        if not rep.report(d, "unit pair", sig, {"kind": "pair", "behaviour": p, "observed": o, "units": unames}):
            chk.traces += 1
        if (p["e2"], p["e10"]) != (0, 0):
            chk.nontrivial.add(sig)
    chk.extra["unit_pairs"] = len(pairs)
    chk.extra["pair_shapes_run"] = dict(shapes_seen)
    chk.sample({"unit_pair": pairs[217], "meaning": "emitted = original * 2^e2 * 10^e10, unit name = to_name"})
    # collectors: Distribution / Mean over elements that promise one unit and write another (all 26 x 26)
    check_collect(chk, rep, tier, vlib.replay_lines(r, tag="COLLECT"), unames, start)
    # the #[metrics(unit = ...)] attribute
    check_attrs(chk, rep, attrs, unames, list(range(6)) if tier != "quick" else [start % 6, (start + 3) % 6, 5])
    return unames


def check_collect(chk, rep, tier, lines, unames, start):
    if len(lines) != 676:
        raise vlib.ToolError(f"VPUnitPairs printed {len(lines)} collector pairs, expected 676")
    for i, l in enumerate(lines):
        l["id"] = i
        l["mags"] = [(start + i) % 6] if tier == "quick" else [1, 3, 5]
    outs = run_harness(chk, "collect", lines, "collect")
    n_err = 0
    for l in lines:
        o = outs[l["id"]]
        d = Diff()
        cmp_collect(d, l, o, unames)
        chk.evaluations += len(o["shapes"])
        sig = f"promises {l['prom']}, writes {l['wrote']}"
        if not rep.report(d, "Distribution/Mean over elements that", sig, {"kind": "collect", "behaviour": l, "observed": o, "units": unames}):
            chk.traces += 1
        if l["prom"] != l["wrote"]:
            n_err += 1
            chk.nontrivial.add("collect:" + sig)
    chk.extra["collector_unit_pairs"] = len(lines)
    chk.extra["collector_mismatch_pairs"] = n_err
    chk.extra["collector_mismatch_pairs_with_None"] = sum(1 for l in lines if l["prom"] != l["wrote"] and "None" in (l["prom"], l["wrote"]))


def cmp_collect(d, l, o, unames):
    for sh in o["shapes"]:
        if "panic" in sh:
            d.add("C19", "panic", f"{sh['shape']}: panic: {sh['panic']}")
            continue
        cmp_call(d, f"{sh['shape']}", l[sh["shape"]], sh["calls"], sh["mags"], unames, True)


def check_attrs(chk, rep, attrs, unames, mags):
    op = os.path.join(chk.dir, "attrs-out.ndjson")
    vlib.run_bin("val", ["attrs", "--out", op, "--mags", ",".join(str(m) for m in mags)])
    outs = vlib.read_ndjson(op)
    byfield = {a["field"]: a for a in attrs}
    for run, o in zip(mags, outs):
        d = Diff()
        if "panic" in o:
            d.add("C19", "panic", f"#[metrics] struct: panic {o['panic']}")
        else:
            seen = set()
            for it in o["items"]:
                if it["t"] != "val":
                    continue
                a = byfield.get(it["name"])
                if a is None:
                    d.add("C19", "attr", f"unexpected field {it['name']}")
                    continue
                seen.add(it["name"])
                cmp_call(d, f"#[metrics] field {it['name']} (unit = {a['to'] or '-'})", a["expect"], it["calls"],
                         o["mags"][it["name"]], unames, True)
                chk.evaluations += 1
            missing = set(byfield) - seen
            if missing:
                d.add("C19", "attr", f"fields never handed to the EntryWriter: {sorted(missing)}")
        if not rep.report(d, "#[metrics(unit)] structs", f"magnitude {run}", {"kind": "attr", "mags": [run], "expected": attrs,
                                                                               "observed": o, "units": unames}):
            chk.traces += 1
    chk.extra["metrics_attribute_fields"] = len(attrs)


# ---------------------------------------------------------------------------------------------
def run(prop, tier):
    chk = vlib.Check(prop, tier)
    chk.assumptions = [
        "TLC results are exhaustive within the constants of spec/value/MC_*.cfg (wrapper nesting depth 2 quick / 3 thorough, "
        "the wrapper parameter sets of VPValueStacks/VPEntryStacks, the entry under test with one field per base value)",
        "numbers: every observation slot is exercised with the magnitudes {0, 1, 3, 1e15, 2^63, 1e-9 (12345678901234567 for u64)}; "
        "nothing is claimed for other magnitudes",
        "the type-erasing adaptor of harness/src/bin/val.rs (object-safe mirror of Value/ValueWriter/Entry/EntryWriter) hands calls "
        "on unchanged; it copies names and maps configs back to statics, so borrowed-vs-owned names are not observed",
        "flags are observed through a harness MetricOptions type whose merge is set union (EmfOptions is private to the EMF crate)",
    ]
    vlib.cargo_build(["val"])
    rep = Reporter(chk)
    if prop == "C15":
        chk.rule = ("evaluations = one real wrapper stack / entry composition written once into the recording writer with one "
                    "assignment of magnitudes; traces = stacks / compositions whose every evaluation matched TLC's expectation; "
                    "distinct_nontrivial = distinct stacks with at least one layer ending in a metric call, resp. compositions "
                    "with at least one non-container wrapper")
        check_value_stacks(chk, rep, tier)
        check_entry_stacks(chk, rep, tier)
        check_histories(chk, rep, tier)
    else:
        chk.rule = ("evaluations = one statically typed shape (or stack, or #[metrics] field) written once with one magnitude; "
                    "traces = unit pairs / stacks / struct instances whose every evaluation matched; distinct_nontrivial = "
                    "ordered unit pairs with a ratio other than 1 plus distinct stacks with a unit layer ending in a metric call")
        check_pairs(chk, rep, tier)
        check_value_stacks(chk, rep, tier, only_units=True)
    rep.finish()
    return chk.finish()


class _ReplayDir:
    def __init__(self, prop):
        self.dir = vlib.rundir(prop + "-replay")


def replay(prop, path):
    """Re-run the behaviour stored in a violation file against the current tree."""
    with open(path) as f:
        v = json.load(f)
    rp = v["replay"]
    vlib.cargo_build(["val"])
    chk = _ReplayDir(prop)
    unames = rp["units"]
    d = Diff()
    if rp["kind"] == "attr":
        op = os.path.join(chk.dir, "attrs-out.ndjson")
        vlib.run_bin("val", ["attrs", "--out", op, "--mags", ",".join(str(m) for m in rp["mags"])])
        o = vlib.read_ndjson(op)[0]
        byfield = {a["field"]: a for a in rp["expected"]}
        if "panic" in o:
            d.add("C19", "panic", o["panic"])
        else:
            for it in o["items"]:
                if it["t"] == "val" and it["name"] in byfield:
                    cmp_call(d, it["name"], byfield[it["name"]]["expect"], it["calls"], o["mags"][it["name"]], unames, True)
    else:
        b = rp["behaviour"]
        cmd = {"value": "values", "entry": "entries", "pair": "pairs", "collect": "collect", "hist": "hist", "flagmerge": "flagmerge"}[rp["kind"]]
        # the unwrapped value / entry with the same magnitudes, for the differential part
        b0 = dict(b, id=b["id"] + 1, stack=[]) if rp["kind"] in ("value", "entry") else None
        outs = run_harness(chk, cmd, [b] + ([b0] if b0 else []), "replay")
        o = outs[b["id"]]
        if rp["kind"] == "value":
            touched = any(w["w"] == "Unit" for w in b["stack"])
            pl = outs[b0["id"]]["runs"]
            for k, (run_, ro) in enumerate(zip(b["runs"], o["runs"])):
                if "panic" in ro:
                    d.add(prop, "panic", ro["panic"])
                else:
                    cmp_call(d, f"run {run_}", b["expect"], ro["calls"], ro["mags"], unames, touched, plain=pl[k].get("calls"))
        elif rp["kind"] == "entry":
            pl = plain_fields(outs[b0["id"]]["runs"])
            for k, ro in enumerate(o["runs"]):
                if "panic" in ro:
                    d.add(prop, "panic", ro["panic"])
                else:
                    cmp_entry(d, b, ro, unames, plain=pl[k])
        elif rp["kind"] == "collect":
            cmp_collect(d, b, o, unames)
        elif rp["kind"] == "flagmerge":
            if "panic" in o or sorted(o.get("r", [])) != sorted(b["r"]):
                d.add("C15", "flags", f"try_merge of {b['x']} and {b['y']} gave {o.get('r', o.get('panic'))}, expected {b['r']}")
        elif rp["kind"] == "hist":
            for ro in o["runs"]:
                if "panic" in ro:
                    d.add(prop, "panic", ro["panic"])
                else:
                    cmp_history(d, b, ro, unames)
        else:
            for sh in o["shapes"]:
                if "panic" in sh:
                    d.add("C19", "panic", sh["panic"])
                else:
                    cmp_call(d, sh["shape"], expected_for_shape(b, sh), sh["calls"], sh["mags"], unames, True)
    mine = [x for x in d.v if x[0] == prop]
    for _, cat, t in mine[:6]:
        log(f"still failing [{cat}]: {t}")
    if not mine:
        log("replayed behaviour now matches TLC's expectation")
    return 1 if mine else 0
