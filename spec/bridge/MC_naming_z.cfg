CONSTANTS
  Depth = 5
  EmitZero = TRUE
  DescUnits = {"Bytes", "CountPerSecond", "Percent"}
  HistVals = {"v100"}
  HistCounts = {1}
  GaugeOps = {"set"}
  RecHows = {"loop"}
SPECIFICATION Spec
INVARIANT Emit
INVARIANT UnitInv
CONSTRAINT Bound
CHECK_DEADLOCK FALSE
