-------------------------- MODULE SinkErrorsReplay --------------------------
(* every result script of length MaxEntries, with the hand-off log the model predicts *)
EXTENDS SinkErrors, Json

VARIABLE hist
Get(f, s, d) == IF s \in DOMAIN f THEN f[s] ELSE d

RInit == Init /\ hist = <<>>
RNext == \E res \in [Streams -> Results], ferr \in [Streams -> BOOLEAN] :
            /\ Put(res, ferr)
            /\ hist' = Append(hist, [a |-> Get(res, "a", "ok"), b |-> Get(res, "b", "ok"),
                                     fa |-> Get(ferr, "a", FALSE), fb |-> Get(ferr, "b", FALSE)])
RSpec == RInit /\ [][RNext]_<<svars, hist>>
Emit == n = MaxEntries =>
          PrintT(<<"REPLAY", ToJson([streams |-> Cardinality(Streams), steps |-> hist,
                                     handed |-> [s \in Streams |-> handed[s]],
                                     flushes |-> [s \in Streams |-> flushes[s]]])>>)
=============================================================================
