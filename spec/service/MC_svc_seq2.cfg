\* quick C: one handler, two requests one after the other (per-thread order), direct modes
CONSTANTS
  Plan <- Plan2
  ModesOf <- Direct
  NFlush = 1
  EarlyClose = FALSE
SPECIFICATION Spec
INVARIANTS SvcInv AtEnd
PROPERTY SilentAfterDetach
CHECK_DEADLOCK FALSE
