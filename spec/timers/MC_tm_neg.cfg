CONSTANTS
  Slots = {1}
  Ds = {0, 1, 2}
  MaxClock = 4
  W0 = 5
  W0B = 9000000
  Ambients = {"A", "B", "none"}
  Threads = {"main", "other"}
  Resolution = "ambient_first"
  UnwindDrops = FALSE
SPECIFICATION TmSpec
INVARIANT TmTypeOK
INVARIANT TmInv
CHECK_DEADLOCK FALSE
