"""X01 (extension beyond the listed properties): end-to-end composition of a service-shaped program.

spec/service/Service.tla        composition of the property layers QueueAbs (queue) and GlobalDetach (global sink)
                                with unit-of-work and EMF glue; the end-to-end statements (SvcInv, SilentAfterDetach)
spec/service/ServiceMC.tla      TLC: every interleaving for small constants (MC_svc*.cfg)
spec/service/ServiceReplay.tla  R: every sequence of operations up to a depth (+ -simulate walks), executed one
                                operation after the other by `svc seq`; results and output compared with TLC's
spec/service/ServiceTrace.tla   T: executions recorded by `svc run` (request threads / tokio tasks, sub-tasks, operator,
                                real queue, real Emf formatter over a recording io::Write) validated by TLC
"""
import json, os, random
import vlib
from vlib import log

SPECD = os.path.join(vlib.SPEC, "service")
MODES = ["try", "guard", "fg", "wait", "disc"]


# --------------------------------------------------------------------------------------------
# 1. model checking of the composition
# --------------------------------------------------------------------------------------------
MC = {"quick": ["MC_svc_quick.cfg", "MC_svc_subtry.cfg", "MC_svc_seq2.cfg"],
      "thorough": ["MC_svc_quick.cfg", "MC_svc_subtry.cfg", "MC_svc_seq2.cfg", "MC_svc_sub.cfg", "MC_svc_seq.cfg",
                   "MC_svc_all.cfg", "MC_svc_3.cfg", "MC_svc_early.cfg"]}
# situations that must be reachable (checked as invariants that TLC has to refute)
REACH = ["MC_svc_reach_loss.cfg", "MC_svc_reach_back.cfg", "MC_svc_reach_absent.cfg"]


def model_check(chk, tier):
    for cfg in MC[tier]:
        r = vlib.model_check(SPECD, "ServiceMC", cfg, timeout=7200, heap="24g" if tier == "thorough" else "8g")
        chk.add_model("ServiceMC/" + cfg, r)
        never = [a for a, n in r.coverage.items() if n == 0 and a in ACTIONS]
        if never:
            raise vlib.ToolError(f"ServiceMC/{cfg}: actions never taken: {never}")
    reached = 0
    for cfg in REACH:
        r = vlib.tlc(SPECD, "ServiceMC", cfg, timeout=600)
        if not r.invariant_violated:
            raise vlib.ToolError(f"vacuity: the situation of {cfg} is not reachable in the model")
        reached += 1
    chk.extra["reachability_guards_refuted"] = reached


ACTIONS = {"ReqStart", "SinkStart", "SinkLin", "SinkEnd", "Work", "ODropStart", "ODropEnd", "TryStart", "TryLin",
           "TryEnd", "QLin", "QPop", "Write", "WFlush", "WClose", "AttachStart", "AttachLin", "AttachEnd",
           "DetachStart", "DetachLin", "DetachEnd", "FlushReq", "FlushDone"}


# --------------------------------------------------------------------------------------------
# 2. R: sequential replay of TLC behaviours
# --------------------------------------------------------------------------------------------
def reject_text(meta, v):
    return ((f"invariant {v.invariant} violated" if v.invariant else
             f"event {json.dumps(v.event, ensure_ascii=False)} (line {v.rel_line} of the scenario trace) is not enabled")
            + f"; diagnosis: {v.state}")


def run_replay(chk, tier):
    q = tier == "quick"
    r = vlib.tlc(SPECD, "ServiceReplay", "MC_svc_replay_quick.cfg" if q else "MC_svc_replay.cfg", timeout=3600)
    if r.errors or r.invariant_violated:
        raise vlib.ToolError(f"ServiceReplay does not satisfy its own invariants: {r.errors[:2]}")
    chk.add_model("ServiceReplay/exhaustive", r)
    beh = vlib.replay_lines(r)
    nex = len(beh)
    depth = 9
    w = vlib.tlc(SPECD, "ServiceReplay", "MC_svc_replay_walk.cfg", workers=1, simulate=(200 if q else 4000), depth=depth * 8 + 10,
                 seed=chk.seed, timeout=1800)
    if w.errors or w.invariant_violated:
        raise vlib.ToolError(f"ServiceReplay (walks) does not satisfy its own invariants: {w.errors[:2]}")
    seen = set(json.dumps(b["steps"]) for b in beh)
    for b in vlib.replay_lines(w):
        k = json.dumps(b["steps"])
        if k not in seen:
            seen.add(k)
            beh.append(b)
    if not beh:
        raise vlib.ToolError("no behaviours generated")
    for i, b in enumerate(beh):
        b["id"] = i + 1
        for s in b["steps"]:
            if not s.pop("has_out"):
                s.pop("out")
    log(f"[tlc] ServiceReplay: {nex} sequences of operations (exhaustive) + {len(beh) - nex} walks of {depth} operations")
    bp = os.path.join(chk.dir, "seq-beh.ndjson")
    tp = os.path.join(chk.dir, "seq-trace.ndjson")
    mp = os.path.join(chk.dir, "seq-meta.ndjson")
    rp = os.path.join(chk.dir, "seq-res.ndjson")
    todo = beh
    results = {}
    metas = []
    traces = []
    rounds = 0
    while todo and rounds < 4:
        rounds += 1
        vlib.write_ndjson(bp, todo)
        vlib.run_bin("svc", ["seq", "--behaviours", bp, "--out", tp, "--meta", mp, "--results", rp, "--seed", chk.seed], timeout=3600)
        res = vlib.read_ndjson(rp)
        for x in res:
            results[x["id"]] = x
        ms = vlib.read_ndjson(mp)
        with open(tp) as f:
            lines = f.readlines()
        off = sum(len(t) for t in traces)
        for m in ms:
            m["first_line"] += off
            m["last_line"] += off
        metas += ms
        traces.append(lines)
        todo = [b for b in todo if b["id"] not in results]  # the process stops when a handle drop hangs
    tall = os.path.join(chk.dir, "seq-trace-all.ndjson")
    mall = os.path.join(chk.dir, "seq-meta-all.ndjson")
    with open(tall, "w") as f:
        for t in traces:
            f.writelines(t)
    vlib.write_ndjson(mall, metas)
    bad = 0
    by_id = {b["id"]: b for b in beh}
    for i, x in sorted(results.items()):
        chk.evaluations += 1
        chk.nontrivial.add("seq:" + json.dumps([[s["op"], s["e"], s["mode"]] for s in by_id[i]["steps"]]))
        if x["mismatches"]:
            bad += 1
            m0 = x["mismatches"][0]
            chk.violation(f"sequential replay {i}: {m0.get('what')} (operation {m0.get('step')} {m0.get('op')}): "
                          f"expected {json.dumps(m0.get('expected', m0.get('expected_ok', m0.get('expected_some'))))}, "
                          f"got {json.dumps(m0.get('got', m0.get('got_ok', m0.get('got_some'))))}",
                          {"kind": "seq", "behaviour": by_id[i], "mismatches": x["mismatches"]},
                          key=f"X01:seq:{m0.get('op')}")
    chk.traces += len(results) - bad
    chk.extra["sequential_behaviours_replayed"] = len(results)
    chk.extra["sequential_behaviours_not_run"] = len(beh) - len(results)

    # the recorded traces of the replays are executions of the real program as well
    def on_reject(meta, v, lines):
        chk.violation(f"trace of sequential replay {meta['id']} is not a behaviour of Service.tla: " + reject_text(meta, v),
                      {"kind": "seq-trace", "behaviour": meta["scenario"], "event": v.event,
                       "trace": [json.loads(l) for l in lines]},
                      key=f"X01:seqtrace:{(v.event or {}).get('ev') if isinstance(v.event, dict) else v.invariant}")

    if q:
        # quick tier: the traces of a seeded sample of the exhaustive sequences and of all walks
        keep = set(chk.rng.sample(range(1, nex + 1), min(nex, 700))) | {b["id"] for b in beh[nex:]}
        sel = [m for m in metas if m["id"] in keep]
        msel = os.path.join(chk.dir, "seq-meta-sel.ndjson")
        vlib.write_ndjson(msel, sel)
        mall = msel
    acc = vlib.validate_scenarios(SPECD, "ServiceTrace", "ServiceTrace.cfg", tall, mall, on_reject, stats=chk.extra, chunk=100)
    chk.extra["sequential_traces_validated"] = acc
    chk.traces += acc
    chk.sample({"sequential_behaviour": [[s["op"], s["e"], s["mode"], s["ok"]] for s in beh[len(beh) // 2]["steps"]]})


# --------------------------------------------------------------------------------------------
# 3. T: free-running scenarios
# --------------------------------------------------------------------------------------------
def gen_scenarios(rng, n):
    out = []
    for i in range(n):
        kind = rng.choice(["graceful", "graceful", "graceful", "race", "race", "early", "guards", "lookup"])
        nh = rng.choice([1, 2, 2, 3, 4])
        budget = rng.choice([12, 40, 90, 120])
        per = max(1, budget // nh)
        handlers = [{"n": rng.randint(max(1, per // 2), per), "pace_us": rng.choice([0, 0, 20, 100])} for _ in range(nh)]
        modes = rng.choice([[2, 2, 1, 2, 2], [1, 0, 0, 0, 0], [0, 1, 0, 0, 0], [1, 1, 0, 0, 0], [0, 1, 2, 3, 3], [3, 1, 1, 1, 1]])
        sc = {"handlers": handlers, "modes": modes,
              "flushers": [{"count": rng.randint(1, 4), "delay_us": rng.randint(0, 1500), "gap_us": rng.randint(0, 800)}
                           for _ in range(rng.choice([0, 1, 1, 2]))],
              "flush_us": rng.choice([1, 200, 5000, 59_000_000]), "short": rng.choice([0, 0, 0, 7, 64]),
              "attach_delay_us": rng.choice([0, 0, 0, 100]), "end": "graceful", "hold_us": 0,
              "sub_delay_us": rng.choice([0, 50, 400]), "owner_delay_us": rng.choice([0, 0, 150]),
              "permille": rng.choice([0, 200, 600]), "max_us": rng.choice([50, 300]),
              "tokio": rng.random() < 0.25, "kind": kind}
        total = sum(h["n"] for h in handlers)
        if kind == "race":
            # the attach handle is dropped while requests are still arriving
            for h in handlers:
                h["pace_us"] = rng.choice([20, 50, 100])
            sc["end"] = "race"
            sc["hold_us"] = rng.randint(50, max(100, per * 60))
        elif kind == "early":
            # requests before the attach: handed back / no sink
            sc["attach_delay_us"] = rng.randint(100, 1500)
            for h in handlers:
                h["pace_us"] = rng.choice([20, 100])
        elif kind == "guards":
            # many guards outstanding when the handle is dropped
            sc["modes"] = [0, 0, 2, 3, 3]
            sc["end"] = "race"
            sc["sub_delay_us"] = rng.choice([500, 2000])
            sc["hold_us"] = rng.randint(200, 3000)
        elif kind == "lookup":
            # try_append hammering while the handle is dropped; only the point between the destination lookup
            # and the append is delayed
            sc["modes"] = rng.choice([[1, 0, 0, 0, 0], [3, 1, 0, 0, 0]])
            sc["handlers"] = [{"n": rng.randint(20, 40), "pace_us": rng.choice([0, 10, 30])} for _ in range(rng.choice([2, 3, 4]))]
            sc["end"] = "race"
            sc["hold_us"] = rng.randint(100, 1500)
            sc["tokio"] = False
            sc["lookup_permille"] = rng.choice([300, 700, 1000])
            sc["lookup_max_us"] = rng.choice([300, 1000, 3000])
            total = sum(h["n"] for h in sc["handlers"])
        sc["total"] = total
        out.append(sc)
    return out


def run_recorded(chk, scen, tag="rec"):
    sp = os.path.join(chk.dir, f"{tag}-scen.ndjson")
    tall = os.path.join(chk.dir, f"{tag}-trace.ndjson")
    mall = os.path.join(chk.dir, f"{tag}-meta.ndjson")
    metas, traces = [], []
    todo = scen
    rounds = 0
    while todo and rounds < 4:
        rounds += 1
        tp = os.path.join(chk.dir, f"{tag}-trace-{rounds}.ndjson")
        mp = os.path.join(chk.dir, f"{tag}-meta-{rounds}.ndjson")
        vlib.write_ndjson(sp, todo)
        vlib.run_bin("svc", ["run", "--scenarios", sp, "--out", tp, "--meta", mp], timeout=3600)
        ms = vlib.read_ndjson(mp)
        with open(tp) as f:
            lines = f.readlines()
        off = sum(len(t) for t in traces)
        for m in ms:
            m["first_line"] += off
            m["last_line"] += off
        metas += ms
        traces.append(lines)
        done = {m["id"] for m in metas}
        todo = [s for s in todo if s["id"] not in done]
    with open(tall, "w") as f:
        for t in traces:
            f.writelines(t)
    vlib.write_ndjson(mall, metas)

    def on_reject(meta, v, lines):
        ev = v.event if isinstance(v.event, dict) else {}
        chk.violation(f"recorded execution of scenario {meta['id']} ({meta['scenario'].get('kind')}) is not a behaviour of "
                      f"Service.tla: " + reject_text(meta, v),
                      {"kind": "recorded", "scenario": meta["scenario"], "rejected_line": v.rel_line, "event": v.event,
                       "trace": [json.loads(l) for l in lines]},
                      key=f"X01:{ev.get('ev') or v.invariant}:{meta['scenario'].get('kind')}")

    acc = vlib.validate_scenarios(SPECD, "ServiceTrace", "ServiceTrace.cfg", tall, mall, on_reject, stats=chk.extra, chunk=8)
    chk.traces += acc
    tot = {"requests": 0, "lines": 0, "try_err": 0, "no_sink": 0, "never_written": 0, "events": 0}
    modes = [0] * 5
    for m in metas:
        for k in tot:
            tot[k] += m[k]
        modes = [a + b for a, b in zip(modes, m["modes"])]
        chk.evaluations += m["requests"]
        s = m["scenario"]
        chk.nontrivial.add(json.dumps([s["kind"], len(s["handlers"]), s["modes"], s["flush_us"], s["tokio"], s["short"],
                                       m["requests"], m["lines"], m["try_err"], m["no_sink"], m["never_written"]]))
    for k, v in tot.items():
        chk.extra[f"recorded_{k}"] = chk.extra.get(f"recorded_{k}", 0) + v
    chk.extra["recorded_requests_by_mode"] = dict(zip(MODES, modes))
    chk.extra["recorded_scenarios"] = chk.extra.get("recorded_scenarios", 0) + len(metas)
    chk.extra["recorded_scenarios_not_run"] = len(scen) - len(metas)
    if metas:
        with open(tall) as f:
            head = [json.loads(next(f)) for _ in range(min(14, metas[0]["events"]))]
        chk.sample({"scenario": metas[0]["scenario"], "first_events": head})
    return tot


# --------------------------------------------------------------------------------------------
def run(prop, tier):
    chk = vlib.Check(prop, tier)
    chk.rule = ("evaluations = requests executed by the real service-shaped program in recorded scenarios + sequential "
                "behaviours replayed; traces = recorded scenarios accepted by TLC against ServiceTrace.tla + sequential "
                "behaviours whose results / output equal TLC's + their traces; distinct_nontrivial = distinct (scenario "
                "parameters, outcome counts) resp. distinct operation sequences")
    chk.assumptions = [
        "composition of property layers: QueueAbs (C01 C04 C05), GlobalDetach (C17), unit-of-work glue (C06 C13), EMF glue (C02 C03 C08)",
        "one attach / detach cycle per scenario; queue capacity above the number of requests (no overflow: C09 is separate)",
        "every request has its own manually advanced clock; a sub-task advances it only while its guard delays the append",
        "entries are valid (no validation failure path: C08), the io::Write never fails (C16)",
        "FlushDone is logged from the waker (writer thread); termination is observed with a 10 s budget",
        "TLC results are exhaustive only within the constants of MC_svc*.cfg",
    ]
    import time
    vlib.cargo_build(["svc"])
    t0 = time.time()
    if not vlib.SKIP_MC:
        model_check(chk, tier)
    t1 = time.time()
    run_replay(chk, tier)
    t2 = time.time()
    rng = random.Random(chk.seed * 7919 + 101)
    scen = gen_scenarios(rng, 80 if tier == "quick" else 1500)
    for i, s in enumerate(scen):
        s["id"] = i + 1
        s["seed"] = chk.seed * 100000 + i
    tot = run_recorded(chk, scen)
    chk.extra["wall_model_checking_s"] = round(t1 - t0, 1)
    chk.extra["wall_sequential_replay_s"] = round(t2 - t1, 1)
    chk.extra["wall_recorded_s"] = round(time.time() - t2, 1)
    log(f"[X01] model checking {t1 - t0:.0f}s, sequential replay {t2 - t1:.0f}s, recorded scenarios {time.time() - t2:.0f}s")
    rc = chk.finish()
    # vacuity of the recorded part: the races must actually have happened
    if rc == 0:
        for k in ("try_err", "no_sink", "never_written", "lines"):
            if tot[k] == 0:
                raise vlib.ToolError(f"vacuity: no recorded scenario had {k} > 0")
    return rc


def replay(prop, path):
    """Re-validate the stored trace of a violation file and re-run its scenario / behaviour."""
    with open(path) as f:
        v = json.load(f)
    rp = v["replay"]
    d = vlib.rundir(prop + "-replay")
    rc = 0
    if "trace" in rp:
        tp = os.path.join(d, "trace.ndjson")
        vlib.write_ndjson(tp, rp["trace"])
        r = vlib.validate_trace(SPECD, "ServiceTrace", "ServiceTrace.cfg", tp)
        log("stored trace:", "ACCEPTED" if r.accepted else f"REJECTED at line {r.line}: {r.event} {r.state}")
        rc = 0 if r.accepted else 1
    vlib.cargo_build(["svc"])
    chk = vlib.Check(prop + "-replay", "quick")
    if rp.get("kind") == "recorded":
        scen = [dict(rp["scenario"], id=i + 1, seed=rp["scenario"].get("seed", 1) + i) for i in range(10)]
        run_recorded(chk, scen, tag="replay")
    else:
        b = rp["behaviour"]
        bp, tp, mp, op = (os.path.join(d, x) for x in ("b.ndjson", "t.ndjson", "m.ndjson", "r.ndjson"))
        vlib.write_ndjson(bp, [dict(b, id=i + 1) for i in range(5)])
        vlib.run_bin("svc", ["seq", "--behaviours", bp, "--out", tp, "--meta", mp, "--results", op, "--seed", chk.seed])
        for x in vlib.read_ndjson(op):
            if x["mismatches"]:
                log("replayed behaviour:", json.dumps(x["mismatches"][0]))
                chk.violations.append(x)
        if not chk.violations:
            log("replayed behaviour: results and output equal TLC's on the current tree (5 executions)")
    return 1 if chk.violations or rc else 0
