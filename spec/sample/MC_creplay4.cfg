CONSTANTS
  Groups = {1, 2}
  Vols = {0, 1, 4, 12}
  MaxIntervals = 4
  Targets = {5}
  Ttl = 8
  Depth = 4
  OnlyEnds = FALSE
  SortFirst = TRUE
SPECIFICATION RSpec
INVARIANT Emit
INVARIANT CInv
CONSTRAINT Bound
CHECK_DEADLOCK FALSE
