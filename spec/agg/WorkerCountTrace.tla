------------------------- MODULE WorkerCountTrace -------------------------
(***************************************************************************)
(* Trace validation (T direction) for C10, worker sink under sustained     *)
(* load: the counting form of WorkerAbs.  2-3 producers send several       *)
(* 100 000 entries each into a real WorkerSink<KeyedAggregator> whose      *)
(* flush interval is 50-200 us, so one event per entry is out of the       *)
(* question; the harness logs milestones only and the properties of        *)
(* WorkerAbs are checked on counts:                                        *)
(*   Progress(p, n)   at least n sends of producer p have returned         *)
(*   Sent(p, n, w)    p has finished: n entries of total weight w          *)
(*   FlushReq(q) / FlushDone(q, en)   a flush().await; en = total count of *)
(*                    the aggregates emitted so far, read after it         *)
(*                    returned.  Barrier: en >= every send known to have   *)
(*                    returned before the request (sum of the milestones)  *)
(*   HandleDrop, Exited | WorkerPanic   the inner aggregator was dropped   *)
(*                    by the worker leaving its loop / by the worker       *)
(*                    thread unwinding.  A panic is data, not a verdict.   *)
(*   Final(en, ew)    emitted totals after the worker is gone.             *)
(*                    Conservation: every merged input is reflected        *)
(*                    exactly once: en = sum of n, ew = sum of w           *)
(* FlushFailed / FlushTimeout / ExitTimeout are consumed by no action.     *)
(***************************************************************************)
EXTENDS Naturals, Sequences, FiniteSets, TLC, Json, IOUtils

Rec == ndJsonDeserialize(IOEnv.TRACE)
N == Len(Rec)

VARIABLES l,
          prog,     \* producer -> sends known to have returned
          fin,      \* producer -> [n, w] once it has finished
          need,     \* flush request -> sends known to have returned when it was made
          fdone, handles, exited, panicked, nprod
vars == <<l, prog, fin, need, fdone, handles, exited, panicked, nprod>>

RECURSIVE SumF(_, _)
SumF(f, S) == IF S = {} THEN 0 ELSE LET x == CHOOSE x \in S : TRUE IN f[x] + SumF(f, S \ {x})
Known == SumF(prog, DOMAIN prog)

Ev(name) == l <= N /\ Rec[l].ev = name
Adv == l' = l + 1

TInit == /\ l = 1 /\ prog = <<>> /\ fin = <<>> /\ need = <<>> /\ fdone = {} /\ handles = 0 /\ exited = FALSE
         /\ panicked = FALSE /\ nprod = 0 /\ TLCSet(1, 1) /\ TLCSet(2, <<>>)

TReset == /\ Ev("Reset") /\ Adv
          /\ prog' = [p \in 1..Rec[l].producers |-> 0] /\ fin' = <<>> /\ need' = <<>> /\ fdone' = {}
          /\ handles' = Rec[l].handles /\ exited' = FALSE /\ panicked' = FALSE /\ nprod' = Rec[l].producers

TProgress == /\ Ev("Progress") /\ Adv /\ Rec[l].p \in DOMAIN prog /\ Rec[l].n >= prog[Rec[l].p]
             /\ Rec[l].p \notin DOMAIN fin
             /\ prog' = [prog EXCEPT ![Rec[l].p] = Rec[l].n]
             /\ UNCHANGED <<fin, need, fdone, handles, exited, panicked, nprod>>
TSent == /\ Ev("Sent") /\ Adv /\ Rec[l].p \in DOMAIN prog /\ Rec[l].p \notin DOMAIN fin /\ Rec[l].n >= prog[Rec[l].p]
         /\ prog' = [prog EXCEPT ![Rec[l].p] = Rec[l].n]
         /\ fin' = fin @@ (Rec[l].p :> [n |-> Rec[l].n, w |-> Rec[l].w])
         /\ UNCHANGED <<need, fdone, handles, exited, panicked, nprod>>
TFlushReq == /\ Ev("FlushReq") /\ Adv /\ Rec[l].q \notin DOMAIN need /\ handles > 0
             /\ need' = need @@ (Rec[l].q :> Known)
             /\ UNCHANGED <<prog, fin, fdone, handles, exited, panicked, nprod>>
\* flush().await completes only after everything sent before the request has been emitted
TFlushDone == /\ Ev("FlushDone") /\ Adv /\ Rec[l].q \in DOMAIN need /\ Rec[l].q \notin fdone
              /\ Rec[l].en >= need[Rec[l].q]
              /\ fdone' = fdone \cup {Rec[l].q}
              /\ UNCHANGED <<prog, fin, need, handles, exited, panicked, nprod>>
THandleDrop == /\ Ev("HandleDrop") /\ Adv /\ handles > 0 /\ handles' = handles - 1
               /\ UNCHANGED <<prog, fin, need, fdone, exited, panicked, nprod>>
\* the worker leaves its loop only when every handle is gone
TExited == /\ Ev("Exited") /\ Adv /\ ~exited /\ handles = 0 /\ exited' = TRUE
           /\ UNCHANGED <<prog, fin, need, fdone, handles, panicked, nprod>>
\* the worker thread died: recorded, judged by what it did to the output (Final, FlushDone)
TWorkerPanic == /\ Ev("WorkerPanic") /\ Adv /\ ~exited /\ exited' = TRUE /\ panicked' = TRUE
                /\ UNCHANGED <<prog, fin, need, fdone, handles, nprod>>
\* conservation: each merged input is reflected exactly once in what was emitted
TFinal == /\ Ev("Final") /\ Adv /\ exited /\ handles = 0 /\ DOMAIN fin = 1..nprod
          /\ Rec[l].en = SumF([p \in DOMAIN fin |-> fin[p].n], DOMAIN fin)
          /\ Rec[l].ew = SumF([p \in DOMAIN fin |-> fin[p].w], DOMAIN fin)
          /\ UNCHANGED <<prog, fin, need, fdone, handles, exited, panicked, nprod>>
TQuiesce == /\ Ev("Quiesce") /\ Adv /\ DOMAIN need = fdone /\ exited
            /\ UNCHANGED <<prog, fin, need, fdone, handles, exited, panicked, nprod>>

TNext_ == TReset \/ TProgress \/ TSent \/ TFlushReq \/ TFlushDone \/ THandleDrop \/ TExited \/ TWorkerPanic
          \/ TFinal \/ TQuiesce
TSpec == TInit /\ [][TNext_]_vars

Track ==
    /\ IF l > TLCGet(1) THEN TLCSet(1, l) /\ TLCSet(2, <<prog, fin, need, fdone, handles, exited, panicked>>) ELSE TRUE
    /\ IF l = N + 1 THEN TLCSet("exit", TRUE) ELSE TRUE
Accepted ==
    IF TLCGet(1) = N + 1 THEN PrintT(<<"ACCEPTED", N>>)
    ELSE /\ PrintT(<<"REJECTED", TLCGet(1), ToJson(Rec[TLCGet(1)]), TLCGet(2)>>)
         /\ FALSE
CountInv == handles >= 0
=============================================================================
