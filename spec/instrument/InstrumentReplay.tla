--------------------------- MODULE InstrumentReplay ---------------------------
(***************************************************************************)
(* Behaviour generator for Instrument.tla: every history up to MaxLen steps  *)
(* (BFS over the history variable), each step with the observation the       *)
(* public API offers after it: the entries in the sink, the value handed to  *)
(* the caller, whether the future is still pending, and the content of the   *)
(* metrics object where the caller can read it (parts / split target).       *)
(* Only maximal histories (no step enabled or MaxLen reached) are printed.   *)
(***************************************************************************)
EXTENDS Instrument, Json

CONSTANT MaxLen
VARIABLE hist
rvars == <<cfg, loc, m, seg, ncb, val, via, emitted, hist>>

Obs == [emitted |-> emitted, val |-> val, pending |-> loc = "future",
        readable |-> IF loc \in {"parts", "target"} THEN <<m>> ELSE <<>>, loc |-> loc]

Step(a, args) == hist' = Append(hist, [a |-> a, args |-> args, obs |-> Obs'])

RInit == Init /\ hist = <<>>
RNext ==
    /\ Len(hist) < MaxLen
    /\ \/ \E mode \in {"sync", "async"}, u \in {"plain", "guard"}, out \in {"ok", "err"}, y \in 0..MaxYields, pre \in BOOLEAN :
             Start(mode, u, out, y, pre) /\ Step("Start", [mode |-> mode, u |-> u, out |-> out, y |-> y, pre |-> pre])
       \/ Poll /\ Step("Poll", [x |-> 0])
       \/ DropFuture /\ Step("DropFuture", [x |-> 0])
       \/ \E w \in {"on_error", "on_success", "finalize"} : Callback(w) /\ Step("Callback", [which |-> w])
       \/ Emit /\ Step("Emit", [x |-> 0])
       \/ IntoParts /\ Step("IntoParts", [x |-> 0])
       \/ Touch /\ Step("Touch", [x |-> 0])
       \/ DropParts /\ Step("DropParts", [x |-> 0])
       \/ SplitTo /\ Step("SplitTo", [x |-> 0])
       \/ DropTarget /\ Step("DropTarget", [x |-> 0])
       \/ Discard /\ Step("Discard", [x |-> 0])
       \/ DropInst /\ Step("DropInst", [x |-> 0])
RSpec == RInit /\ [][RNext]_rvars

Maximal == Len(hist) = MaxLen \/ loc = "gone"
Emit_ == /\ Inv
         /\ (Maximal /\ hist # <<>>) => PrintT(<<"REPLAY", ToJson(hist)>>)
=============================================================================
