-------------------------- MODULE EmfHistoryReplay --------------------------
(***************************************************************************)
(* Behaviour generator for EmfHistory (C14): sequences of calls            *)
(* (entry kind, writer fault) for every configuration, printed as one JSON *)
(* line together with the decision the model predicts for each position.   *)
(* The harness (emfh) formats the sequence with ONE long-lived real        *)
(* formatter and compares every position with a freshly built one.         *)
(*                                                                         *)
(*   Depth      length of the sequences (exhaustive BFS over the history   *)
(*              variable), printed at full length only                     *)
(*   Configs    the configurations enumerated                              *)
(*   FaultAt    positions (0-based) at which the writer may fail; at the   *)
(*              others it never fails.  Pairs: {0} = (kind x fault) ->     *)
(*              kind; triples: {1} = kind -> (kind x fault) -> kind        *)
(*   FaultMod   > 0: walks (`-simulate`): the writer may fail at every     *)
(*              position p with p % FaultMod = 1                           *)
(*   NoHuge     configurations whose sequences leave out the               *)
(*              multi-megabyte kind (it is the only expensive one)         *)
(***************************************************************************)
EXTENDS EmfHistory, Json

CONSTANTS Depth, Configs, FaultAt, FaultMod, NoHuge
VARIABLES hist, cn

MayFault == IF FaultMod > 0 THEN Len(hist) % FaultMod = 1 ELSE Len(hist) \in FaultAt
RInit == /\ cn \in Configs /\ c = Cfg[cn] /\ f = F0 /\ hist = <<>>
RNext == /\ Len(hist) < Depth
         /\ \E k \in KindNames, w \in Faults :
              /\ w # "none" => MayFault
              /\ k = "huge" => cn \notin NoHuge
              /\ Format(k, w)
              /\ hist' = Append(hist, <<k, w>>)
              /\ UNCHANGED cn
RSpec == RInit /\ [][RNext]_<<vars, hist, cn>>

Bound == Len(hist) <= Depth
Emit == (Len(hist) = Depth) =>
          PrintT(<<"REPLAY", ToJson([cfg |-> cn,
                                     kinds |-> [i \in 1..Len(hist) |-> hist[i][1]],
                                     faults |-> [i \in 1..Len(hist) |-> hist[i][2]],
                                     pred |-> [i \in 1..Len(hist) |-> Pred(cn, hist[i][1], hist[i][2])],
                                     lines |-> [i \in 1..Len(hist) |-> PredLines(cn, hist[i][1], hist[i][2])]])>>)
=============================================================================
