\* NEGATIVE configuration: drain passes that end with a rejected entry are not credited - EbwExact must be violated
\* one flush request, the deadline may pass at any time (K = 1: the clock is read after every entry)
CONSTANTS
  Producers = {1}
  MaxApp = 4
  Cap = 2
  Flushers = {1}
  K = 1
  Results = {"ok", "io"}
  AllowForget = FALSE
  AllowTick = TRUE
CONSTANT UnderCount <- BugOn
SPECIFICATION Spec
INVARIANTS TypeOK AbsInv BoundedBatch EbwExact NoParkWithWaiters
CHECK_DEADLOCK FALSE
