CONSTANTS
  Slots = {1, 2, 3}
  Ds = {0, 1, 2, 7}
  MaxClock = 100000000
  W0 = 5
  W0B = 9000000
  Ambients = {"A", "B", "none"}
  Threads = {"main", "other"}
  Resolution = "captured"
  UnwindDrops = TRUE
  Depth = 2000
SPECIFICATION RSpec
INVARIANT Emit
INVARIANT SwInv
CONSTRAINT Bound
CHECK_DEADLOCK FALSE
