CONSTANTS
  Configs <- ConfigsDq
  InitEntries <- Catalogue
  NextCalls <- NextNone
  MaxCalls = 0
SPECIFICATION Spec
INVARIANT TypeOK
INVARIANT WellFormed
INVARIANT Sound
INVARIANT Transparent
INVARIANT RejectIff
INVARIANT UnroutableReport
INVARIANT Faithful
INVARIANT Emit
CHECK_DEADLOCK FALSE
