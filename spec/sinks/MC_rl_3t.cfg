CONSTANTS
  Threads = {1, 2, 3}
  TicksPerSec = 2
  IntervalTicks = 3
  MaxTime = 6
  MaxAttempts = 2
  Bug = "none"
SPECIFICATION Spec
INVARIANTS Spaced FirstCalls Monotone Due
CHECK_DEADLOCK FALSE
