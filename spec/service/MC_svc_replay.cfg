\* every sequence of 6 operations (at most 3 requests)
CONSTANTS
  Depth = 6
  MaxReq = 3
  RModes = {"try", "guard", "fg", "wait", "disc"}
SPECIFICATION RSpec
INVARIANTS Emit SvcInv
CONSTRAINT Bound
CHECK_DEADLOCK FALSE
