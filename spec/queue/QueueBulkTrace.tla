------------------------- MODULE QueueBulkTrace -------------------------
(***************************************************************************)
(* Interval view of a recorded execution with tens of thousands of entries *)
(* appended by ONE producer in increasing id order (C09 for capacities     *)
(* beyond what the per-entry trace specs can hold): appends are logged as  *)
(* AppBulk{a,b} (ids a..b appended, in order), hand-offs to the stream as  *)
(* NextRange{a,b} (ids a..b handed over one after the other).              *)
(*   - ids are handed over in strictly increasing order (append order,     *)
(*     nothing twice),                                                     *)
(*   - an entry is lost only if at least `cap` newer entries were appended:*)
(*     every id that was never handed over is <= hi - cap,                 *)
(*   - the overflow counter equals appended - handed over,                 *)
(*   - only appended ids are handed over.                                  *)
(* The last three are evaluated at the Overflows event, after the join     *)
(* handle has been dropped (everything appended is then written or lost).  *)
(***************************************************************************)
EXTENDS Integers, Sequences, TLC, Json, IOUtils

Rec == ndJsonDeserialize(IOEnv.TRACE)
N == Len(Rec)

VARIABLES l, cap, first, hi, handed, firstH, lastH, maxLost, closed, dropEnded
bvars == <<l, cap, first, hi, handed, firstH, lastH, maxLost, closed, dropEnded>>

Ev(name) == l <= N /\ Rec[l].ev = name
Adv == l' = l + 1

BInit == l = 1 /\ cap = 1 /\ first = 0 /\ hi = 0 /\ handed = 0 /\ firstH = 0 /\ lastH = 0 /\ maxLost = 0
         /\ closed = FALSE /\ dropEnded = FALSE /\ TLCSet(1, 1) /\ TLCSet(2, "nothing consumed")

BReset == Ev("Reset") /\ Adv /\ cap' = Rec[l].cap /\ first' = 0 /\ hi' = 0 /\ handed' = 0 /\ firstH' = 0 /\ lastH' = 0
          /\ maxLost' = 0 /\ closed' = FALSE /\ dropEnded' = FALSE

\* the producer appended ids a..b, continuing where it stopped
BAppBulk == /\ Ev("AppBulk") /\ Adv
            /\ Rec[l].a <= Rec[l].b
            /\ (hi # 0 => Rec[l].a = hi + 1)
            /\ ~dropEnded
            /\ first' = (IF first = 0 THEN Rec[l].a ELSE first)
            /\ hi' = Rec[l].b
            /\ UNCHANGED <<cap, handed, firstH, lastH, maxLost, closed, dropEnded>>

\* ids a..b were handed to the stream, one after the other: after everything handed over before
BNextRange == /\ Ev("NextRange") /\ Adv /\ ~closed
              /\ Rec[l].a <= Rec[l].b
              /\ Rec[l].a > lastH
              /\ handed' = handed + (Rec[l].b - Rec[l].a + 1)
              \* the ids between the previous hand-off and this one are lost for good
              /\ maxLost' = (IF lastH # 0 /\ Rec[l].a > lastH + 1 THEN Rec[l].a - 1 ELSE maxLost)
              /\ lastH' = Rec[l].b
              /\ firstH' = (IF firstH = 0 THEN Rec[l].a ELSE firstH)
              /\ UNCHANGED <<cap, first, hi, closed, dropEnded>>

BClose == Ev("Close") /\ Adv /\ closed' = TRUE /\ UNCHANGED <<cap, first, hi, handed, firstH, lastH, maxLost, dropEnded>>
BDropEnd == Ev("DropEnd") /\ Adv /\ closed /\ dropEnded' = TRUE
            /\ UNCHANGED <<cap, first, hi, handed, firstH, lastH, maxLost, closed>>

Appended == IF hi = 0 THEN 0 ELSE hi - first + 1
Max2(a, b) == IF a >= b THEN a ELSE b
\* the newest appended id that never reached the stream (0 = none): the tail after the last hand-off,
\* a gap between two hand-off ranges, or what precedes the first hand-off
NewestLost == Max2(IF lastH < hi THEN hi ELSE 0,
                   Max2(maxLost, IF firstH > first THEN firstH - 1 ELSE 0))
BOverflows == /\ Ev("Overflows") /\ Adv
              /\ dropEnded
              /\ lastH <= hi /\ (handed > 0 => (first # 0 /\ firstH >= first))
              \* lost only if at least `cap` newer entries were appended
              /\ (NewestLost # 0 => hi - NewestLost >= cap)
              /\ Rec[l].n = Appended - handed
              /\ UNCHANGED <<cap, first, hi, handed, firstH, lastH, maxLost, closed, dropEnded>>

BSkip == /\ l <= N
         /\ Rec[l].ev \in {"Flush", "FlushReq", "FlushDone", "DropStart", "SinkDrop", "Quiesce"}
         /\ Adv /\ UNCHANGED <<cap, first, hi, handed, firstH, lastH, maxLost, closed, dropEnded>>

BNext_ == BReset \/ BAppBulk \/ BNextRange \/ BClose \/ BDropEnd \/ BOverflows \/ BSkip
BSpec == BInit /\ [][BNext_]_bvars

Track == /\ IF l > TLCGet(1) THEN TLCSet(1, l) /\ TLCSet(2, <<cap, first, hi, handed, firstH, lastH, maxLost, closed, dropEnded>>) ELSE TRUE
         /\ IF l = N + 1 THEN TLCSet("exit", TRUE) ELSE TRUE
Accepted ==
    IF TLCGet(1) = N + 1 THEN PrintT(<<"ACCEPTED", N>>)
    ELSE /\ PrintT(<<"REJECTED", TLCGet(1), ToJson(Rec[TLCGet(1)]), TLCGet(2)>>)
         /\ FALSE
=============================================================================
