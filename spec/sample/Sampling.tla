------------------------------ MODULE Sampling ------------------------------
(***************************************************************************)
(* C12 - sampling is consistent and unbiased.  Exact rational arithmetic   *)
(* on integer pairs <<num, den>> (den > 0, lowest terms).                   *)
(*                                                                         *)
(* (i)   Decide(draw, rate)   FixedFractionSample / CongressSample::format: *)
(*       emit iff draw <= rate (always when rate = 1); the rate is handed   *)
(*       on unchanged.                                                      *)
(* (ii)  RateToN(p, q)        emf.rs rate_to_n_alpha / rate_to_n for the    *)
(*       rate p/q: n = floor(q/p), alpha = ((n+1) p - q) / p, weight n if   *)
(*       draw < alpha else n+1.  Powers of two 2^-k symbolically (k is the  *)
(*       number): weight 2^k, saturating at 2^64-1 for rates below 2^-63.   *)
(* (iii) Congress             CongressSample::update_rates, as a state      *)
(*       machine over per-interval volumes per group: moving average (the   *)
(*       exact running mean for the first 16 samples), TTL for silent       *)
(*       groups, the house/senate apportionment and the final scaling.      *)
(***************************************************************************)
EXTENDS Integers, Sequences, FiniteSets, TLC

---------------------------------------------------------------------------
\* rationals
RECURSIVE Gcd(_, _)
Gcd(a, b) == IF b = 0 THEN a ELSE Gcd(b, a % b)
R(n, d) == LET g == Gcd(n, d) IN <<n \div g, d \div g>>          \* n >= 0, d > 0
RInt(n) == <<n, 1>>
RAdd(x, y) == LET g == Gcd(x[2], y[2])                            \* over the least common denominator
              IN R(x[1] * (y[2] \div g) + y[1] * (x[2] \div g), (x[2] \div g) * y[2])
RMul(x, y) == LET a == R(x[1], y[2])                               \* cross-cancel first: keeps the products small
                  b == R(y[1], x[2])
              IN <<a[1] * b[1], a[2] * b[2]>>
RDiv(x, y) == RMul(x, <<y[2], y[1]>>)                              \* y > 0
RLe(x, y) == LET g == Gcd(x[2], y[2]) IN x[1] * (y[2] \div g) <= y[1] * (x[2] \div g)
RLt(x, y) == LET g == Gcd(x[2], y[2]) IN x[1] * (y[2] \div g) < y[1] * (x[2] \div g)
\* x <= t for an integer t, without multiplying
RLeInt(x, t) == x[1] \div x[2] < t \/ (x[1] \div x[2] = t /\ x[1] % x[2] = 0)
RMin(x, y) == IF RLe(x, y) THEN x ELSE y
ROne == <<1, 1>>

---------------------------------------------------------------------------
\* (i) the sampling decision
Decide(draw, rate) == RLe(draw, rate)
Forwarded(rate) == rate

---------------------------------------------------------------------------
\* (ii) rate -> integer weight.  rate = p/q with 1 <= p <= q
N(p, q) == q \div p
AlphaNum(p, q) == (N(p, q) + 1) * p - q                            \* alpha = AlphaNum / p
Weight(p, q, draw) == IF RLt(draw, <<AlphaNum(p, q), p>>) THEN N(p, q) ELSE N(p, q) + 1
RECURSIVE SumWeights(_, _, _)
SumWeights(p, q, k) == IF k = p THEN 0 ELSE Weight(p, q, <<k, p>>) + SumWeights(p, q, k + 1)
RateToNOK(p, q) ==
    LET n == N(p, q)
        a == AlphaNum(p, q)
    IN /\ n >= 1 /\ n * p <= q /\ q < (n + 1) * p                  \* n = floor(1/rate)
       /\ 0 < a /\ a <= p                                          \* alpha in (0, 1]
       /\ n * a + (n + 1) * (p - a) = q                            \* n alpha + (n+1)(1-alpha) = 1/rate
       /\ (q % p = 0) => (a = p /\ n * p = q)                      \* 1/rate integral: always exactly 1/rate
       /\ (q % p # 0) => (n + 1) * p > q                           \* else floor or ceiling
       /\ p <= 64 => SumWeights(p, q, 0) = q                       \* mean weight over p equally likely draws k/p is q/p
       /\ p = q => \A k \in 0..3 : Weight(p, q, <<k, 4>>) = 1      \* rate 1: weight 1 whatever the draw

\* rate = 2^-k: 1/rate = 2^k.  rate_to_n saturates for rate < 1/(i64::MAX as f32) = 2^-63
Pow2Sat(k) == k > 63
Pow2Row(k) == [k |-> k, sat |-> Pow2Sat(k), wexp |-> IF Pow2Sat(k) THEN 64 ELSE k,
               floor_or_ceil |-> k < 53]                           \* 1/rate below 2^53: the weight is exactly 2^k

---------------------------------------------------------------------------
\* (iii) congressional sampling
CONSTANTS Groups, Vols, MaxIntervals, Targets, Ttl

VARIABLES target,     \* target entries per interval
          iv,         \* intervals ended
          present,    \* groups tracked
          sum, cnt,   \* moving average of a tracked group = sum / cnt  (running mean, cnt <= 16)
          silent,     \* consecutive intervals without an observation
          rate,       \* Groups -> rational
          last        \* volume of the interval that just ended, per group

cvars == <<target, iv, present, sum, cnt, silent, rate, last>>

Avg(g) == R(sum[g], cnt[g])
RECURSIVE SumOver(_, _)
SumOver(f, S) == IF S = {} THEN 0 ELSE LET x == CHOOSE x \in S : TRUE IN f[x] + SumOver(f, S \ {x})
RECURSIVE RSumOver(_, _)
RSumOver(f, S) == IF S = {} THEN <<0, 1>> ELSE LET x == CHOOSE x \in S : TRUE IN RAdd(f[x], RSumOver(f, S \ {x}))

CInit == /\ target \in Targets /\ iv = 0 /\ present = {}
         /\ sum = [g \in Groups |-> 0] /\ cnt = [g \in Groups |-> 0] /\ silent = [g \in Groups |-> 0]
         /\ rate = [g \in Groups |-> ROne] /\ last = [g \in Groups |-> 0]

\* update_rates, given the state after update_and_retain
Rates(T, C, P, s, c) ==
    IF C <= T THEN [g \in Groups |-> ROne]
    ELSE LET avg == [g \in P |-> R(s[g], c[g])]
             flat == R(T, C)
             senate == R(T, Cardinality(P))
             size == [g \in P |-> LET house == RMul(flat, avg[g])
                                  IN IF RLt(house, senate) THEN RMin(avg[g], senate) ELSE house]
             scale == RDiv(RInt(T), RSumOver(size, P))
         IN [g \in Groups |-> IF g \in P THEN RMin(RDiv(RMul(size[g], scale), avg[g]), ROne) ELSE ROne]

EndInterval(vol) ==
    /\ iv < MaxIntervals
    /\ iv' = iv + 1
    /\ LET seen == {g \in Groups : vol[g] > 0}
           gone == {g \in present \ seen : silent[g] >= Ttl}
           P == (present \cup seen) \ gone
           s == [g \in Groups |-> IF g \in seen THEN (IF g \in present THEN sum[g] ELSE 0) + vol[g]
                                  ELSE IF g \in gone THEN 0 ELSE sum[g]]
           c == [g \in Groups |-> IF g \in seen THEN (IF g \in present THEN cnt[g] ELSE 0) + 1
                                  ELSE IF g \in gone THEN 0 ELSE cnt[g]]
       IN /\ present' = P /\ sum' = s /\ cnt' = c
          /\ silent' = [g \in Groups |-> IF g \in seen \/ g \in gone THEN 0 ELSE IF g \in present THEN silent[g] + 1 ELSE 0]
          /\ rate' = Rates(target, SumOver(vol, Groups), P, s, c)
    /\ last' = vol
    /\ UNCHANGED target

CNext == \E vol \in [Groups -> Vols] : EndInterval(vol)
CSpec == CInit /\ [][CNext]_cvars

LastTotal == SumOver(last, Groups)
InUnit == \A g \in present : rate[g][1] > 0 /\ RLeInt(rate[g], 1)
AllOneBelowTarget == LastTotal <= target => \A g \in Groups : rate[g] = ROne
Budget == LastTotal > target =>
            RLeInt(RSumOver([g \in present |-> RMul(Avg(g), rate[g])], present), target)
Monotone == LastTotal > target =>
            \A g \in present : \A h \in present : RLe(Avg(g), Avg(h)) => RLe(rate[h], rate[g])
RunningMean == \A g \in present : cnt[g] >= 1 /\ cnt[g] <= 16 /\ sum[g] >= cnt[g]
CInv == InUnit /\ AllOneBelowTarget /\ Budget /\ Monotone /\ RunningMean
GroupSym == Permutations(Groups)
=============================================================================
