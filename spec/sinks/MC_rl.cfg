CONSTANTS
  Threads = {1, 2}
  TicksPerSec = 2
  IntervalTicks = 2
  MaxTime = 6
  MaxAttempts = 3
  Bug = "none"
SPECIFICATION Spec
INVARIANTS Spaced FirstCalls Monotone Due
CHECK_DEADLOCK FALSE
