"""X03(a): TLC behaviours of spec/entryderive/EntryDerive.tla -> Rust programs that use the real
`#[derive(Entry)]` (metrique-writer-macro), one value per finished type tree.

A behaviour is a depth-first token list
    {"t":"C","form":..,"ra":..,"vra":..}                  root container
    {"t":"F","k":kind}                                     value field of the open container
    {"t":"O","edge":..,"form":..,"ra":..,"vra":..}         #[entry(flatten)] field + descend (edge "none": no descent)
    {"t":"X"}                                              back to the parent
Identifiers, override strings and values are fixed by (depth, position) / depth-first index exactly as in the
specification (Written / Override / Id), so the names TLC computed are the names the program must emit.
Container types are shared between behaviours of one program (keyed by their full definition).
"""
import os

DEPTH_WORD = ["top", "mid", "low", "sub"]
IDX_WORD = ["one", "two", "three", "four", "five", "six", "seven", "eight", "nine", "ten", "eleven", "twelve",
            "thirteen", "fourteen", "fifteen", "sixteen"]
STRUCT_FORMS = ("s_named", "s_tuple", "s_unit")


def shape_of(form):
    return form.split("_")[1]


def written(d, i):
    a, b = DEPTH_WORD[d - 1], IDX_WORD[i - 1]
    return f"{a}_{b}" if i % 2 == 1 else a + b.capitalize()


def override(d, i):
    return f"Ov.{DEPTH_WORD[d - 1].capitalize()}-{IDX_WORD[i - 1]}_Raw"


class Node:
    __slots__ = ("form", "ra", "vra", "fields", "depth")

    def __init__(self, form, ra, vra, depth):
        self.form, self.ra, self.vra, self.depth = form, ra, vra, depth
        self.fields = []        # ("F", kind) | ("O", edge, Node | None)


def parse(toks):
    """token list -> root Node"""
    t0 = toks[0]
    root = Node(t0["form"], t0["ra"], t0["vra"], 1)
    stack = [root]
    for t in toks[1:]:
        if t["t"] == "F":
            stack[-1].fields.append(("F", t["k"]))
        elif t["t"] == "O":
            if t["edge"] == "none":
                stack[-1].fields.append(("O", "none", None))
            else:
                c = Node(t["form"], t["ra"], t["vra"], len(stack) + 1)
                stack[-1].fields.append(("O", t["edge"], c))
                stack.append(c)
        elif t["t"] == "X":
            stack.pop()
        else:
            raise ValueError(f"unknown token {t}")
    return root


def rust_str(s):
    return '"' + s.replace("\\", "\\\\").replace('"', '\\"') + '"'


class Program:
    """One generated binary: a set of shared container types + one instance per behaviour."""

    def __init__(self, name, metrique_path):
        self.bin = name
        self.metrique_path = metrique_path      # False: metrique_writer::Entry, True: metrique::writer::Entry
        self.types = {}                         # signature -> type name
        self.defs = []
        self.instances = []                     # (id, expr)
        self.nfields = 0

    # ---- types
    def type_of(self, node):
        fsigs = []
        ftypes = []
        for f in node.fields:
            if f[0] == "F":
                fsigs.append(f[1])
                ftypes.append(None)
            else:
                ct = "Canary" if f[2] is None else self.type_of(f[2])
                fsigs.append(f"{f[1]}>{ct}")
                ftypes.append(ct)
        sig = (node.depth, node.form, node.ra, node.vra, tuple(fsigs))
        if sig in self.types:
            return self.types[sig]
        name = f"T{len(self.types)}"
        self.types[sig] = name
        self.defs.append(self.define(name, node, ftypes))
        return name

    def field_decl(self, node, i, f, ftype, tuple_shape):
        d = node.depth
        ident = written(d, i)
        if f[0] == "O":
            ty = {"plain": ftype, "box": f"Box<{ftype}>", "some": f"Option<{ftype}>", "none": f"Option<{ftype}>"}[f[1]]
            attr = "#[entry(flatten)]"
        else:
            k = f[1]
            named = k.endswith("@")
            b = k.rstrip("@")
            parts = []
            if named:
                parts.append(f"name = {rust_str(override(d, i))}")
            if b == "sg":
                parts.append("sample_group")
            if b == "fmt":
                parts.append("format = FmtToString")
            if b == "ignore":
                parts.append("ignore")
            if b == "ts":
                parts.append("timestamp")
            ty = {"u64": "u64", "str": "String", "sg": "&'static str", "fmt": "u64", "optnone": "Option<u64>",
                  "optsome": "Option<u64>", "ignore": "u64", "ts": "SystemTime"}[b]
            attr = f"#[entry({', '.join(parts)})]" if parts else ""
        self.nfields += 1
        if tuple_shape:
            return f"{attr} {ty}".strip()
        return f"{attr} {ident}: {ty}".strip()

    def define(self, name, node, ftypes):
        shape = shape_of(node.form)
        decls = [self.field_decl(node, i + 1, f, ftypes[i], shape == "tuple") for i, f in enumerate(node.fields)]
        cattr = f'#[entry(rename_all = "{node.ra}")]\n' if node.ra != "none" else ""
        if shape == "named":
            body = "{ " + ", ".join(decls) + " }"
        elif shape == "tuple":
            body = "(" + ", ".join(decls) + ")"
        else:
            body = ""
        if node.form in STRUCT_FORMS:
            end = "" if shape == "named" else ";"
            return f"#[derive(Entry)]\n{cattr}struct {name}{(' ' + body) if body else ''}{end}\n"
        vattr = f'#[entry(rename_all = "{node.vra}")] ' if node.vra != "inherit" else ""
        chosen = f"{vattr}Chosen{(' ' + body) if shape == 'named' else body}"
        # decoy variants: the same field names / a timestamp / an own rename_all in OTHER variants must not matter
        other = ('#[entry(rename_all = "UPPERCASE")] Other { ' + written(node.depth, 1) + ": u64, "
                 + written(node.depth, 2) + ": u64, #[entry(timestamp)] at: SystemTime }")
        if node.form.startswith("e1_"):
            variants = [chosen]
        elif node.form == "e3_named":
            variants = [other, chosen, "Idle"]
        elif node.form == "e3_tuple":
            variants = [chosen, "Idle", other]
        else:
            variants = [other, '#[entry(rename_all = "kebab-case")] Spare(#[entry(name = "spare")] u64)', chosen]
        return f"#[derive(Entry)]\n{cattr}enum {name} {{ " + ", ".join(variants) + " }\n"

    # ---- values
    def value_of(self, node, counter):
        tname = self.type_of(node)
        shape = shape_of(node.form)
        vals = []
        for i, f in enumerate(node.fields):
            counter[0] += 1
            vid = counter[0]
            if f[0] == "F":
                b = f[1].rstrip("@")
                v = {"u64": f"{vid}", "str": f'"s{vid}".to_string()', "sg": f'"s{vid}"', "fmt": f"{vid}",
                     "optnone": "None", "optsome": f"Some({vid})", "ignore": f"{vid}", "ts": f"ts({vid})"}[b]
            else:
                if f[1] == "none":
                    v = "None"
                else:
                    inner = self.value_of(f[2], counter)
                    v = {"plain": inner, "box": f"Box::new({inner})", "some": f"Some({inner})"}[f[1]]
            vals.append(v if shape == "tuple" else f"{written(node.depth, i + 1)}: {v}")
        head = tname if node.form in STRUCT_FORMS else f"{tname}::Chosen"
        if shape == "named":
            return head + " { " + ", ".join(vals) + " }"
        if shape == "tuple":
            return head + "(" + ", ".join(vals) + ")"
        return head

    def add(self, bid, toks):
        root = parse(toks)
        self.instances.append((bid, self.value_of(root, [0])))

    def source(self):
        use = "use metrique::writer::Entry;" if self.metrique_path else "use metrique_writer::Entry;"
        fmt = ("use metrique::writer::value::ToString as FmtToString;" if self.metrique_path
               else "use metrique_writer::value::ToString as FmtToString;")
        out = ["// generated by tools/gen_entryderive.py from TLC behaviours of spec/entryderive/EntryDerive.tla - do not edit",
               "#![allow(warnings, clippy::all)]",
               use, fmt, "use std::time::SystemTime;", "use vharness_entry::{guarded, record_line, ts};", "",
               "// the type behind an absent Option<Child>: none of this may ever be written",
               "#[derive(Entry)]\nstruct Canary { canary: u64, #[entry(sample_group)] canary_group: &'static str, "
               "#[entry(timestamp)] canary_at: SystemTime }\n"]
        out += self.defs
        out.append("fn main() {")
        out.append("    let mut out = String::new();")
        for bid, expr in self.instances:
            out.append(f"    guarded(&mut out, {rust_str(bid)}, &mut || record_line({rust_str(bid)}, &{expr}));")
        out.append("    print!(\"{out}\");")
        out.append("}")
        return "\n".join(out) + "\n"


def plan(behaviours, nbins, prefix="gen_e"):
    """behaviours: list of (id, toks). Similar trees go to the same program (more shared types)."""
    order = sorted(behaviours, key=lambda b: repr(b[1]))
    nbins = max(1, min(nbins, len(order)))
    per = (len(order) + nbins - 1) // nbins
    progs = []
    for j in range(nbins):
        chunk = order[j * per:(j + 1) * per]
        if not chunk:
            continue
        p = Program(f"{prefix}{j:02d}", metrique_path=(j % 2 == 1))
        for bid, toks in chunk:
            p.add(bid, toks)
        progs.append(p)
    return progs


def write_programs(crate, progs, prefix="gen_e"):
    bdir = os.path.join(crate, "src", "bin")
    os.makedirs(bdir, exist_ok=True)
    keep = {p.bin + ".rs" for p in progs}
    for f in os.listdir(bdir):
        if f.startswith(prefix) and f not in keep:
            os.remove(os.path.join(bdir, f))
    nlines = 0
    for p in progs:
        src = p.source()
        nlines += src.count("\n")
        path = os.path.join(bdir, p.bin + ".rs")
        old = None
        if os.path.exists(path):
            with open(path) as f:
                old = f.read()
        if old != src:
            with open(path, "w") as f:
                f.write(src)
    return nlines


# --------------------------------------------------------------------------------------------
# rejected definitions (spec/entryderive/EntryDeriveNeg.tla): one program, one definition per line
# --------------------------------------------------------------------------------------------
COMBO_PART = {"name": 'name = "x_y"', "format": "format = FmtToString", "ignore": "ignore", "flatten": "flatten",
              "timestamp": "timestamp", "sample_group": "sample_group"}
UNNAMED = {"u64": ("", "u64"), "str": ("", "String"), "sg": ("#[entry(sample_group)]", "&'static str"),
           "fmt": ("#[entry(format = FmtToString)]", "u64"), "optnone": ("", "Option<u64>"), "optsome": ("", "Option<u64>")}


def bad_decl(tok, i, tuple_shape):
    ident = written(1, i)
    d = tok["d"]
    if d == "dupname":
        attr, ty = f"#[entry(name = {rust_str(tok['name'])})]", "u64"
    elif d == "dupts":
        attr, ty = "#[entry(timestamp)]", "SystemTime"
    elif d == "tupleunnamed":
        attr, ty = UNNAMED[tok["k"]]
    elif d == "emptyname":
        attr, ty = '#[entry(name = "")]', "u64"
    elif d == "combo":
        attr, ty = "#[entry(" + ", ".join(COMBO_PART[p] for p in tok["c"].split("+")) + ")]", "u64"
    elif d == "unknownattr":
        attr, ty = "#[entry(bogus)]", "u64"
    else:
        raise ValueError(d)
    return f"{attr} {ty}".strip() if tuple_shape else f"{attr} {ident}: {ty}".strip()


def neg_program(behaviours):
    """behaviours: list of (id, {"toks":..,"msg":..}) -> (source, {line number: (id, expected msg or None for a control)})"""
    helper = Program("neg", False)
    head = ["// generated by tools/gen_entryderive.py from spec/entryderive/EntryDeriveNeg.tla - must NOT compile",
            "#![allow(warnings, clippy::all)]", "use metrique_writer::Entry;",
            "use metrique_writer::value::ToString as FmtToString;", "use std::time::SystemTime;"]
    lines = list(head)
    where = {}
    seen_controls = set()
    n = 0

    def one_line(name, node, decls):
        shape = shape_of(node.form)
        cattr = f'#[entry(rename_all = "{node.ra}")] ' if node.ra != "none" else ""
        body = ("{ " + ", ".join(decls) + " }") if shape == "named" else ("(" + ", ".join(decls) + ")" if shape == "tuple" else "")
        if node.form in STRUCT_FORMS:
            return f"#[derive(Entry)] {cattr}struct {name} {body}{'' if shape == 'named' else ';'}"
        vattr = f'#[entry(rename_all = "{node.vra}")] ' if node.vra != "inherit" else ""
        chosen = f"{vattr}Chosen {body}"
        other = f"Other {{ {written(1, 1)}: u64, #[entry(timestamp)] at: SystemTime }}"
        variants = [chosen] if node.form.startswith("e1_") else [other, chosen, "Idle"]
        return f"#[derive(Entry)] {cattr}enum {name} {{ " + ", ".join(variants) + " }"

    for bid, b in behaviours:
        toks = b["toks"]
        good = [t for t in toks if t["t"] != "B"]
        bad = [t for t in toks if t["t"] == "B"]
        node = parse(good)
        shape = shape_of(node.form)
        decls = [helper.field_decl(node, i + 1, f, None, shape == "tuple") for i, f in enumerate(node.fields)]
        if node.ra != "Title Case" and node.vra != "Title Case":
            ckey = repr(good)
            if ckey not in seen_controls:
                seen_controls.add(ckey)
                lines.append(one_line(f"Ctl{n}", node, decls))
                where[len(lines)] = (bid + "-control", None)
        bdecls = decls + [bad_decl(t, len(decls) + 1, shape == "tuple") for t in bad]
        lines.append(one_line(f"Neg{n}", node, bdecls))
        where[len(lines)] = (bid, b["msg"])
        n += 1
    lines.append("fn main() {}")
    return "\n".join(lines) + "\n", where
