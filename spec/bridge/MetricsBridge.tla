--------------------------- MODULE MetricsBridge ---------------------------
(***************************************************************************)
(* C20: the metrics.rs bridge (metrique-metricsrs) reports every counter    *)
(* increment and histogram sample exactly once, gauges report the last      *)
(* value set.                                                               *)
(*                                                                         *)
(* Implementation-shaped layer: one atomic cell per counter key, gauge key  *)
(* and histogram bucket (metrics-util Registry of Arc<AtomicU64> /          *)
(* histogram::AtomicHistogram).  Updaters: a call is three steps - the call  *)
(* starts (observable), ONE atomic read-modify-write (Inc = fetch_add,       *)
(* Set = swap, Record / RecordMany(n) = fetch_add(n) on the bucket; not observable), the call   *)
(* returns (observable).  Reader: MetricsRsVersion::readout visits the       *)
(* cells one at a time: every counter swap(0), every gauge load, every       *)
(* histogram bucket swap(0) - each a separate step, interleaved with the     *)
(* updaters.  ReaderMode selects deliberately broken readers (negative       *)
(* models: load then store(0); load everything then clear), used to show     *)
(* that the property layer rejects them.                                     *)
(*                                                                         *)
(* Property layer: BridgeObs (interval form, over observable events only)    *)
(* plus, since the model knows the linearization points, the state           *)
(* invariant  reported(k) + cell(k) = incremented(k).                        *)
(***************************************************************************)
EXTENDS BridgeObs

CONSTANTS Updaters,      \* e.g. {1, 2}
          NOps,          \* calls per updater
          NReadouts,     \* concurrent readouts (one more runs after everything has returned)
          CKeys, GKeys, HKeys, Buckets,
          IncVals,       \* increments
          RecCounts,     \* samples per histogram call (n > 1: Histogram::record_many = one fetch_add(n))
          ReaderMode     \* "swap" | "load_store" | "snapshot_clear"

VARIABLES
    cnt, gau, hst,       \* the atomic cells
    upc, uop, udone,     \* updaters: "idle" | "called" | "applied"; current call; calls finished
    rpc, ridx, rcount,   \* reader: "idle" | "reading" | "final" | "done"; next cell; readouts finished
    rtmp,                \* broken readers: value loaded but not yet reset
    dC, dH, dG,          \* what the open readout has collected so far
    linC, linH           \* ghost: increments / samples applied so far (linearized)

mvars == <<cnt, gau, hst, upc, uop, udone, rpc, ridx, rcount, rtmp, dC, dH, dG, linC, linH>>
vars == <<mvars, ovars>>

HK == HKeys \X Buckets
\* visiting order of the reader: counters, gauges, histogram buckets
SeqOf(S) == CHOOSE s \in [1..Cardinality(S) -> S] : \A x \in S : \E i \in DOMAIN s : s[i] = x
Cells == [i \in 1..(Cardinality(CKeys) + Cardinality(GKeys) + Cardinality(HK)) |->
            IF i <= Cardinality(CKeys) THEN <<"c", SeqOf(CKeys)[i]>>
            ELSE IF i <= Cardinality(CKeys) + Cardinality(GKeys) THEN <<"g", SeqOf(GKeys)[i - Cardinality(CKeys)]>>
            ELSE <<"h", SeqOf(HK)[i - Cardinality(CKeys) - Cardinality(GKeys)]>>]
NCells == Len(Cells)

NoOp == [t |-> "none"]
Zero(S) == [k \in S |-> 0]

Init ==
    /\ cnt = Zero(CKeys) /\ gau = Zero(GKeys) /\ hst = Zero(HK)
    /\ upc = [u \in Updaters |-> "idle"] /\ uop = [u \in Updaters |-> NoOp] /\ udone = Zero(Updaters)
    /\ rpc = "idle" /\ ridx = 1 /\ rcount = 0 /\ rtmp = 0
    /\ dC = Zero(CKeys) /\ dH = Zero(HK) /\ dG = {}
    /\ linC = Zero(CKeys) /\ linH = Zero(HK)
    /\ OInit(CKeys, HK, GKeys, Zero(GKeys))

(***************************************************************************)
(* updaters                                                                 *)
(***************************************************************************)
\* gauge values are unique per call, so that "the last value set" is unambiguous
SetVal(u) == 10 * u + udone[u] + 1

Ops(u) == [t : {"inc"}, k : CKeys, d : IncVals] \cup [t : {"set"}, k : GKeys, d : {SetVal(u)}]
          \cup [t : {"rec"}, k : HKeys, d : Buckets, n : RecCounts]

UCall(u) ==
    /\ upc[u] = "idle" /\ udone[u] < NOps
    /\ \E op \in Ops(u) :
         /\ uop' = [uop EXCEPT ![u] = op]
         /\ CASE op.t = "inc" -> OIncStart(op.k, op.d)
              [] op.t = "set" -> OWriteStart(op.k, op.d)
              [] op.t = "rec" -> ORecStart(op.k, op.d, op.n)
    /\ upc' = [upc EXCEPT ![u] = "called"]
    /\ UNCHANGED <<cnt, gau, hst, udone, rpc, ridx, rcount, rtmp, dC, dH, dG, linC, linH>>

\* the one atomic read-modify-write of the call
UApply(u) ==
    /\ upc[u] = "called"
    /\ LET op == uop[u] IN
       CASE op.t = "inc" -> /\ cnt' = [cnt EXCEPT ![op.k] = @ + op.d]
                            /\ linC' = [linC EXCEPT ![op.k] = @ + op.d]
                            /\ UNCHANGED <<gau, hst, linH>>
         [] op.t = "set" -> gau' = [gau EXCEPT ![op.k] = op.d] /\ UNCHANGED <<cnt, hst, linC, linH>>
         [] op.t = "rec" -> /\ hst' = [hst EXCEPT ![<<op.k, op.d>>] = @ + op.n]
                            /\ linH' = [linH EXCEPT ![<<op.k, op.d>>] = @ + op.n]
                            /\ UNCHANGED <<cnt, gau, linC>>
    /\ upc' = [upc EXCEPT ![u] = "applied"]
    /\ UNCHANGED <<uop, udone, rpc, ridx, rcount, rtmp, dC, dH, dG, ovars>>

URet(u) ==
    /\ upc[u] = "applied"
    /\ LET op == uop[u] IN
       CASE op.t = "inc" -> OIncEnd(op.k, op.d)
         [] op.t = "set" -> OWriteEnd(op.k, op.d)
         [] op.t = "rec" -> ORecEnd(op.k, op.d, op.n)
    /\ upc' = [upc EXCEPT ![u] = "idle"] /\ udone' = [udone EXCEPT ![u] = @ + 1]
    /\ uop' = [uop EXCEPT ![u] = NoOp]
    /\ UNCHANGED <<cnt, gau, hst, rpc, ridx, rcount, rtmp, dC, dH, dG, linC, linH>>

AllReturned == \A u \in Updaters : upc[u] = "idle" /\ udone[u] = NOps

(***************************************************************************)
(* reader                                                                   *)
(***************************************************************************)
RStart ==
    /\ rpc = "idle"
    /\ \/ rcount < NReadouts /\ rpc' = "reading"
       \/ rcount = NReadouts /\ AllReturned /\ rpc' = "final"     \* the readout after quiescence
    /\ ridx' = 1 /\ rtmp' = 0
    /\ dC' = Zero(CKeys) /\ dH' = Zero(HK) /\ dG' = {}
    /\ OReadoutStart
    /\ UNCHANGED <<cnt, gau, hst, upc, uop, udone, rcount, linC, linH>>

Reading == rpc \in {"reading", "final"}

\* swap(0) / load: one atomic step per cell
RCellAtomic ==
    /\ Reading /\ ridx <= NCells /\ ReaderMode = "swap"
    /\ LET c == Cells[ridx] IN
       CASE c[1] = "c" -> /\ dC' = [dC EXCEPT ![c[2]] = cnt[c[2]]] /\ cnt' = [cnt EXCEPT ![c[2]] = 0]
                          /\ UNCHANGED <<gau, hst, dH, dG>>
         [] c[1] = "g" -> /\ dG' = dG \cup {<<c[2], gau[c[2]]>>} /\ UNCHANGED <<cnt, gau, hst, dC, dH>>
         [] c[1] = "h" -> /\ dH' = [dH EXCEPT ![c[2]] = hst[c[2]]] /\ hst' = [hst EXCEPT ![c[2]] = 0]
                          /\ UNCHANGED <<cnt, gau, dC, dG>>
    /\ ridx' = ridx + 1
    /\ UNCHANGED <<upc, uop, udone, rpc, rcount, rtmp, linC, linH, ovars>>

\* broken reader 1: load, then store(0), as two steps
RCellLoad ==
    /\ Reading /\ ridx <= NCells /\ ReaderMode = "load_store" /\ rtmp = 0
    /\ LET c == Cells[ridx] IN
       CASE c[1] = "c" -> dC' = [dC EXCEPT ![c[2]] = cnt[c[2]]] /\ UNCHANGED <<dH, dG>>
         [] c[1] = "g" -> dG' = dG \cup {<<c[2], gau[c[2]]>>} /\ UNCHANGED <<dC, dH>>
         [] c[1] = "h" -> dH' = [dH EXCEPT ![c[2]] = hst[c[2]]] /\ UNCHANGED <<dC, dG>>
    /\ rtmp' = 1
    /\ UNCHANGED <<cnt, gau, hst, upc, uop, udone, rpc, ridx, rcount, linC, linH, ovars>>
RCellStore ==
    /\ Reading /\ ridx <= NCells /\ ReaderMode = "load_store" /\ rtmp = 1
    /\ LET c == Cells[ridx] IN
       CASE c[1] = "c" -> cnt' = [cnt EXCEPT ![c[2]] = 0] /\ UNCHANGED <<gau, hst>>
         [] c[1] = "g" -> UNCHANGED <<cnt, gau, hst>>
         [] c[1] = "h" -> hst' = [hst EXCEPT ![c[2]] = 0] /\ UNCHANGED <<cnt, gau>>
    /\ rtmp' = 0 /\ ridx' = ridx + 1
    /\ UNCHANGED <<upc, uop, udone, rpc, rcount, dC, dH, dG, linC, linH, ovars>>

\* broken reader 2: take a snapshot of everything (loads, one per step), then clear all cells at once
RCellSnap ==
    /\ Reading /\ ridx <= NCells /\ ReaderMode = "snapshot_clear"
    /\ LET c == Cells[ridx] IN
       CASE c[1] = "c" -> dC' = [dC EXCEPT ![c[2]] = cnt[c[2]]] /\ UNCHANGED <<dH, dG>>
         [] c[1] = "g" -> dG' = dG \cup {<<c[2], gau[c[2]]>>} /\ UNCHANGED <<dC, dH>>
         [] c[1] = "h" -> dH' = [dH EXCEPT ![c[2]] = hst[c[2]]] /\ UNCHANGED <<dC, dG>>
    /\ ridx' = ridx + 1
    /\ IF ridx = NCells THEN cnt' = Zero(CKeys) /\ hst' = Zero(HK) /\ UNCHANGED gau
       ELSE UNCHANGED <<cnt, gau, hst>>
    /\ UNCHANGED <<upc, uop, udone, rpc, rcount, rtmp, linC, linH, ovars>>

REnd ==
    /\ Reading /\ ridx > NCells
    /\ OReadoutEnd(dC, dH)
    /\ rpc' = IF rpc = "final" THEN "done" ELSE "idle"
    /\ rcount' = rcount + 1
    /\ UNCHANGED <<cnt, gau, hst, upc, uop, udone, ridx, rtmp, dC, dH, dG, linC, linH>>

Next ==
    \/ \E u \in Updaters : UCall(u) \/ UApply(u) \/ URet(u)
    \/ RStart \/ RCellAtomic \/ RCellLoad \/ RCellStore \/ RCellSnap \/ REnd

Spec == Init /\ [][Next]_vars

(***************************************************************************)
(* properties                                                               *)
(***************************************************************************)
\* every applied increment / sample is either still in its cell, or held by the open readout,
\* or was reported by a finished readout - exactly once
Held(k) == IF Reading /\ ridx <= NCells THEN (IF \E i \in 1..(ridx - 1) : Cells[i] = <<"c", k>> THEN dC[k] ELSE 0)
           ELSE IF Reading THEN dC[k] ELSE 0
HeldH(k) == IF Reading /\ ridx <= NCells THEN (IF \E i \in 1..(ridx - 1) : Cells[i] = <<"h", k>> THEN dH[k] ELSE 0)
            ELSE IF Reading THEN dH[k] ELSE 0
Conservation ==
    /\ \A k \in CKeys : cC[k] + Held(k) + cnt[k] = linC[k]
    /\ \A k \in HK : hC[k] + HeldH(k) + hst[k] = linH[k]

\* the interval rules of the property layer accept the readout that is about to end
AtEnd == Reading /\ ridx > NCells
IntervalOK == AtEnd => CountersOK(dC) /\ HistsOK(dH)
GaugeOK == AtEnd => RegsOK(dG) /\ RegsPresent(dG, GKeys)
\* the candidate set of the property layer always contains the value really held by the gauge cell
CandSound == \A k \in GKeys : gau[k] \in lCand[k]
\* after the final readout everything applied has been reported, and the gauges reported the last value
FinalOK == rpc = "done" =>
    /\ Quiescent
    /\ \A k \in CKeys : cC[k] = linC[k] /\ cC[k] = cS[k]
    /\ \A k \in HK : hC[k] = linH[k] /\ hC[k] = hS[k]
    /\ \A x \in dG : x[2] = gau[x[1]]
Sane == /\ \A k \in CKeys : cE[k] <= linC[k] /\ linC[k] <= cS[k]
        /\ \A k \in HK : hE[k] <= linH[k] /\ linH[k] <= hS[k]

BridgeInv == Conservation /\ IntervalOK /\ GaugeOK /\ CandSound /\ FinalOK /\ Sane
=============================================================================
