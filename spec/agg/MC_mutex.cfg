\* 3 mergers x 2 inputs racing 3 closes (the last one after the mergers): every interleaving
CONSTANTS
  Mergers = {1, 2, 3}
  NIn = 2
  NClose = 3
  TryLock = FALSE
SPECIFICATION Spec
INVARIANTS AbsInv AtEnd
PROPERTY Refines
CHECK_DEADLOCK FALSE
