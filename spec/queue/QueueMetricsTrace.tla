------------------------ MODULE QueueMetricsTrace ------------------------
(***************************************************************************)
(* Extension X04 (beyond the listed properties): the background queue's    *)
(* own metrics, as reported to its metrics recorder, account for what the  *)
(* writer did.  After the join handle has been dropped:                    *)
(*   metrique_metrics_emitted    = hand-offs the stream answered Ok        *)
(*                                 (entries and in-band error reports)     *)
(*   metrique_validation_errors  = entries the stream rejected             *)
(*   metrique_io_errors          = entries / reports / flushes that failed *)
(*                                 with an I/O error                       *)
(*   every metrique_queue_len sample <= capacity, idle percent <= 100      *)
(* Identity-free counting spec over the same recorded traces as QueueTrace.*)
(***************************************************************************)
EXTENDS Naturals, Sequences, TLC, Json, IOUtils

Rec == ndJsonDeserialize(IOEnv.TRACE)
N == Len(Rec)

VARIABLES l, capv, nok, nval, nio, dropEnded
mvars == <<l, capv, nok, nval, nio, dropEnded>>

Ev(name) == l <= N /\ Rec[l].ev = name
Adv == l' = l + 1

MInit == l = 1 /\ capv = 1 /\ nok = 0 /\ nval = 0 /\ nio = 0 /\ dropEnded = FALSE /\ TLCSet(1, 1)

MReset == Ev("Reset") /\ Adv /\ capv' = Rec[l].cap /\ nok' = 0 /\ nval' = 0 /\ nio' = 0 /\ dropEnded' = FALSE
\* consume(): Ok counts as emitted, Validation / Io count as errors
MNext == /\ Ev("Next") /\ Adv
         /\ nok' = nok + (IF Rec[l].res = "ok" THEN 1 ELSE 0)
         /\ nval' = nval + (IF Rec[l].res = "val" THEN 1 ELSE 0)
         /\ nio' = nio + (IF Rec[l].res = "io" THEN 1 ELSE 0)
         /\ UNCHANGED <<capv, dropEnded>>
\* report_validation_error(): Ok counts as emitted, Io as I/O error, Validation is ignored
MReport == /\ Ev("Report") /\ Adv
           /\ nok' = nok + (IF Rec[l].res = "ok" THEN 1 ELSE 0)
           /\ nio' = nio + (IF Rec[l].res = "io" THEN 1 ELSE 0)
           /\ UNCHANGED <<capv, nval, dropEnded>>
\* flush_stream(): a failed flush is an I/O error (scenarios for this spec script no flush errors,
\* because consecutive identical Flush events are logged once)
MFlush == Ev("Flush") /\ Adv /\ Rec[l].err = 0 /\ UNCHANGED <<capv, nok, nval, nio, dropEnded>>
MDropEnd == Ev("DropEnd") /\ Adv /\ dropEnded' = TRUE /\ UNCHANGED <<capv, nok, nval, nio>>
MSelf == /\ Ev("SelfMetrics") /\ Adv
         /\ dropEnded
         /\ Rec[l].emitted = nok /\ Rec[l].val = nval /\ Rec[l].io = nio
         /\ Rec[l].qlen <= capv /\ Rec[l].idle <= 100
         /\ UNCHANGED <<capv, nok, nval, nio, dropEnded>>
MSkip == /\ l <= N
         /\ Rec[l].ev \in {"AppStart", "AppEnd", "Close", "FlushReq", "FlushDone", "DropStart", "SinkDrop",
                           "Quiesce", "Forget", "SinkClone", "Overflows", "SubInstalled", "BurstBegin", "BurstEnd"}
         /\ Adv /\ UNCHANGED <<capv, nok, nval, nio, dropEnded>>

MNext_ == MReset \/ MNext \/ MReport \/ MFlush \/ MDropEnd \/ MSelf \/ MSkip
MSpec == MInit /\ [][MNext_]_mvars

Track == /\ IF l > TLCGet(1) THEN TLCSet(1, l) /\ TLCSet(2, <<capv, nok, nval, nio, dropEnded>>) ELSE TRUE
         /\ IF l = N + 1 THEN TLCSet("exit", TRUE) ELSE TRUE
Accepted ==
    IF TLCGet(1) = N + 1 THEN PrintT(<<"ACCEPTED", N>>)
    ELSE /\ PrintT(<<"REJECTED", TLCGet(1), ToJson(Rec[TLCGet(1)]), TLCGet(2)>>)
         /\ FALSE
=============================================================================
