#!/usr/bin/env python3
"""tools/ingest_mutants.py <prop> <worktree> <crate-for-demo> <first-index>  : copy a sub-agent's OUT/m1,m2 into /verif/seeded/<prop>-m<idx>"""
import sys, os, shutil, json, re
prop, wt, crate, first = sys.argv[1], sys.argv[2], sys.argv[3], int(sys.argv[4])
for k in (1, 2):
    src = f"{wt}/OUT"
    if not os.path.exists(f"{src}/m{k}.diff"):
        continue
    idx = first + k - 1
    d = f"/verif/seeded/{prop}-m{idx}"
    os.makedirs(d, exist_ok=True)
    shutil.copy(f"{src}/m{k}.diff", f"{d}/patch.diff")
    shutil.copy(f"{src}/m{k}_demo.rs", f"{d}/demo.rs")
    shutil.copy(f"{src}/m{k}.md", f"{d}/notes.md")
    notes = open(f"{d}/notes.md").read()
    head = open(f"{d}/demo.rs").read()[:1500]
    m = re.search(r"([\w-]+)/tests/mutant_demo_\d\.rs", head) or re.search(r"([\w-]+)/tests/mutant_demo_\d\.rs", notes)
    dcrate = m.group(1) if m else crate
    first_para = [l.strip() for l in notes.splitlines() if l.strip() and not l.startswith("#")][:3]
    json.dump({"property": prop, "breaks": " ".join(first_para)[:600], "needs_to_manifest": "see notes.md",
               "origin": "fresh sub-agent given only the property text and a scratch worktree (round 2: asked for mechanisms different from round 1)" if first > 2 else "fresh sub-agent given only the property text and a scratch worktree",
               "demo_crate": dcrate, "demo_file": f"{dcrate}/tests/mutant_demo_{k}.rs",
               "confirmed": {"how": f"demo placed at {dcrate}/tests/mutant_demo_{k}.rs: passes on the clean tree, fails with the patch; cargo test --workspace --offline passes with the patch"},
               "detected_by": "see DESIGN.md section 9.4"}, open(f"{d}/meta.json", "w"), indent=1)
    print(d, dcrate)
