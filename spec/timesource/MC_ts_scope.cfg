CONSTANTS
  Users = {"t1", "t2"}
  Workers = {"r1"}
  Runtimes = {"r1", "r2"}
  Sources = {"m1", "tk", "st"}
  Static = {"st"}
  TLVals = {"m1"}
  RtVals = {"tk", "st"}
  XVals = {}
  MaxGuards = 1
  MaxEnter = 2
  MaxClock = 0
  MaxInst = 0
  Deltas = {1, 2}
  Actors = {"t1", "t2", "r1"}
  Ops = {"Set", "Drop", "Enter", "RtInstall", "RtInstallCur", "RtDrop"}
  Bug = "none"
SPECIFICATION Spec
INVARIANTS TypeOK Priority OneOverride LifoChain LifoRestores NoLeakUnderLifo InstantsOwnSource
PROPERTIES WithRestores ThreadLocal RuntimeScoped PanicChangesNothing InstantsStable EnterIsLocal LeakIsPermanent
CHECK_DEADLOCK FALSE
