//! C16 driver: partial writes and I/O errors never tear, duplicate or stall metric output.
//!
//!   vw scripts --scripts s.ndjson --out trace.ndjson --meta meta.ndjson
//!       every TLC behaviour of spec/emf/VectoredWriteReplay.tla (buffer lengths + the writer's
//!       answer at every call) is played by a scripted `io::Write` against the REAL
//!       write_all_vectored (hook verif_write_all_vectored); the writer logs what it is offered
//!   vw records --scenarios r.ndjson --out trace.ndjson --meta meta.ndjson
//!       real EMF records (single line, several namespaces, split into 2-3 lines, large) are
//!       formatted into a writer that answers randomly (seeded): accept k, Interrupted, Ok(0),
//!       hard error; the bytes received are compared with the output of an all-accepting writer
//!   vw sinks --scripts s.ndjson --out results.ndjson
//!       TLC-generated result scripts (ok|val|io per entry and stream, flush errors) on
//!       FlushImmediately (typed, boxed, build_any) and Tee with two recording streams
//!
//! Trace events (validated by spec/emf/VectoredTrace.tla):
//!   Entry, Start{lens}, Call{off,ans,k}, LineDone, Ret{res}

use metrique_writer::sink::{FlushImmediately, FlushImmediatelyBuilder};
use metrique_writer::stream::tee;
use metrique_writer::{AnyEntrySink, EntrySink};
use rand::Rng;
use rand_chacha::ChaCha8Rng;
use serde_json::{Value, json};
use std::cell::RefCell;
use std::collections::HashMap;
use std::io::{self, Write};
use std::rc::Rc;
use vharness::emfkinds::{Big, Formatter, KEntry};
use vharness::stream::{NumEntry, Res, StreamCtl};
use vharness::{trace, util};

// ------------------------------------------------------------------------------------------
// scripted writer
// ------------------------------------------------------------------------------------------

#[derive(Clone, Debug)]
enum Ans {
    Acc(usize),
    Zero,
    Intr,
    Hard,
}

enum Script {
    /// answers given by TLC, one per call
    Fixed(Vec<Ans>, usize),
    /// seeded random answers: probabilities in permille
    Random { rng: ChaCha8Rng, intr: u32, zero: u32, hard: u32, small: bool },
}

struct WState {
    script: Script,
    events: Vec<Value>,
    /// bytes accepted so far (over the whole entry)
    received: Vec<u8>,
    /// bytes of the current line still to be accepted (None: no line in progress)
    remaining: Option<usize>,
    /// a fatal answer (zero | hard) was given: nothing more may be offered
    fatal: bool,
    calls_after_fatal: usize,
    calls_beyond_script: usize,
    empty_offers: usize,
    calls: usize,
    /// the line lengths are known beforehand (scripts mode): Start is logged by the driver
    explicit_start: bool,
}

#[derive(Clone)]
struct ScriptedW(Rc<RefCell<WState>>);

impl ScriptedW {
    fn new(script: Script, explicit_start: bool) -> Self {
        ScriptedW(Rc::new(RefCell::new(WState {
            script,
            events: Vec::new(),
            received: Vec::new(),
            remaining: None,
            fatal: false,
            calls_after_fatal: 0,
            calls_beyond_script: 0,
            empty_offers: 0,
            calls: 0,
            explicit_start,
        })))
    }
}

impl Write for ScriptedW {
    fn write(&mut self, b: &[u8]) -> io::Result<usize> {
        self.write_vectored(&[io::IoSlice::new(b)])
    }

    fn write_vectored(&mut self, bufs: &[io::IoSlice<'_>]) -> io::Result<usize> {
        let mut s = self.0.borrow_mut();
        s.calls += 1;
        let off: Vec<usize> = bufs.iter().map(|b| b.len()).collect();
        let total: usize = off.iter().sum();
        if total == 0 {
            s.empty_offers += 1;
        }
        if s.remaining.is_none() && !s.explicit_start {
            // the first offer of a line is the whole line
            s.events.push(json!({"ev":"Start","lens":off}));
            s.remaining = Some(total);
        }
        let ans = if s.fatal {
            s.calls_after_fatal += 1;
            Ans::Hard
        } else {
            match &mut s.script {
                Script::Fixed(a, i) => {
                    if *i < a.len() {
                        *i += 1;
                        a[*i - 1].clone()
                    } else {
                        s.calls_beyond_script += 1;
                        Ans::Hard
                    }
                }
                Script::Random { rng, intr, zero, hard, small } => {
                    let r = rng.random_range(0..1000u32);
                    if r < *intr {
                        Ans::Intr
                    } else if r < *intr + *zero {
                        Ans::Zero
                    } else if r < *intr + *zero + *hard {
                        Ans::Hard
                    } else if total == 0 {
                        Ans::Zero
                    } else {
                        // boundaries of the offered slices, +-1, tiny and full writes are all likely
                        let mut cands: Vec<usize> = vec![1, total];
                        let mut acc = 0usize;
                        for l in &off {
                            acc += l;
                            for c in [acc.saturating_sub(1), acc, acc + 1] {
                                if c >= 1 && c <= total {
                                    cands.push(c);
                                }
                            }
                        }
                        let pick = rng.random_range(0..10u32);
                        let k = if pick < 5 {
                            cands[rng.random_range(0..cands.len())]
                        } else if *small || pick < 7 {
                            rng.random_range(1..=total.min(17))
                        } else {
                            rng.random_range(1..=total)
                        };
                        Ans::Acc(k)
                    }
                }
            }
        };
        let (name, k) = match &ans {
            Ans::Acc(k) => ("acc", (*k).min(total)),
            Ans::Zero => ("zero", 0),
            Ans::Intr => ("intr", 0),
            Ans::Hard => ("hard", 0),
        };
        s.events.push(json!({"ev":"Call","off":off,"ans":name,"k":k}));
        match ans {
            Ans::Acc(_) => {
                let mut left = k;
                for b in bufs {
                    let n = b.len().min(left);
                    s.received.extend_from_slice(&b[..n]);
                    left -= n;
                    if left == 0 {
                        break;
                    }
                }
                if let Some(r) = s.remaining {
                    let r = r.saturating_sub(k);
                    if r == 0 && !s.explicit_start {
                        s.events.push(json!({"ev":"LineDone"}));
                        s.remaining = None;
                    } else {
                        s.remaining = Some(r);
                    }
                }
                Ok(k)
            }
            Ans::Zero => {
                s.fatal = true;
                Ok(0)
            }
            Ans::Intr => Err(io::Error::new(io::ErrorKind::Interrupted, "scripted interruption")),
            Ans::Hard => {
                s.fatal = true;
                Err(io::Error::new(io::ErrorKind::BrokenPipe, "scripted hard error"))
            }
        }
    }

    fn flush(&mut self) -> io::Result<()> {
        Ok(())
    }
}

struct Sink<'a> {
    out: std::io::BufWriter<std::fs::File>,
    meta: std::io::BufWriter<std::fs::File>,
    line: usize,
    _p: std::marker::PhantomData<&'a ()>,
}

impl Sink<'_> {
    fn new(a: &HashMap<String, String>) -> Self {
        Sink {
            out: std::io::BufWriter::new(std::fs::File::create(util::arg_str(a, "out", "")).unwrap()),
            meta: std::io::BufWriter::new(std::fs::File::create(util::arg_str(a, "meta", "")).unwrap()),
            line: 1,
            _p: std::marker::PhantomData,
        }
    }
    fn put(&mut self, id: &Value, evs: &[Value], mut m: Value) {
        trace::append_ndjson(&mut self.out, evs).unwrap();
        m["id"] = id.clone();
        m["first_line"] = json!(self.line);
        m["last_line"] = json!(self.line + evs.len() - 1);
        m["events"] = json!(evs.len());
        self.line += evs.len();
        serde_json::to_writer(&mut self.meta, &m).unwrap();
        self.meta.write_all(b"\n").unwrap();
    }
    fn finish(mut self) {
        self.out.flush().unwrap();
        self.meta.flush().unwrap();
    }
}

// ------------------------------------------------------------------------------------------
// TLC scripts against the real write_all_vectored
// ------------------------------------------------------------------------------------------

fn cmd_scripts(a: &HashMap<String, String>) {
    let scripts = util::read_ndjson(util::arg_str(a, "scripts", ""));
    let mut sink = Sink::new(a);
    for sc in scripts {
        let lens: Vec<usize> = sc["lens"].as_array().unwrap().iter().map(|x| x.as_u64().unwrap() as usize).collect();
        let answers: Vec<Ans> = sc["calls"]
            .as_array()
            .unwrap()
            .iter()
            .map(|c| match c["ans"].as_str().unwrap() {
                "acc" => Ans::Acc(c["k"].as_u64().unwrap() as usize),
                "zero" => Ans::Zero,
                "intr" => Ans::Intr,
                _ => Ans::Hard,
            })
            .collect();
        // distinct byte values, numbered in concatenation order
        let mut next = b'a';
        let bufs: Vec<Vec<u8>> = lens
            .iter()
            .map(|l| {
                (0..*l)
                    .map(|_| {
                        next += 1;
                        next - 1
                    })
                    .collect()
            })
            .collect();
        let reference: Vec<u8> = bufs.concat();
        let w = ScriptedW::new(Script::Fixed(answers, 0), true);
        let mut evs = vec![json!({"ev":"Entry","id":sc["id"]}), json!({"ev":"Start","lens":lens})];
        let refs: Vec<&[u8]> = bufs.iter().map(|b| &b[..]).collect();
        let mut out = w.clone();
        let r = util::catch(|| metrique_writer_format_emf::verif_write_all_vectored(&refs, &mut out));
        let st = w.0.borrow();
        evs.extend(st.events.iter().cloned());
        let (res, kind) = match &r {
            Ok(Ok(())) => ("ok", String::new()),
            Ok(Err(e)) => ("io", format!("{:?}", e.kind())),
            Err(p) => ("panic", p.clone()),
        };
        if res == "ok" {
            evs.push(json!({"ev":"LineDone"}));
        }
        evs.push(json!({"ev":"Ret","res":res,"kind":kind}));
        // direct checks against the property statement
        let mut bad: Vec<String> = Vec::new();
        if !reference.starts_with(&st.received) {
            bad.push(format!("bytes received {:?} are not a prefix of the record {:?} (duplicated, omitted or reordered bytes)",
                             String::from_utf8_lossy(&st.received), String::from_utf8_lossy(&reference)));
        }
        if res == "ok" && st.received != reference {
            bad.push(format!("returned Ok after delivering {} of {} bytes", st.received.len(), reference.len()));
        }
        if res == "io" && !st.fatal {
            bad.push("returned an I/O error although the writer never failed".to_string());
        }
        if res == "ok" && st.fatal {
            bad.push("returned Ok although the writer failed (Ok(0) or hard error)".to_string());
        }
        if res == "panic" {
            bad.push(format!("panicked: {kind}"));
        }
        if st.calls_after_fatal > 0 {
            bad.push(format!("{} further write calls after the writer failed (Ok(0) / hard error must end the call)", st.calls_after_fatal));
        }
        if st.empty_offers > 0 {
            bad.push(format!("{} write calls offering no bytes", st.empty_offers));
        }
        let model_res = sc["res"].as_str().unwrap_or("");
        let agrees = (model_res == "ok") == (res == "ok") && st.calls_beyond_script == 0;
        sink.put(&sc["id"], &evs, json!({"bad": bad, "res": res, "kind": kind, "model_res": model_res, "agrees": agrees,
                                         "calls": st.calls, "scenario": sc}));
    }
    sink.finish();
}

// ------------------------------------------------------------------------------------------
// random scripts on real EMF records
// ------------------------------------------------------------------------------------------

/// Are the received bytes explained by the reference output? Lines may come in any order
/// (split records are emitted in hash order): every complete received line must be one of the
/// reference lines (each used once); an unterminated tail must be a prefix of an unused one.
fn explain(received: &[u8], reference: &[u8], complete: bool) -> Result<(), String> {
    let mut pool: Vec<&[u8]> = reference.split_inclusive(|c| *c == b'\n').collect();
    let mut rest = received;
    while !rest.is_empty() {
        match rest.iter().position(|c| *c == b'\n') {
            Some(i) => {
                let line = &rest[..=i];
                match pool.iter().position(|l| *l == line) {
                    Some(p) => {
                        pool.swap_remove(p);
                    }
                    None => {
                        return Err(format!("received line is not a record of the entry (torn, duplicated or altered): {}",
                                           vharness::emfkinds::clip(&String::from_utf8_lossy(line))));
                    }
                }
                rest = &rest[i + 1..];
            }
            None => {
                if complete {
                    return Err("output does not end with a newline".to_string());
                }
                if !pool.iter().any(|l| l.starts_with(rest)) {
                    return Err(format!("partial line is not a prefix of a record of the entry: {}",
                                       vharness::emfkinds::clip(&String::from_utf8_lossy(rest))));
                }
                rest = &[];
            }
        }
    }
    if complete && !pool.is_empty() {
        return Err(format!("{} record(s) of the entry were never written", pool.len()));
    }
    Ok(())
}

/// How the formatter of a records scenario is connected to the writer: called directly, behind `output_to` (one
/// long-lived stream whose writer is swapped per entry), or behind `output_to_makewriter` (a fresh writer handle per
/// entry). The fault behaviour - what the writer receives, what the caller is told - must be the same on all three
/// (C16-m7: a buffering layer on the make-writer route whose drop swallows the error).
#[derive(Clone)]
struct SwapW(Rc<RefCell<Option<ScriptedW>>>);
impl io::Write for SwapW {
    fn write(&mut self, b: &[u8]) -> io::Result<usize> {
        self.0.borrow().clone().unwrap().write(b)
    }
    fn write_vectored(&mut self, bufs: &[io::IoSlice<'_>]) -> io::Result<usize> {
        self.0.borrow().clone().unwrap().write_vectored(bufs)
    }
    fn flush(&mut self) -> io::Result<()> {
        self.0.borrow().clone().unwrap().flush()
    }
}
impl<'a> tracing_subscriber::fmt::MakeWriter<'a> for SwapW {
    type Writer = ScriptedW;
    fn make_writer(&'a self) -> ScriptedW {
        self.0.borrow().clone().unwrap()
    }
}
enum Route {
    Direct(metrique_writer_format_emf::Emf),
    Stream(metrique_writer::format::FormattedEntryIoStream<metrique_writer_format_emf::Emf, SwapW>),
    Make(metrique_writer::format::FormattedMakeWriterEntryIoStream<metrique_writer_format_emf::Emf, SwapW>),
}

fn cmd_records(a: &HashMap<String, String>) {
    let scen = util::read_ndjson(util::arg_str(a, "scenarios", ""));
    let mut sink = Sink::new(a);
    let big = Big::new();
    for sc in scen {
        let cfg = sc["cfg"].as_str().unwrap();
        let seed = sc["seed"].as_u64().unwrap_or(1);
        let kinds: Vec<&str> = sc["kinds"].as_array().unwrap().iter().map(|k| k.as_str().unwrap()).collect();
        let (pi, pz, ph) = (sc["intr"].as_u64().unwrap_or(100) as u32, sc["zero"].as_u64().unwrap_or(20) as u32, sc["hard"].as_u64().unwrap_or(20) as u32);
        let small = sc["small"].as_bool().unwrap_or(false);
        // ONE formatter for the whole scenario: an entry after a failed one must format normally
        let f = match cfg {
            "s2d" | "sn1" | "wf" | "ws" | "wg" => panic!("records mode uses plain configurations"),
            _ => vharness::emfkinds::build_emf(cfg),
        };
        let swap = SwapW(Rc::new(RefCell::new(None)));
        let route = seed % 3;
        let mut f = {
            use metrique_writer::format::FormatExt;
            match route {
                0 => Route::Direct(f),
                1 => Route::Stream(f.output_to(swap.clone())),
                _ => Route::Make(f.output_to_makewriter(swap.clone())),
            }
        };
        let mut evs: Vec<Value> = Vec::new();
        let mut bad: Vec<String> = Vec::new();
        let mut entries: Vec<Value> = Vec::new();
        for (i, kind) in kinds.iter().enumerate() {
            let e = KEntry::new(kind, i as u64, &big);
            let reference = Formatter::build(cfg, 0, 0).call(&e);
            let w = ScriptedW::new(
                Script::Random { rng: util::rng(seed.wrapping_mul(1000).wrapping_add(i as u64)), intr: pi, zero: pz, hard: ph, small },
                false,
            );
            evs.push(json!({"ev":"Entry","id":i,"kind":kind}));
            let mut out = w.clone();
            *swap.0.borrow_mut() = Some(w.clone());
            let r = util::catch(|| {
                use metrique_writer_core::format::Format;
                use metrique_writer_core::stream::EntryIoStream;
                match &mut f {
                    Route::Direct(f) => f.format(&e, &mut out),
                    Route::Stream(s) => s.next(&e),
                    Route::Make(s) => s.next(&e),
                }
            });
            let st = w.0.borrow();
            evs.extend(st.events.iter().cloned());
            let (res, msg) = match &r {
                Ok(Ok(())) => ("ok", String::new()),
                Ok(Err(metrique_writer_core::IoStreamError::Io(x))) => ("io", format!("{:?}", x.kind())),
                Ok(Err(metrique_writer_core::IoStreamError::Validation(v))) => ("val", v.to_string()),
                Err(p) => ("panic", p.clone()),
            };
            evs.push(json!({"ev":"Ret","res":res}));
            let at = format!("entry #{i} ({kind}, route {})", ["direct", "output_to", "output_to_makewriter"][route as usize]);
            match reference.class {
                "ok" => {
                    if let Err(why) = explain(&st.received, &reference.bytes, res == "ok") {
                        bad.push(format!("{at}: {why}"));
                    }
                    if res == "ok" && st.fatal {
                        bad.push(format!("{at}: returned Ok although the writer failed"));
                    }
                    if res == "io" && !st.fatal {
                        bad.push(format!("{at}: returned an I/O error although the writer never failed"));
                    }
                    if res == "val" || res == "panic" {
                        bad.push(format!("{at}: {res} ({msg}) although an all-accepting writer gets the records"));
                    }
                }
                "val" => {
                    if res != "val" || !st.received.is_empty() {
                        bad.push(format!("{at}: a rejected entry produced {res} and {} bytes", st.received.len()));
                    }
                }
                other => bad.push(format!("{at}: reference formatter returned {other}")),
            }
            if st.calls_after_fatal > 0 {
                bad.push(format!("{at}: {} further write calls after the writer failed", st.calls_after_fatal));
            }
            if st.empty_offers > 0 {
                bad.push(format!("{at}: {} write calls offering no bytes", st.empty_offers));
            }
            entries.push(json!({"kind": kind, "res": res, "calls": st.calls, "received": st.received.len(),
                                "reference": reference.bytes.len(), "lines": reference.bytes.iter().filter(|c| **c == b'\n').count(),
                                "fatal": st.fatal}));
        }
        sink.put(&sc["id"], &evs, json!({"bad": bad, "entries": entries, "scenario": sc}));
    }
    sink.finish();
}

// ------------------------------------------------------------------------------------------
// sinks: FlushImmediately (typed / boxed / any) and Tee
// ------------------------------------------------------------------------------------------

fn cmd_sinks(a: &HashMap<String, String>) {
    let scripts = util::read_ndjson(util::arg_str(a, "scripts", ""));
    let mut out = std::io::BufWriter::new(std::fs::File::create(util::arg_str(a, "out", "")).unwrap());
    for (n, sc) in scripts.iter().enumerate() {
        trace::set_epoch(n as u64 + 1);
        let sink = sc["sink"].as_str().unwrap();
        let steps = sc["steps"].as_array().unwrap();
        let a_ctl = StreamCtl::tagged("a");
        let b_ctl = StreamCtl::tagged("b");
        for (i, st) in steps.iter().enumerate() {
            a_ctl.script(i as u64 + 1, Res::parse(st["a"].as_str().unwrap_or("ok")));
            b_ctl.script(i as u64 + 1, Res::parse(st["b"].as_str().unwrap_or("ok")));
        }
        // every variant is reduced to "append entry i"
        let append: Box<dyn Fn(NumEntry)> = match sink {
            "imm_typed" => {
                let s = FlushImmediately::<NumEntry, _>::new(a_ctl.stream());
                Box::new(move |e| s.append(e))
            }
            "imm_boxed" => {
                let s = FlushImmediatelyBuilder::new().build_boxed(a_ctl.stream());
                Box::new(move |e| s.append_any(e))
            }
            "imm_any" => {
                let s = FlushImmediatelyBuilder::new().build_any(a_ctl.stream());
                Box::new(move |e| s.append_any(e))
            }
            "tee" => {
                let s = FlushImmediately::<NumEntry, _>::new(tee(a_ctl.stream(), b_ctl.stream()));
                Box::new(move |e| s.append(e))
            }
            "tee_any" => {
                let s = FlushImmediatelyBuilder::new().build_any(tee(a_ctl.stream(), b_ctl.stream()));
                Box::new(move |e| s.append_any(e))
            }
            other => panic!("unknown sink {other}"),
        };
        let mut panics: Vec<Value> = Vec::new();
        for (i, st) in steps.iter().enumerate() {
            a_ctl.flush_errors(st["fa"].as_bool().unwrap_or(false));
            b_ctl.flush_errors(st["fb"].as_bool().unwrap_or(false));
            trace::ev(json!({"ev":"Append","e":i + 1}));
            if let Err(p) = util::catch(|| append(NumEntry(i as u64 + 1))) {
                panics.push(json!({"entry": i + 1, "message": p}));
                trace::ev(json!({"ev":"Panic","e":i + 1}));
            }
            trace::ev(json!({"ev":"AppendEnd","e":i + 1}));
        }
        drop(append);
        let evs = trace::take();
        serde_json::to_writer(&mut out, &json!({"id": sc["id"], "events": evs, "panics": panics})).unwrap();
        out.write_all(b"\n").unwrap();
    }
    out.flush().unwrap();
}

fn main() {
    let (cmd, a) = util::args();
    match cmd.as_str() {
        "scripts" => cmd_scripts(&a),
        "records" => cmd_records(&a),
        "sinks" => cmd_sinks(&a),
        _ => {
            eprintln!("usage: vw scripts|records|sinks ...");
            std::process::exit(2);
        }
    }
}
