--------------------------- MODULE StopwatchConc ---------------------------
(***************************************************************************)
(* C18, concurrent part: several owned guards (Stopwatch::start_owned) of   *)
(* one stopwatch are live at once and are completed on different threads.   *)
(* They share the accumulated duration through Arc<Mutex<Option<Duration>>>. *)
(*                                                                         *)
(* Implementation-shaped layer: completing a guard (drop / stop) captures    *)
(* its span and adds it to the cell in ONE critical section - the            *)
(* linearization point is `*guard = Some(guard.unwrap_or_default() + rhs)`   *)
(* under the mutex (SharedDuration::add_assign).  Discard completes the      *)
(* guard without touching the cell.  Mode = "split" is a deliberately broken *)
(* variant (read the cell, release the lock, write cell + span under a       *)
(* second lock) used as negative model.                                      *)
(*                                                                         *)
(* Property layer: whatever the interleaving, once every guard is completed  *)
(* the stopwatch reports the total of the completed, non-discarded spans     *)
(* (None if there is none); at every moment the cell holds exactly the spans *)
(* of the guards whose completion has taken effect.                          *)
(* (Overwrite from several threads at once is not part of this model: its    *)
(* result depends on the order of the take, which a trace cannot observe.)   *)
(***************************************************************************)
EXTENDS Integers, FiniteSets, TLC

CONSTANTS Guards,     \* guard ids; guard g has span SpanOf(g) when it is completed
          Mode        \* "atomic" | "split"

None == -1
\* distinct powers of two: any lost or doubled span changes the total
RECURSIVE Pow2(_)
Pow2(n) == IF n = 0 THEN 1 ELSE 2 * Pow2(n - 1)
SpanOf(g) == Pow2(g - 1)

VARIABLES cell,       \* None | Nat
          st,         \* guard -> "live" | "read" | "kept" | "discarded"
          tmp         \* split mode: value read by the guard's thread

cvars == <<cell, st, tmp>>
Init == cell = None /\ st = [g \in Guards |-> "live"] /\ tmp = [g \in Guards |-> None]

Plus(acc, s) == IF acc = None THEN s ELSE acc + s

\* drop(guard) / guard.stop(): one critical section
Complete(g) ==
    /\ Mode = "atomic" /\ st[g] = "live"
    /\ cell' = Plus(cell, SpanOf(g))
    /\ st' = [st EXCEPT ![g] = "kept"] /\ UNCHANGED tmp

\* the guard is dropped by a panic unwinding through its scope: the same completion
CompleteByUnwind(g) == st[g] = "live" /\ Complete(g)

\* broken variant: get() ... set() with the lock released in between
Read(g) ==
    /\ Mode = "split" /\ st[g] = "live"
    /\ tmp' = [tmp EXCEPT ![g] = cell] /\ st' = [st EXCEPT ![g] = "read"] /\ UNCHANGED cell
Write(g) ==
    /\ Mode = "split" /\ st[g] = "read"
    /\ cell' = Plus(tmp[g], SpanOf(g)) /\ st' = [st EXCEPT ![g] = "kept"] /\ UNCHANGED tmp

Discard(g) ==
    /\ st[g] = "live"
    /\ st' = [st EXCEPT ![g] = "discarded"] /\ UNCHANGED <<cell, tmp>>

Next == \E g \in Guards : Complete(g) \/ CompleteByUnwind(g) \/ Read(g) \/ Write(g) \/ Discard(g)
Spec == Init /\ [][Next]_cvars

RECURSIVE SumSpans(_)
SumSpans(S) == IF S = {} THEN 0 ELSE LET g == CHOOSE x \in S : TRUE IN SpanOf(g) + SumSpans(S \ {g})
\* the total of a set of kept guards, as the stopwatch must report it (also used by the trace spec's rule)
Kept(S) == IF S = {} THEN None ELSE SumSpans(S)

KeptNow == {g \in Guards : st[g] = "kept"}
\* at every moment the cell holds exactly the spans whose completion has taken effect
Conservation == cell = Kept(KeptNow)
\* closing after every guard is completed
Quiescent == \A g \in Guards : st[g] \in {"kept", "discarded"}
CloseOK == Quiescent => cell = Kept(KeptNow)
ConcInv == Conservation /\ CloseOK
=============================================================================
