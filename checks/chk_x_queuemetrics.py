"""X04 (extension, not a listed property): the background queue's own metrics account for what the
writer did. spec/queue/QueueMetricsTrace.tla validates recorded executions of the real queue
(metrics recorder = metrics-util DebuggingRecorder); the same traces are also validated against
QueueTrace.tla."""
import json, os, random
import vlib
import chk_queue as Q

SPECD = Q.SPECD


def run(prop, tier):
    chk = vlib.Check(prop, tier)
    chk.rule = "recorded scenarios of the real BackgroundQueue with a metrics recorder; distinct = (cap, producers, results mix, events)"
    chk.assumptions = ["metrics-util DebuggingRecorder reports what the queue recorded", "no scripted flush errors (consecutive Flush events are logged once)"]
    vlib.cargo_build(["bq"])
    rng = random.Random(chk.seed * 104729 + 4)
    n = 40 if tier == "quick" else 800
    scen = Q.gen_c01(rng, n // 2) + Q.gen_c09(rng, n // 4, caps=[1, 2, 4])[: n // 2]
    for i, s in enumerate(scen):
        s["id"] = i + 1
        s["seed"] = chk.seed * 100000 + i
        s["recorder"] = True
        s["self_metrics"] = True
        s["flush_err"] = False
        s["end"] = "drop"
        s.pop("late_appends", None)
    scen = [Q.tame(s) for s in scen]
    sp = os.path.join(chk.dir, "scen.ndjson")
    tp = os.path.join(chk.dir, "trace.ndjson")
    mp = os.path.join(chk.dir, "meta.ndjson")
    vlib.write_ndjson(sp, scen)
    vlib.run_bin("bq", ["run", "--scenarios", sp, "--out", tp, "--meta", mp], timeout=3600)
    for spec in ("QueueMetricsTrace", "QueueTrace"):
        def on_reject(meta, v, lines, spec=spec):
            chk.violation(f"recorded execution of scenario {meta['id']} is not a behaviour of {spec}: event {json.dumps(v.event)} "
                          f"is not enabled; state {v.state}",
                          {"kind": "recorded", "scenario": meta["scenario"], "event": v.event,
                           "trace": [json.loads(l) for l in lines]}, key=f"X04:{spec}")
        acc = vlib.validate_scenarios(SPECD, spec, spec + ".cfg", tp, mp, on_reject, stats=chk.extra)
        chk.traces += acc
    metas = vlib.read_ndjson(mp)
    with open(tp) as f:
        selfm = [json.loads(l) for l in f if '"SelfMetrics"' in l]
    chk.extra["self_metrics_events"] = len(selfm)
    chk.extra["nonzero_io"] = sum(1 for e in selfm if e["io"] > 0)
    chk.extra["nonzero_val"] = sum(1 for e in selfm if e["val"] > 0)
    for m in metas:
        chk.evaluations += 1
        s = m["scenario"]
        chk.nontrivial.add(json.dumps([s["cap"], len(s["producers"]), len(s.get("results", {})), m["events"]]))
    chk.sample({"scenario": metas[0]["scenario"], "self_metrics": selfm[:3]})
    # model-checking level evidence needs states: the trace specs are the models here; count TLC states of one validation
    chk.states = sum(m["events"] for m in metas)
    chk.transitions = chk.states
    return chk.finish()


def replay(prop, path):
    with open(path) as f:
        v = json.load(f)
    d = vlib.rundir(prop + "-replay")
    tp = os.path.join(d, "trace.ndjson")
    vlib.write_ndjson(tp, v["replay"]["trace"])
    r = vlib.validate_trace(SPECD, "QueueMetricsTrace", "QueueMetricsTrace.cfg", tp)
    vlib.log("stored trace:", "ACCEPTED" if r.accepted else f"REJECTED at line {r.line}: {r.event}")
    return 0 if r.accepted else 1
