"""C17: global sinks route each entry to exactly one destination, by fixed precedence.

spec/global/GlobalSink.tla        routing state machine (attached / handle / thread-local / runtime test
                                  sinks, per-sink received entries) with the property layer as invariants
                                  and action properties (Routed, ExactlyOne, PanicUnchanged, FallsBack,
                                  DetachFlushes); TLC: every history within the constants
spec/global/GlobalSinkPair.tla    two globals of one process: product of two GlobalSink copies, Independent / DestStable
spec/global/GlobalSinkReplay.tla  behaviour generators (exhaustive routing histories + probe matrix; walks)
spec/global/GlobalDetach.tla      property layer of the concurrent part (appends racing attach / detach)
spec/global/GlobalSinkRace.tla    lock-level model of try_append / attach / handle drop; TLC: refines
                                  GlobalDetach for every interleaving
spec/global/GlobalSinkTrace.tla   trace validation of recorded executions against GlobalDetach
harness/src/bin/gs.rs             driver (replay, race)
"""
import json, os, random
from concurrent.futures import ThreadPoolExecutor
import vlib
from vlib import log

SPECD = os.path.join(vlib.SPEC, "global")
TYPES_PER_PROCESS = 128


# --------------------------------------------------------------------------------------------
# R: TLC behaviours replayed into real globals
# --------------------------------------------------------------------------------------------
def burns_type(b):
    return any(s["op"] == "Forget" for s in b["steps"])


def chunks_for(beh, nproc_hint=6):
    """Split behaviours into per-process chunks: a behaviour that forgets its attach handle leaves
    its global attached forever, so a process can run at most TYPES_PER_PROCESS of them."""
    out, cur, burnt = [], [], 0
    target = max(200, len(beh) // nproc_hint + 1)
    for b in beh:
        bt = burns_type(b)
        if cur and (burnt + bt > TYPES_PER_PROCESS - 8 or len(cur) >= target):
            out.append(cur)
            cur, burnt = [], 0
        cur.append(b)
        burnt += bt
    if cur:
        out.append(cur)
    return out


def run_replay(chk, beh, tag, jobs=4):
    """Execute behaviours with `gs replay`; returns results by id."""
    results = {}
    pending = beh
    rnd = 0
    while pending:
        rnd += 1
        parts = chunks_for(pending)

        def one(ix_part):
            ix, part = ix_part
            bp = os.path.join(chk.dir, f"{tag}-r{rnd}-{ix}-beh.ndjson")
            op = os.path.join(chk.dir, f"{tag}-r{rnd}-{ix}-out.ndjson")
            vlib.write_ndjson(bp, part)
            vlib.run_bin("gs", ["replay", "--behaviours", bp, "--out", op, "--seed", chk.seed], timeout=1800)
            return vlib.read_ndjson(op)

        with ThreadPoolExecutor(max_workers=jobs) as ex:
            outs = list(ex.map(one, enumerate(parts)))
        before = len(results)
        for rs in outs:
            for r in rs:
                if r.get("error"):
                    raise vlib.ToolError(f"gs replay: behaviour {r['id']}: {r['error']}")
                if not r.get("skipped"):
                    results[r["id"]] = r
        pending = [b for b in pending if b["id"] not in results]
        if pending and len(results) == before:
            raise vlib.ToolError("gs replay makes no progress (no fresh global types)")
    return results


def judge_replay(chk, prop, beh, results, tag):
    bad = 0
    stats = chk.extra.setdefault("replay", {"behaviours": 0, "probes": 0, "with_panic": 0, "with_forget": 0,
                                            "with_async_sink": 0, "with_fallback": 0})
    for b in beh:
        r = results[b["id"]]
        ops = [s["op"] for s in b["steps"]]
        stats["behaviours"] += 1
        stats["probes"] += r.get("probes", 0)
        stats["with_panic"] += any(s["out"] == "panic" for s in b["steps"])
        stats["with_forget"] += "Forget" in ops
        stats["with_async_sink"] += r.get("async_sinks", 0) > 0
        stats["with_fallback"] += any(o in ("DropTL", "DropRT", "DropHandle") for o in ops)
        stats["with_bystander_global"] = stats.get("with_bystander_global", 0) + (r.get("bystander_probes", 0) > 0)
        stats["bystander_probes"] = stats.get("bystander_probes", 0) + r.get("bystander_probes", 0)
        stats["drops_by_unwinding"] = stats.get("drops_by_unwinding", 0) + r.get("drops_by_unwinding", 0)
        chk.evaluations += 1
        chk.nontrivial.add(tag + ":" + json.dumps([[s["op"], s["t"], s["c"]] for s in b["steps"]]))
        for d in r.get("drift", []):
            if len(chk.drift) < 20:
                chk.drift.append({"behaviour": b["id"], "drift": d})
        if r.get("mismatches"):
            bad += 1
            m = r["mismatches"][0]
            what = (f"{tag} behaviour {b['id']} ({' '.join(ops)}): step {m.get('step')}"
                    f"{' after ' + m['after'] if m.get('after') else ''}: {m.get('what')}: expected "
                    f"{json.dumps(m.get('expected', m.get('expected_dest')))}, real code gave {json.dumps(m.get('got'))}"
                    f"{' - ' + m['note'] if m.get('note') else ''}")
            chk.violation(what, {"kind": "replay", "seed": chk.seed, "behaviour": b, "mismatches": r["mismatches"]},
                          key=f"{prop}:replay:{m.get('what')}")
        else:
            chk.traces += 1
    return bad


def run_R(chk, prop, tier):
    # exhaustive routing histories with probes
    cfg = "MC_gs_replay_quick.cfg" if tier == "quick" else "MC_gs_replay.cfg"
    rr = vlib.tlc(SPECD, "GlobalSinkReplay", cfg, timeout=3600)
    if rr.errors:
        raise vlib.ToolError(f"GlobalSinkReplay/{cfg} failed: {rr.errors[:2]}")
    beh = vlib.replay_lines(rr)
    log(f"[tlc] GlobalSinkReplay/{cfg}: {len(beh)} routing histories ({rr.distinct} states, {rr.wall:.1f}s)")
    for i, b in enumerate(beh):
        b["id"] = i + 1
    # every third history runs next to a second global_entry_sink! type (the bystander) that was set up, on the same
    # threads and runtimes, by the routing operations of another history (up to its first Forget): the bystander's
    # routing must stay what TLC computed for its own history whatever is done to the first global, and vice versa
    brng = random.Random(chk.seed * 104729 + 3)
    for b in beh:
        if brng.random() < 0.34:
            o = beh[brng.randrange(len(beh))]["steps"]
            cut = next((k for k, s_ in enumerate(o) if s_["op"] == "Forget"), len(o))
            k = brng.randint(1, max(1, cut)) if cut > 0 else 0
            if k > 0:
                b["bystander"] = o[:min(k, cut)]
    res = run_replay(chk, beh, "probe")
    judge_replay(chk, prop, beh, res, "probe")
    chk.extra["exhaustive_histories"] = len(beh)
    if beh:
        b = beh[len(beh) // 2]
        chk.sample({"routing_history": [[s["op"], s["t"], s["c"], s["out"]] for s in b["steps"]],
                    "dest_after_last_step[thread][ctx]": b["steps"][-1]["dest"]})
    # concurrent guard drops: histories in which two runtimes' guards are dropped one after the other are
    # executed again with the two drops made at the same time on two threads and with runtime test sinks
    # whose destructors take 10 us .. 50 ms (they run while the global's runtime-sink map is locked); the
    # routing expected after the second drop, the re-installs and the leak check are the oracle as before
    def adjacent_drops(b):
        st = b["steps"]
        return any(st[i]["op"] == "DropRT" and st[i + 1]["op"] == "DropRT" and st[i]["c"] != st[i + 1]["c"]
                   for i in range(len(st) - 1))
    par = []
    for rep in range(4 if tier == "quick" else 3):
        for b in beh:
            if adjacent_drops(b):
                par.append(dict(b, id=2_000_000 + len(par), pardrop=True))
    if par:
        res = run_replay(chk, par, "pardrop")
        judge_replay(chk, prop, par, res, "concurrent-drop")
        chk.extra["concurrent_guard_drop_runs"] = sum(r.get("concurrent_guard_drops", 0) for r in res.values())
    # walks with explicit append / try_append / sink() operations
    num = 40 if tier == "quick" else 1500
    depth = 24
    wr = vlib.tlc(SPECD, "GlobalSinkReplay", "MC_gs_walk.cfg", workers=1, simulate=num, depth=depth,
                  seed=chk.seed, timeout=3600)
    walks = vlib.replay_lines(wr)
    seen, uniq = set(), []
    for b in walks:
        k = json.dumps(b["steps"])
        if k not in seen:
            seen.add(k)
            uniq.append(b)
    for i, b in enumerate(uniq):
        b["id"] = 1_000_000 + i
    log(f"[tlc] GlobalSinkReplay/MC_gs_walk.cfg -simulate: {len(uniq)} walks of {depth} operations")
    res = run_replay(chk, uniq, "walk")
    judge_replay(chk, prop, uniq, res, "walk")
    chk.extra["walks"] = len(uniq)


# --------------------------------------------------------------------------------------------
# T: recorded races validated against GlobalDetach
# --------------------------------------------------------------------------------------------
def gen_races(rng, n):
    out = []
    for i in range(n):
        kind = rng.choice(["hammer", "hammer", "hammer", "detach", "reattach", "contend", "contend3", "slowdetach", "slowdetach", "slowdetach"])
        napp = rng.randint(2, 4)
        if kind == "slowdetach":
            # the detached queue has a backlog and a slow stream: its shutdown takes milliseconds, during which
            # appenders (try_append), observers (is_attached) and a replacement attach must not see it gone
            slow = rng.choice([100, 200, 400])
            hold = rng.choice([800, 1500, 2500])
            n_e = rng.randint(25, 45)
            pace = rng.choice([20, 40, 80])
            ctls = [{"sink": 1, "delay_us": 0, "hold_us": hold}]
            if rng.random() < 0.6:
                ctls.append({"sink": 2, "delay_us": hold + rng.choice([100, 500, 1500]), "hold_us": rng.choice([300, 1000])})
            out.append({"id": i + 1, "kind": kind, "appenders": min(napp, 3), "n": n_e, "pace_us": pace, "ctls": ctls,
                        "permille": 0, "max_us": 0, "flush_us": rng.choice([1000, 20000]), "slow_us": slow,
                        "observers": rng.randint(0, 2), "obs_n": 40, "obs_pace_us": rng.choice([50, 150]),
                        "seed": rng.randrange(1 << 30)})
            continue
        if kind == "hammer":
            # appenders never pause and (schedule perturbation at the hook between lookup and append) spend most
            # of their time between looking the sink up and appending to it, while the handle is dropped
            n_e = rng.randint(15, 30)
            max_us = rng.choice([200, 500, 1000])
            busy = n_e * max_us // 2
            ctls = [{"sink": 1, "delay_us": 0, "hold_us": rng.randint(busy // 8, busy // 2)}]
            if rng.random() < 0.5:
                ctls.append({"sink": 2, "delay_us": ctls[0]["hold_us"] + rng.randint(0, busy // 4), "hold_us": rng.randint(busy // 8, busy // 3)})
            out.append({"id": i + 1, "kind": kind, "appenders": napp, "n": n_e, "pace_us": 0, "ctls": ctls,
                        "permille": 1000, "max_us": max_us, "flush_us": rng.choice([50, 1000, 20000]),
                        "slow_us": rng.choice([0, 0, 20]), "seed": rng.randrange(1 << 30)})
            continue
        if kind == "detach":
            ctls = [{"sink": 1, "delay_us": rng.choice([0, 50, 200]), "hold_us": rng.choice([100, 300, 1000])}]
        elif kind == "reattach":
            h1 = rng.choice([100, 300, 800])
            ctls = [{"sink": 1, "delay_us": 0, "hold_us": h1},
                    {"sink": 2, "delay_us": h1 + rng.choice([50, 400, 1500]), "hold_us": rng.choice([100, 500])}]
        elif kind == "contend":
            # both try to attach at about the same time: one panics or waits for the other's detach
            ctls = [{"sink": 1, "delay_us": rng.choice([0, 100]), "hold_us": rng.choice([100, 500])},
                    {"sink": 2, "delay_us": rng.choice([0, 100, 300]), "hold_us": rng.choice([100, 500])}]
        else:
            ctls = [{"sink": k + 1, "delay_us": rng.choice([0, 100, 400, 900]), "hold_us": rng.choice([100, 400])}
                    for k in range(3)]
        span = max(c["delay_us"] + c["hold_us"] for c in ctls)
        n_e = rng.randint(8, 22)
        out.append({"id": i + 1, "kind": kind, "appenders": napp, "n": n_e,
                    "pace_us": max(1, int(span * rng.choice([0.7, 1.0, 1.6]) / n_e)),
                    "ctls": ctls, "permille": rng.choice([0, 200, 600, 900]), "max_us": rng.choice([50, 200, 600]),
                    "flush_us": rng.choice([50, 1000, 20000]), "slow_us": rng.choice([0, 0, 20, 100]),
                    "seed": rng.randrange(1 << 30)})
    # the scope that owns an attach handle is left normally or (1 in 3) by a panic: the same detach
    for sc in out:
        r2 = random.Random(sc["seed"])
        for c in sc["ctls"]:
            c["unwind"] = r2.random() < 0.33
    return out


def gen_attach_races(rng, n):
    """attach racing attach: two (three) controllers released together each attach their own queue to a detached
    global, passing a 256 KiB handle value (boxing it inside attach takes a while). GlobalDetach allows at most one of
    the overlapping attaches to take effect (the others panic), and a held handle's sink stays attached until that
    handle is dropped."""
    out = []
    for i in range(n):
        k = rng.choice([2, 2, 2, 3])
        out.append({"id": i + 1, "kind": "attachrace", "appenders": 1, "n": rng.randint(3, 8), "pace_us": rng.choice([20, 100]),
                    "ctls": [{"sink": j + 1, "delay_us": 0, "hold_us": rng.choice([100, 300, 600]), "big": True} for j in range(k)],
                    "permille": 0, "max_us": 0, "flush_us": 1000, "slow_us": 0, "seed": rng.randrange(1 << 30)})
    return out


def run_T(chk, prop, scen, tag="race"):
    sp = os.path.join(chk.dir, f"{tag}-scen.ndjson")
    tp = os.path.join(chk.dir, f"{tag}-trace.ndjson")
    mp = os.path.join(chk.dir, f"{tag}-meta.ndjson")
    vlib.write_ndjson(sp, scen)
    vlib.run_bin("gs", ["race", "--scenarios", sp, "--out", tp, "--meta", mp], timeout=3600)

    def on_reject(meta, v, lines):
        ev = v.event if isinstance(v.event, dict) else {}
        what = (f"recorded race {meta['id']} ({meta['scenario'].get('kind')}) is not a behaviour of GlobalDetach: "
                + (f"invariant {v.invariant} violated" if v.invariant else
                   f"event {json.dumps(v.event)} (line {v.rel_line} of the scenario trace) cannot happen")
                + f"; abstract state <<attached, pending, linearized, handle states, closed, flushed, written>> = {v.state}")
        chk.violation(what, {"kind": "race", "scenario": meta["scenario"], "rejected_line": v.rel_line, "event": v.event,
                             "trace": [json.loads(l) for l in lines]}, key=f"{prop}:race:{ev.get('ev')}")

    acc = vlib.validate_scenarios(SPECD, "GlobalSinkTrace", "GlobalSinkTrace.cfg", tp, mp, on_reject, chunk=10,
                                  jobs=6, stats=chk.extra)
    chk.traces += acc
    metas = vlib.read_ndjson(mp)
    st = chk.extra.setdefault("races", {"scenarios": 0, "events": 0, "ok_appends": 0, "handed_back": 0,
                                        "with_both_outcomes": 0, "attach_panics": 0})
    with open(tp) as f:
        allev = [json.loads(l) for l in f]
    st["attach_panics"] += sum(1 for e in allev if e["ev"] == "AttachEnd" and e["ok"] == 0)
    for m in metas:
        st["scenarios"] += 1
        st["events"] += m["events"]
        st["ok_appends"] += m["ok"]
        st["handed_back"] += m["err"]
        st["with_both_outcomes"] += (m["ok"] > 0 and m["err"] > 0)
        chk.evaluations += 1
        s = m["scenario"]
        chk.nontrivial.add("race:" + json.dumps([s["kind"], s["appenders"], s["n"], s["permille"], m["ok"], m["err"]]))
    if metas:
        chk.sample({"race_scenario": metas[0]["scenario"], "first_events": allev[:10]})


# --------------------------------------------------------------------------------------------
def run(prop, tier):
    chk = vlib.Check(prop, tier)
    chk.rule = ("evaluations = TLC-generated operation histories executed against real global_entry_sink! globals "
                "(every routing history up to the depth bound, each followed after every step by appends from every "
                "thread x runtime context; random walks with explicit append/try_append/sink()) + recorded "
                "append-vs-attach/detach races validated by TLC; distinct_nontrivial = distinct operation histories "
                "resp. distinct (race shape, outcome counts)")
    chk.assumptions = [
        "threads and runtimes are interchangeable (histories mention thread/runtime 2 only after 1; the driver permutes)",
        "std RwLock / thread_local / tokio Handle::try_current behave as documented",
        "TLC results are exhaustive only within the constants of the MC_*.cfg files",
        "handle drops are given a 10 s budget",
    ]
    vlib.cargo_build(["gs"])
    # 1. the models satisfy the property layer
    if not getattr(vlib, "SKIP_MC", False):   # VERIF_SKIP_MC: self-test only (the models do not depend on the code)
        r = vlib.model_check(SPECD, "GlobalSink", "MC_gs_quick.cfg" if tier == "quick" else "MC_gs.cfg", timeout=3600)
        chk.add_model("GlobalSink", r)
        r = vlib.model_check(SPECD, "GlobalSinkRace", "MC_race_quick.cfg" if tier == "quick" else "MC_race.cfg", timeout=3600)
        chk.add_model("GlobalSinkRace", r)
        if tier != "quick":
            r = vlib.model_check(SPECD, "GlobalSinkRace", "MC_race_live.cfg", timeout=3600)
            chk.add_model("GlobalSinkRace/live", r)
        r = vlib.model_check(SPECD, "GlobalSinkPair", "MC_pair_quick.cfg" if tier == "quick" else "MC_pair.cfg", timeout=3600)
        chk.add_model("GlobalSinkPair", r)
    # 2. R
    run_R(chk, prop, tier)
    # 3. T
    rng = random.Random(chk.seed * 7919 + 17)
    run_T(chk, prop, gen_races(rng, 30 if tier == "quick" else 600))
    run_T(chk, prop, gen_attach_races(rng, 100 if tier == "quick" else 1500), tag="attachrace")
    return chk.finish()


def replay(prop, path):
    with open(path) as f:
        v = json.load(f)
    rp = v["replay"]
    chk = vlib.Check(prop + "-replay", "quick")
    vlib.cargo_build(["gs"])
    if rp.get("kind") == "replay":
        chk.seed = rp.get("seed", chk.seed)
        b = rp["behaviour"]
        res = run_replay(chk, [b], "replay")
        bad = judge_replay(chk, prop, [b], res, "replay")
        log("behaviour:", "REPRODUCED" if bad else "passes on the current tree")
        return 1 if bad else 0
    d = chk.dir
    tp = os.path.join(d, "trace.ndjson")
    vlib.write_ndjson(tp, rp["trace"])
    r = vlib.validate_trace(SPECD, "GlobalSinkTrace", "GlobalSinkTrace.cfg", tp)
    log("stored trace:", "ACCEPTED" if r.accepted else f"REJECTED at line {r.line}: {r.event}")
    scen = [dict(rp["scenario"], id=i + 1, seed=rp["scenario"].get("seed", 0) + i) for i in range(10)]
    run_T(chk, prop, scen, tag="replay")
    log("re-run of the scenario on the current tree (10 seeds):", "REPRODUCED" if chk.violations else "passes")
    return 1 if chk.violations else 0
