---------------------------- MODULE VPStreamHist ----------------------------
(***************************************************************************)
(* C15, histories: ONE long-lived stream-level / format-level wrapper       *)
(* (merge_globals, merge_global_dimensions, ForceFlag stream) receives a    *)
(* sequence of entries while the stream / format behind it answers Ok, an   *)
(* I/O error or a validation error.  What the inner stream / format is      *)
(* handed for an entry is the entry plus the wrapper's documented additions *)
(* - and nothing else: in particular it does not depend on what happened    *)
(* to earlier entries.  `faulted` is a history variable (an inner call has  *)
(* failed before); the expectation `out` is stated without it and           *)
(* HistoryIndependent is checked in the states with faulted = TRUE and      *)
(* with faulted = FALSE alike.                                              *)
(***************************************************************************)
EXTENDS ValuePipeline, Json

CONSTANTS Depth
VARIABLES wrapper, hist, faulted, out
vars == <<wrapper, hist, faulted, out>>

DenyList == {"f64", "rich", "gm"}
Wrappers ==
    {[EW("GDimsStream") EXCEPT !.ds = <<"z">>, !.deny = DenyList], [EW("GDimsStream") EXCEPT !.ds = <<"x", "y">>],
     [EW("GDimsFormat") EXCEPT !.ds = <<"z", "x">>, !.deny = DenyList], [EW("GDimsFormat") EXCEPT !.ds = <<"y">>],
     EW("MergeStream"), EW("MergeFormat"), [EW("FlagStream") EXCEPT !.f = "A"], [EW("FlagStream") EXCEPT !.f = "0"]}
Results == {"ok", "io", "val"}

Compact(it) == IF it.t = "val" THEN [t |-> "val", name |-> it.name, call |-> it.call] ELSE [t |-> it.t, id |-> it.id]
Init == wrapper \in Wrappers /\ hist = <<>> /\ faulted = FALSE /\ out = EntryEmpty
Send(r) ==
    LET o == ApplyE(wrapper, EntryH)
    IN  /\ out' = o
        /\ hist' = Append(hist, [entry |-> "H", res |-> r, faulted_before |-> faulted,
                                  items |-> [i \in DOMAIN o.items |-> Compact(o.items[i])], sg |-> o.sg])
        /\ faulted' = (faulted \/ r # "ok")
        /\ UNCHANGED wrapper
Next == \E r \in Results : Send(r)
Spec == Init /\ [][Next]_vars
Bound == Len(hist) <= Depth

HistoryIndependent ==
    hist # <<>> => /\ out = ApplyE(wrapper, EntryH)
                   /\ out = DenoteE("H", <<wrapper>>)
                   \* every step of the history was handed the same thing, whatever came before it
                   /\ \A i \in DOMAIN hist : hist[i].items = hist[1].items /\ hist[i].sg = hist[1].sg
\* the additions are really there in the faulted states too (not vacuous): some metric of the entry carries them
AdditionsPresent ==
    (hist # <<>> /\ faulted) =>
        CASE wrapper.w \in DimDeny -> \E i \in DOMAIN out.items : out.items[i].t = "val" /\ out.items[i].call.dims # EntryH.items[i].call.dims
          [] wrapper.w \in FlagAll /\ wrapper.f # "0" -> \E i \in DOMAIN out.items : out.items[i].t = "val" /\ wrapper.f \in out.items[i].call.flags
          [] wrapper.w \in MergeFirst -> SubSeq(out.items, 1, Len(EntryG.items)) = EntryG.items
          [] OTHER -> TRUE
Emit == Len(hist) = Depth => PrintT(<<"REPLAY", ToJson([wrapper |-> wrapper, steps |-> hist])>>)
EmitUnits == hist = <<>> => PrintT(<<"UNITS", ToJson([u \in UnitIds |-> U(u).name])>>)
=============================================================================
