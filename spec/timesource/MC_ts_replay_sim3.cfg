CONSTANTS
  Users = {"t1", "t2", "t3"}
  Workers = {"r1"}
  Runtimes = {"r1", "r2"}
  Sources = {"m1", "m2", "tk", "st"}
  Static = {"st"}
  TLVals = {"m1", "m2", "sys"}
  RtVals = {"tk", "st", "m2"}
  XVals = {"m1", "st"}
  MaxGuards = 3
  MaxEnter = 2
  MaxClock = 1000
  MaxInst = 3
  Deltas = {1, 2}
  Actors = {"t1", "t2", "t3", "r1"}
  Ops = {"Set", "With", "Drop", "Enter", "RtInstall", "RtInstallCur", "RtDrop", "Take", "Advance"}
  Depth = 30
  Bug = "none"
SPECIFICATION RSpec
INVARIANTS Emit
CHECK_DEADLOCK FALSE
