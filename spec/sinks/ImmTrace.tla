------------------------------ MODULE ImmTrace ------------------------------
(***************************************************************************)
(* Trace validation for X02 (b): is the event log recorded from threads     *)
(* appending concurrently to one FlushImmediately (harness/src/bin/imm.rs,  *)
(* `imm conc`) a behaviour of ImmediateFlush?                               *)
(*                                                                         *)
(*   Reset              a new scenario (fresh sink and stream)              *)
(*   AppStart(t,e)      thread t is about to call append(e)   (caller)      *)
(*   Next(t,e,res)      the stream's next was called with e, answers res    *)
(*   Flush(t,res)       the stream's flush was called                       *)
(*                      - both logged by the stream itself, i.e. while the  *)
(*                        calling thread holds whatever lock the sink uses  *)
(*   AppEnd(t,e)        append(e) returned                     (caller)     *)
(*   Panic(t,e)         append(e) panicked                     (caller)     *)
(*   FlushAsync(t,ready) flush_async() polled once                          *)
(*                                                                         *)
(* Lock and Unlock are not logged: Lock(t) is a silent step taken just      *)
(* before t's Next, Unlock(t) a silent step forced right after t's Flush    *)
(* (nothing else may happen in between), so validation is deterministic.    *)
(* Strict = TRUE (Bug = "none"): the implementation-shaped model - a flush  *)
(* after every next that did not panic, nothing after poisoning.            *)
(* Strict = FALSE (Bug = "recover"): property layer only - the flush after  *)
(* a FAILED next may be skipped, an append after a panic may go through.    *)
(***************************************************************************)
EXTENDS ImmediateFlush, Json, IOUtils

CONSTANT Strict

Rec == ndJsonDeserialize(IOEnv.TRACE)
N == Len(Rec)

VARIABLE l
tvars == <<vars, l>>

Ev(name) == l <= N /\ Rec[l].ev = name
Adv == l' = l + 1
Th == Rec[l].t
NoPendingUnlock == \A t \in Threads : pc[t] # "flushed"

TInit == Init /\ l = 1 /\ TLCSet(1, 1)

TReset == /\ Ev("Reset") /\ Adv
          /\ pc' = [t \in Threads |-> "idle"] /\ cur' = [t \in Threads |-> 0]
          /\ left' = [t \in Threads |-> PerThread]
          /\ holder' = 0 /\ poisoned' = FALSE /\ log' = <<>>
          /\ outcome' = [e \in Entries |-> "none"]
          /\ nres' = [t \in Threads |-> "ok"]

TAppStart == /\ Ev("AppStart") /\ Adv /\ NoPendingUnlock
             /\ Start(Th) /\ cur'[Th] = Rec[l].e

TLock == /\ Ev("Next") /\ NoPendingUnlock /\ pc[Th] = "want"
         /\ ~(poisoned /\ Bug # "recover")
         /\ Lock(Th) /\ UNCHANGED l

TNextEv == /\ Ev("Next") /\ Adv /\ NoPendingUnlock
           /\ pc[Th] = "locked" /\ cur[Th] = Rec[l].e /\ Rec[l].res \in NextRes
           /\ Next(Th, Rec[l].res)

TFlushEv == /\ Ev("Flush") /\ Adv /\ NoPendingUnlock
            /\ Rec[l].res \in FlushRes
            /\ Flush(Th, Rec[l].res)

\* property layer only: the flush after a failed next is optional
TSkipFlush == /\ ~Strict /\ l <= N /\ ~(Rec[l].ev = "Flush" /\ Rec[l].t \in Threads)
              /\ \E t \in Threads :
                   /\ pc[t] = "nexted" /\ holder = t /\ nres[t] # "ok"
                   /\ pc' = [pc EXCEPT ![t] = "flushed"]
              /\ UNCHANGED <<cur, left, holder, poisoned, log, outcome, nres, l>>

TUnlock == /\ \E t \in Threads : pc[t] = "flushed" /\ Unlock(t)
           /\ UNCHANGED l

TAppEnd == /\ Ev("AppEnd") /\ Adv /\ NoPendingUnlock
           /\ pc[Th] = "idle" /\ outcome[Rec[l].e] = "returned"
           /\ UNCHANGED vars

TPanic == /\ Ev("Panic") /\ Adv /\ NoPendingUnlock
          /\ \/ /\ pc[Th] = "want" /\ poisoned /\ cur[Th] = Rec[l].e         \* lock().unwrap() on the poisoned mutex
                /\ outcome' = [outcome EXCEPT ![cur[Th]] = "panicked"]
                /\ pc' = [pc EXCEPT ![Th] = "idle"] /\ cur' = [cur EXCEPT ![Th] = 0]
                /\ UNCHANGED <<left, holder, poisoned, log, nres>>
             \/ /\ pc[Th] = "idle" /\ outcome[Rec[l].e] = "panicked"          \* the stream's own panic, already applied
                /\ UNCHANGED vars

\* property layer only: a flush of the stream outside any append while nobody is inside one (harmless)
TExtraFlush == /\ ~Strict /\ Ev("Flush") /\ Adv /\ NoPendingUnlock
               /\ pc[Th] = "idle" /\ holder = 0 /\ UNCHANGED vars

TFlushAsync == /\ Ev("FlushAsync") /\ Adv /\ Rec[l].ready = TRUE /\ UNCHANGED vars

TNext == TReset \/ TAppStart \/ TLock \/ TNextEv \/ TFlushEv \/ TSkipFlush \/ TUnlock \/ TAppEnd \/ TPanic \/ TFlushAsync \/ TExtraFlush
TSpec == TInit /\ [][TNext]_tvars

TInv == Atomic /\ ExactlyOnce /\ FlushedOnReturn /\ (Strict => FlushEach)

Track == /\ IF l > TLCGet(1) THEN TLCSet(1, l) /\ TLCSet(2, <<pc, holder, poisoned, Len(log)>>) ELSE TRUE
         /\ IF l = N + 1 THEN TLCSet("exit", TRUE) ELSE TRUE

Accepted == IF TLCGet(1) = N + 1 THEN PrintT(<<"ACCEPTED", N>>)
            ELSE /\ PrintT(<<"REJECTED", TLCGet(1), ToJson(Rec[TLCGet(1)]), TLCGet(2)>>)
                 /\ FALSE
=============================================================================
