--------------------------- MODULE MutexSinkRace ---------------------------
(***************************************************************************)
(* C10, mutex-shared sink - implementation-shaped model of                 *)
(* MutexSink<Aggregate<T>> (sink/mutex.rs):                                *)
(*   merge(entry):  Lock . add field 1 . add field 2 . Unlock              *)
(*   close():       Lock . take (mem::take) . Unlock . emit                *)
(* Mergers are guards dropped on several threads; closes are made one      *)
(* after the other by the thread that owns the parent entry, the last one  *)
(* after every merger has finished.  TLC checks that every interleaving    *)
(* refines MutexAbs.  TryLock = TRUE is the variant "close uses try_lock   *)
(* and closes an empty aggregate when the mutex is busy": it does not      *)
(* refine (self-test only).                                                *)
(***************************************************************************)
EXTENDS Naturals, FiniteSets, TLC

CONSTANTS Mergers, NIn, NClose, TryLock

VARIABLES owner,      \* 0 = free, merger id, or 99 = the closing thread
          mpc, mn,    \* merger program counter, inputs done
          acc,        \* inputs fully added to the shared aggregate
          cpc, cn,    \* closer program counter, closes done
          tk,         \* close -> taken set
          hdone, hem  \* history: returned merges, emitted inputs

vars == <<owner, mpc, mn, acc, cpc, cn, tk, hdone, hem>>
Cur(p) == p * 10 + mn[p] + 1

Init == /\ owner = 0 /\ mpc = [p \in Mergers |-> "idle"] /\ mn = [p \in Mergers |-> 0] /\ acc = {}
        /\ cpc = "idle" /\ cn = 0 /\ tk = <<>> /\ hdone = {} /\ hem = {}

MStart(p) == /\ mpc[p] = "idle" /\ mn[p] < NIn /\ mpc' = [mpc EXCEPT ![p] = "lock"]
             /\ UNCHANGED <<owner, mn, acc, cpc, cn, tk, hdone, hem>>
MLock(p) == /\ mpc[p] = "lock" /\ owner = 0 /\ owner' = p /\ mpc' = [mpc EXCEPT ![p] = "add1"]
            /\ UNCHANGED <<mn, acc, cpc, cn, tk, hdone, hem>>
MAdd1(p) == /\ mpc[p] = "add1" /\ mpc' = [mpc EXCEPT ![p] = "add2"]
            /\ UNCHANGED <<owner, mn, acc, cpc, cn, tk, hdone, hem>>
MAdd2(p) == /\ mpc[p] = "add2" /\ acc' = acc \cup {Cur(p)} /\ mpc' = [mpc EXCEPT ![p] = "unlock"]
            /\ UNCHANGED <<owner, mn, cpc, cn, tk, hdone, hem>>
MUnlock(p) == /\ mpc[p] = "unlock" /\ owner' = 0 /\ mpc' = [mpc EXCEPT ![p] = "ret"]
              /\ UNCHANGED <<mn, acc, cpc, cn, tk, hdone, hem>>
MRet(p) == /\ mpc[p] = "ret" /\ hdone' = hdone \cup {Cur(p)}
           /\ mn' = [mn EXCEPT ![p] = @ + 1] /\ mpc' = [mpc EXCEPT ![p] = "idle"]
           /\ UNCHANGED <<owner, acc, cpc, cn, tk, hem>>

AllDone == \A p \in Mergers : mpc[p] = "idle" /\ mn[p] = NIn
\* the last close is made after every merger has finished
CStart == /\ cpc = "idle" /\ cn < NClose /\ (cn = NClose - 1 => AllDone)
          /\ cpc' = "lock" /\ UNCHANGED <<owner, mpc, mn, acc, cn, tk, hdone, hem>>
CLock == /\ cpc = "lock" /\ owner = 0 /\ owner' = 99 /\ cpc' = "take"
         /\ UNCHANGED <<mpc, mn, acc, cn, tk, hdone, hem>>
\* try_lock failed: close a fresh default aggregate
CBusy == /\ TryLock /\ cpc = "lock" /\ owner # 0
         /\ tk' = tk @@ ((cn + 1) :> {}) /\ cpc' = "emit"
         /\ UNCHANGED <<owner, mpc, mn, acc, cn, hdone, hem>>
CTake == /\ cpc = "take" /\ tk' = tk @@ ((cn + 1) :> acc) /\ acc' = {} /\ cpc' = "unlock"
         /\ UNCHANGED <<owner, mpc, mn, cn, hdone, hem>>
CUnlock == /\ cpc = "unlock" /\ owner' = 0 /\ cpc' = "emit"
           /\ UNCHANGED <<mpc, mn, acc, cn, tk, hdone, hem>>
CEmit == /\ cpc = "emit" /\ hem' = hem \cup tk[cn + 1] /\ cn' = cn + 1 /\ cpc' = "idle"
         /\ UNCHANGED <<owner, mpc, mn, acc, tk, hdone>>

Next == (\E p \in Mergers : MStart(p) \/ MLock(p) \/ MAdd1(p) \/ MAdd2(p) \/ MUnlock(p) \/ MRet(p))
        \/ CStart \/ CLock \/ CBusy \/ CTake \/ CUnlock \/ CEmit
Spec == Init /\ [][Next]_vars

CState(c) == IF c <= cn THEN "done" ELSE IF cpc \in {"lock", "take"} THEN "started" ELSE "lin"
Abs == INSTANCE MutexAbs WITH
    mpend <- {Cur(p) : p \in {x \in Mergers : mpc[x] \in {"lock", "add1", "add2"}}},
    mlin <- {Cur(p) : p \in {x \in Mergers : mpc[x] \in {"unlock", "ret"}}},
    mdone <- hdone, heldA <- acc,
    cstate <- [c \in 1..(IF cpc = "idle" THEN cn ELSE cn + 1) |-> CState(c)],
    taken <- tk, emittedA <- hem

AllI == {p * 10 + n : p \in Mergers, n \in 1..NIn}
ANext == \/ \E i \in AllI : Abs!MergeStart(i) \/ Abs!LinMerge(i) \/ Abs!MergeEnd(i)
         \/ \E c \in 1..NClose : \/ Abs!CloseStart(c) \/ Abs!LinClose(c)
                                 \/ (c \in DOMAIN tk /\ Abs!CloseEnd(c, tk[c], tk[c], Cardinality(tk[c])))
Refines == [][ANext]_(Abs!mvars)
AbsInv == Abs!MAbsInv
AtEnd == (AllDone /\ cn = NClose /\ cpc = "idle") => Abs!MQuiesced
=============================================================================
