CONSTANTS
  CKeys = {"c1", "c2"}
  GKeys = {"g1"}
  HKeys = {"h1"}
  EmitZero = FALSE
  MaxUpdates = 3
  MaxTicks = 1
  FinalMode = "if_counters"
SPECIFICATION Spec
INVARIANT ReporterInv
CHECK_DEADLOCK FALSE
