CONSTANTS
  Users = {"t1"}
  Workers = {"r1"}
  Runtimes = {"r1", "r2"}
  Sources = {"m1", "tk"}
  Static = {}
  TLVals = {"m1", "sys"}
  RtVals = {"tk"}
  XVals = {}
  MaxGuards = 2
  MaxEnter = 1
  MaxClock = 0
  MaxInst = 0
  Deltas = {1, 2}
  Actors = {"t1", "r1"}
  Ops = {"Set", "With", "Drop", "Enter", "RtInstall", "RtInstallCur", "RtDrop"}
  Bug = "none"
SPECIFICATION Spec
INVARIANTS TypeOK Priority OneOverride LifoChain LifoRestores NoLeakUnderLifo InstantsOwnSource
PROPERTIES WithRestores ThreadLocal RuntimeScoped PanicChangesNothing InstantsStable EnterIsLocal LeakIsPermanent
CHECK_DEADLOCK FALSE
