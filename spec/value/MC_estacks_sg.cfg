CONSTANTS
  Depth = 3
  Bases = {"S3i", "S5i", "S5x", "T2e", "T3"}
SPECIFICATION Spec
INVARIANT Transparent
INVARIANT OnlyAdditions
INVARIANT Emit
INVARIANT EmitUnits
CONSTRAINT Bound
CHECK_DEADLOCK FALSE
