\* termination under weak fairness: a detach always completes, nobody is left blocked
CONSTANTS
  Appenders = {1, 2}
  NApp = 1
  Ctls = {1, 2}
  AppendUnderLock = TRUE
  DropUnderLock = TRUE
SPECIFICATION FairSpec
PROPERTY Terminates
CHECK_DEADLOCK FALSE
