\* 2 producers x 2 entries, capacity 1 (overflow), two flush requests, drop only, deadline may pass
CONSTANTS
  Producers = {1, 2}
  MaxApp = 2
  Cap = 1
  Flushers = {1}
  K = 1
  Results = {"ok"}
  AllowForget = FALSE
  AllowTick = TRUE
SPECIFICATION Spec
INVARIANTS TypeOK AbsInv ProducerOrder OnlyAppended NoLossAtEnd BoundedBatch NoParkWithWaiters JoinedMeansClosed
PROPERTY Refines
CHECK_DEADLOCK FALSE
