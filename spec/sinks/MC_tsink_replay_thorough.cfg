CONSTANTS
  MaxOps = 4
SPECIFICATION RSpec
INVARIANTS Emit EmitCatalogue TInv
CHECK_DEADLOCK FALSE
