--------------------------- MODULE WakerTracker ---------------------------
(***************************************************************************)
(* Component model of WakerTracker (background.rs): the bookkeeping that    *)
(* decides when the future of a flush request completes (C04), against an  *)
(* abstract environment in which producers may append forever.              *)
(*                                                                         *)
(* The tracker never sees the queue; it sees, once per drain, a pair        *)
(* (status, count): count entries were popped, and status = Drained means   *)
(* the queue was seen empty.  The environment owes each request f the       *)
(* entries that were queued when f was sent (owed[f], anything in 0..Cap):  *)
(* FIFO order means every pop pays one owed entry of every request.         *)
(*                                                                         *)
(*   S1  a request completes only when nothing is owed to it any more, and  *)
(*       only after the stream was flushed in the same call                 *)
(*   S2  while a batch is tracked, a Drained call completes something       *)
(*       (so the writer may skip parking without busy-looping)              *)
(*   L1  a request completes within two batches: at most 2*Cap calls that   *)
(*       report progress, or two Drained calls, after it was sent           *)
(***************************************************************************)
EXTENDS Naturals, Sequences, FiniteSets, TLC

CONSTANTS Cap, K, Reqs, MaxCalls, Counts

VARIABLES waiting, ebw, chan, owed, done, sent, hits, drains, calls, bad, fresh

wvars == <<waiting, ebw, chan, owed, done, sent, hits, drains, calls, bad, fresh>>
SeqRange(s) == {s[i] : i \in 1..Len(s)}

Init ==
    /\ waiting = {} /\ ebw = 0 /\ chan = <<>> /\ owed = [f \in Reqs |-> 0] /\ done = {}
    /\ sent = {} /\ hits = [f \in Reqs |-> 0] /\ drains = [f \in Reqs |-> 0] /\ calls = 0
    /\ bad = "no" /\ fresh = {}

\* flush_async: the signal is sent; up to Cap entries are queued ahead of it.  A request
\* is either sent before the pops of the coming drain (they pay what it is owed) or after
\* them, just before the tracker collects signals (late: the coming call pays nothing)
Req(f, n, late) ==
    /\ f \notin sent
    /\ sent' = sent \cup {f} /\ chan' = Append(chan, f)
    /\ owed' = [owed EXCEPT ![f] = n]
    /\ fresh' = IF late THEN fresh \cup {f} ELSE fresh
    /\ UNCHANGED <<waiting, ebw, done, hits, drains, calls, bad>>

\* one drain_until_deadline + handle_waiting_wakers(capacity, flush, status, count)
Call(drained, count) ==
    /\ calls < MaxCalls
    /\ calls' = calls + 1
    /\ LET owed1 == [f \in Reqs |-> IF f \in fresh THEN owed[f]
                                   ELSE IF drained THEN 0 ELSE IF owed[f] > count THEN owed[f] - count ELSE 0]
           e1 == IF waiting # {} THEN (IF ebw > count THEN ebw - count ELSE 0) ELSE ebw
           wake == waiting # {} /\ (e1 = 0 \/ drained)
           woken == IF wake THEN waiting ELSE {}
           w1 == IF wake THEN {} ELSE waiting
           e2 == IF wake THEN 0 ELSE e1
           collect == w1 = {}
           w2 == IF collect THEN SeqRange(chan) ELSE w1
           e3 == IF collect /\ w2 # {} THEN Cap ELSE e2
       IN /\ owed' = owed1
          /\ waiting' = w2 /\ ebw' = e3
          /\ chan' = IF collect THEN <<>> ELSE chan
          /\ done' = done \cup woken
          /\ hits' = [f \in Reqs |-> IF f \in sent /\ f \notin done /\ ~drained THEN hits[f] + 1 ELSE hits[f]]
          /\ drains' = [f \in Reqs |-> IF f \in sent /\ f \notin done /\ drained THEN drains[f] + 1 ELSE drains[f]]
          /\ bad' = IF \E f \in woken : owed1[f] > 0 THEN "S1"
                    ELSE IF drained /\ waiting # {} /\ woken = {} THEN "S2"
                    ELSE bad
    /\ fresh' = {}
    /\ UNCHANGED sent

Next ==
    \/ \E f \in Reqs, n \in 0..Cap, late \in BOOLEAN : Req(f, n, late)
    \/ Call(TRUE, 0)
    \/ \E c \in Counts : Call(TRUE, c) \/ (c % K = 0 /\ Call(FALSE, c))

Spec == Init /\ [][Next]_wvars

S1S2 == bad = "no"
L1 == \A f \in sent \ done : hits[f] <= 2 * Cap /\ drains[f] < 2
\* strictly: not done => fewer than the bound; completion happens in the call that reaches it
L1Strict == \A f \in sent \ done : hits[f] < 2 * Cap /\ drains[f] < 2
BudgetOK == ebw <= Cap /\ (waiting = {} => ebw = 0 \/ ebw = Cap) /\ (waiting # {} => ebw > 0)
DoneWereSent == done \subseteq sent /\ waiting \subseteq sent /\ waiting \cap done = {}
WInv == S1S2 /\ L1 /\ DoneWereSent
=============================================================================
