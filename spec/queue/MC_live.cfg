\* liveness under fairness: flush completes, forgotten queue terminates, join returns
CONSTANTS
  Producers = {1}
  MaxApp = 2
  Cap = 1
  Flushers = {1}
  K = 1
  Results = {"ok"}
  AllowForget = TRUE
  AllowTick = TRUE
SPECIFICATION FairSpec
INVARIANTS TypeOK AbsInv
PROPERTIES FlushLive ForgetTerminates DropTerminates
CHECK_DEADLOCK FALSE
