--------------------------- MODULE KeepAliveSched ---------------------------
(***************************************************************************)
(* R-scheduled schedule generator: KeepAlive (drops interleave, one atomic *)
(* reference-count operation per step, at most MaxInflight drops in        *)
(* progress) plus a history variable naming every step.  Run with          *)
(* `tlc -simulate`; every behaviour is printed as one JSON line and        *)
(* stepped through real threads by the cooperative controller (`ka sched`).*)
(*                                                                         *)
(* The real code can be stopped only where a verification point exists:    *)
(*   ka.fd_upgraded  ka.fd_taken  ka.fd_called   in DropAll::drop          *)
(*   h.slot_close                                harness slot value's      *)
(*                                               close(): inside           *)
(*                                               SlotGuard::drop, before   *)
(*                                               the send (the guard's     *)
(*                                               thread is parked there    *)
(*                                               while others drop the     *)
(*                                               parent, handles, guards)  *)
(*   ka.sg_sent                                  end of SlotGuard::drop    *)
(*   h.em_begin  h.em_mid  h.em_append           harness fields / sink:    *)
(*                                               before the first slot is  *)
(*                                               read, between the slots,  *)
(*                                               before the append         *)
(* A model state from which the acting thread continues without such a     *)
(* point (between the two decrements of the owner's drop, after a failed   *)
(* take) is *urgent*: only that thread may step, so the printed schedules  *)
(* are exactly the interleavings the controller can realise.  (The         *)
(* exhaustive check of KeepAlive.tla has no such restriction.)             *)
(*                                                                         *)
(* A step is <<action, kind, index, go>>: go = 1 when the controller       *)
(* has to spawn / grant the acting thread, 0 when the real thread has      *)
(* already performed the step as part of its previous grant.               *)
(***************************************************************************)
EXTENDS KeepAlive, Json

CONSTANTS MaxLen
VARIABLE hist

allvars == <<vars, hist>>
Hs(name, k, i, go) == hist' = Append(hist, <<name, k, i, go>>)

(* the thread that runs the emission: the dropping handle stands in for the owner *)
EmK == IF emBy = O /\ lastH # 0 THEN "h" ELSE emBy[1]
EmI == IF emBy = O /\ lastH # 0 THEN lastH ELSE emBy[2]

UrgentOwner == opc = "d_value" \/ (opc = "d_guard" /\ ~Busy(O))
UrgentForce == \E f \in F : fst[f] = "norel"

Free ==
    \/ Mutate /\ Hs("Mutate", "o", 0, 1)
    \/ MakeHandle /\ Hs("MakeHandle", "h", 1, 1)
    \/ \E g \in G : NewGuard(g) /\ Hs("NewGuard", "g", g, 1)
    \/ \E f \in F : NewForce(f) /\ Hs("NewForce", "f", f, 1)
    \/ \E h \in H : CloneHandle(h) /\ Hs("CloneHandle", "h", h, 1)
    \/ \E s \in S, m \in Modes : OpenSlot(s, m) /\ Hs("OpenSlot" \o m, "s", s, 1)
    \/ \E s \in S : DelayFlush(s) /\ Hs("DelayFlush", "s", s, 1)
    \/ \E s \in S : /\ ReDelayFlush(s) /\ Hs("DelayFlush", "s", s, 1)
                    /\ Cardinality({j \in 1..Len(hist) : hist[j][1] = "DelayFlush" /\ hist[j][3] = s}) < 2
    \/ \E s \in S : WaitForData(s) /\ Hs("WaitForData", "s", s, 1)
    \/ \E s \in S : MutSlot(s) /\ Hs("MutSlot", "s", s, 1)
    \/ opc = "live" /\ DropOwner1 /\ Hs("DropOwner1", "o", 0, 1)
    \/ \E h \in H : DropHandle(h) /\ Hs("DropHandle", "h", h, 1)
    \/ \E g \in G : DropGuard(g) /\ Hs("DropGuard", "g", g, 1)
    \/ \E f \in F : \/ FUpgrade(f) /\ Hs("FUpgrade", "f", f, 1)
                    \/ FTake(f) /\ Hs("FTake", "f", f, 1)
                    \/ FCall(f) /\ Hs("FCall", "f", f, 1)
                    \/ fst[f] = "called" /\ FRelease(f) /\ Hs("FRelease", "f", f, 1)
    \/ \E s \in S : \/ SBegin(s) /\ Hs("SBegin", "s", s, 1)
                    \/ SSend(s) /\ Hs("SSend" \o smode[s], "s", s, 1)
                    \/ SRelease(s) /\ Hs("SRelease", "s", s, 1)
    \/ EmitRead /\ Hs("EmitRead", EmK, EmI, 1)
    \/ EmitAppend /\ Hs("EmitAppend", EmK, EmI, 1)

Urgent ==
    \/ opc = "d_value" /\ DropOwner1 /\ Hs("DropOwner1", "h", lastH, 0)
    \/ DropOwner2 /\ Hs("DropOwner2", IF lastH # 0 THEN "h" ELSE "o", lastH, 0)
    \/ \E f \in F : fst[f] = "norel" /\ FRelease(f) /\ Hs("FRelease", "f", f, 0)

RInit == Init /\ hist = << <<"Init", Cardinality({g \in G : gst[g] = "live"}),
                             Cardinality({f \in F : fst[f] = "live"}),
                             Cardinality({h \in H : hst[h] = "live"}),
                             [s \in S |-> IF sst[s] = "unopened" THEN "none" ELSE smode[s]]>> >>

RNext == IF UrgentOwner \/ UrgentForce THEN Urgent ELSE Free
RSpec == RInit /\ [][RNext]_allvars

Terminal == /\ Quiescent /\ opc = "done"
            /\ (\A g \in G : gst[g] # "live") /\ (\A f \in F : fst[f] # "live") /\ (\A s \in S : sst[s] # "open")

(* what the model predicts for the behaviour (compared with the real outcome: MODEL-DRIFT only) *)
Outcome == [emitted |-> emitted, by |-> <<EmK, EmI>>, ver |-> emVer, slots |-> emSlot, quiescent |-> Quiescent,
            cond |-> CondEnded]

Bound == Len(hist) <= MaxLen
Emit == (Terminal \/ Len(hist) = MaxLen) => PrintT(<<"REPLAY", ToJson([steps |-> hist, model |-> Outcome])>>)
=============================================================================
