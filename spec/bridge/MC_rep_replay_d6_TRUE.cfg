CONSTANTS
  CKeys = {"c1", "c2"}
  GKeys = {"g1"}
  HKeys = {"h1"}
  EmitZero = TRUE
  MaxUpdates = 100
  MaxTicks = 100
  FinalMode = "always"
  Depth = 6
SPECIFICATION RSpec
INVARIANT Emit
INVARIANT ReporterInv
CONSTRAINT Bound
CHECK_DEADLOCK FALSE
