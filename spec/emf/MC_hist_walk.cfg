\* C14 long walks (tlc -simulate num=N -depth 200)
CONSTANTS
  Bug = "none"
  ConfigNames = {"v1", "n1", "v2d", "n2d", "v3dd", "v1i", "s2d", "sn1", "wf", "ws", "wg"}
  Depth = 200
  Shallow = 200
  Deep = {}
SPECIFICATION RSpec
INVARIANT Emit
CONSTRAINT Bound
CHECK_DEADLOCK FALSE
