CONSTANTS
  Depth = 5
  EmitZero = FALSE
  DescUnits = {"Count", "Milliseconds"}
SPECIFICATION Spec
INVARIANT Emit
INVARIANT UnitInv
CONSTRAINT Bound
CHECK_DEADLOCK FALSE
