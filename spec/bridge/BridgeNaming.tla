---------------------------- MODULE BridgeNaming ----------------------------
(***************************************************************************)
(* C20, sequential part: every readout writes every metric under its        *)
(* registered name, with its labels as dimensions and its described unit -   *)
(* whatever the order of describe / register (first use) / readout.          *)
(*                                                                         *)
(* Keys = name + label set (two counter keys share a name and differ in      *)
(* labels).  Describe(name, unit) may come before or after the first use of   *)
(* a key of that name and may be repeated (the last description counts).      *)
(* Touch(k) uses the key through the metrics macros: counter += amount,       *)
(* gauge := amount, histogram records cnt samples of a value symbol.          *)
(* Readout: counters that were incremented since the previous readout with    *)
(* their delta (all registered counters when EmitZero), every registered      *)
(* gauge with its last value, every registered histogram with the samples     *)
(* since the previous readout.                                                *)
(*                                                                         *)
(* Behaviour generator (exhaustive BFS over the history, last step is always  *)
(* a Readout); `mb seq` steps each behaviour through a fresh MetricRecorder   *)
(* and the runner compares the items of every readout entry with `items`.     *)
(***************************************************************************)
EXTENDS Integers, Sequences, FiniteSets, TLC, Json

CONSTANTS Depth, EmitZero, DescUnits,
          HistVals,     \* value symbols recorded into the histogram: subset of DOMAIN ClassOfSym
          HistCounts,   \* how many samples one Touch of the histogram records
          RecHows,      \* how several samples are recorded: subset of {"loop", "many"} (many = Histogram::record_many)
          GaugeOps      \* subset of {"set", "set0", "setneg0", "inc", "dec0"}

Keys == <<[kind |-> "c", name |-> "reqs", labels |-> <<>>],
          [kind |-> "c", name |-> "reqs", labels |-> <<<<"op", "get">>>>],
          [kind |-> "g", name |-> "temp", labels |-> <<<<"az", "1">>>>],
          [kind |-> "h", name |-> "lat", labels |-> <<<<"op", "get">>, <<"az", "1">>>>]>>
KI == DOMAIN Keys
Names == {Keys[i].name : i \in KI}

\* metrics.rs unit -> the unit name metrique reports (same table as MetricsBridgeTrace)
UnitName == [None |-> "None", Count |-> "Count", Percent |-> "Percent", Seconds |-> "Seconds",
             Milliseconds |-> "Milliseconds", Microseconds |-> "Microseconds", Nanoseconds |-> "Nanoseconds",
             Tebibytes |-> "Tebibytes", Gibibytes |-> "Gibibytes", Mebibytes |-> "Mebibytes",
             Kibibytes |-> "Kibibytes", Bytes |-> "Bytes", TerabitsPerSecond |-> "Terabits/Second",
             GigabitsPerSecond |-> "Gigabits/Second", MegabitsPerSecond |-> "Megabits/Second",
             KilobitsPerSecond |-> "Kilobits/Second", BitsPerSecond |-> "Bits/Second",
             CountPerSecond |-> "Count/Second"]

\* Histogram values are abstract symbols; the harness's table gives the numbers (v100 = 100,
\* v1e6 = 10^6, v2e31 = 2^31, vmax = u32::MAX, vhuge = 10^12).  Every sample must be reported in a
\* bucket whose mean (total / occurrences) is within 1/16 of the recorded value - of u32::MAX for
\* larger values, which are documented to be capped - however many samples share the bucket
\* (value x count may exceed 2^32 within one readout).
ClassOfSym == [v100 |-> "v100", v1e6 |-> "v1e6", v2e31 |-> "v2e31", vmax |-> "vmax", vhuge |-> "vmax"]
HClasses == {ClassOfSym[x] : x \in HistVals}

VARIABLES unit,     \* name -> described metrics.rs unit ("None" = never described)
          reg,      \* registered keys
          val,      \* counter: delta since the last readout; gauge: last value
          hval,     \* histogram key -> value class -> samples since the last readout
          hist
vars == <<unit, reg, val, hval, hist>>

Init == /\ unit = [n \in Names |-> "None"] /\ reg = {} /\ val = [i \in KI |-> 0] /\ hist = <<>>
        /\ hval = [i \in KI |-> [c \in HClasses |-> 0]]

Describe(n, u) ==
    /\ unit' = [unit EXCEPT ![n] = u]
    /\ hist' = Append(hist, <<"Describe", n, u>>)
    /\ UNCHANGED <<reg, val, hval>>

Touch(i) ==
    LET amount == Len(hist) + 1 IN
    /\ Keys[i].kind = "c"
    /\ reg' = reg \cup {i}
    /\ val' = [val EXCEPT ![i] = @ + amount]
    /\ hist' = Append(hist, <<"Touch", i, amount>>)
    /\ UNCHANGED <<unit, hval>>

\* gauges: set(amount), set(+0.0), set(-0.0), increment(amount), decrement(current value) = back to exactly
\* 0.0.  A gauge that was touched is registered and every readout reports its last value - 0 included.
TouchG(i, gop) ==
    LET amount == IF gop = "dec0" THEN val[i] ELSE Len(hist) + 1 IN
    /\ Keys[i].kind = "g"
    /\ reg' = reg \cup {i}
    /\ val' = [val EXCEPT ![i] = CASE gop = "set" -> amount
                                   [] gop \in {"set0", "setneg0", "dec0"} -> 0
                                   [] gop = "inc" -> @ + amount]
    /\ hist' = Append(hist, <<"Touch", i, amount, gop>>)
    /\ UNCHANGED <<unit, hval>>

\* cnt samples of the value sym are recorded: by cnt calls of record, or by one record_many(value, cnt) -
\* which is cnt observations of the value all the same
TouchH(i, sym, cnt, how) ==
    /\ Keys[i].kind = "h" /\ (cnt = 1 => how = "loop")
    /\ reg' = reg \cup {i}
    /\ hval' = [hval EXCEPT ![i][ClassOfSym[sym]] = @ + cnt]
    /\ hist' = Append(hist, <<"Touch", i, 0, sym, cnt, how>>)
    /\ UNCHANGED <<unit, val>>

\* a histogram item's value: the samples per value class (classes without samples are not listed)
HItem(i) == {<<c, hval[i][c]>> : c \in {cc \in HClasses : hval[i][cc] > 0}}
Item(i) == [kind |-> Keys[i].kind, name |-> Keys[i].name, dims |-> Keys[i].labels,
            unit |-> UnitName[unit[Keys[i].name]], v |-> IF Keys[i].kind = "h" THEN HItem(i) ELSE val[i]]
Shown == {i \in reg : Keys[i].kind = "c" => (EmitZero \/ val[i] # 0)}

Readout ==
    /\ val' = [i \in KI |-> IF Keys[i].kind = "g" THEN val[i] ELSE 0]
    /\ hval' = [i \in KI |-> [c \in HClasses |-> 0]]
    /\ hist' = Append(hist, <<"Readout", {Item(i) : i \in Shown}>>)
    /\ UNCHANGED <<unit, reg>>

Next ==
    \/ Len(hist) < Depth - 1 /\ \E n \in Names, u \in DescUnits : Describe(n, u)
    \/ Len(hist) < Depth - 1 /\ \E i \in KI : Touch(i)
    \/ Len(hist) < Depth - 1 /\ \E i \in KI, gop \in GaugeOps : TouchG(i, gop)
    \/ Len(hist) < Depth - 1 /\ \E i \in KI, sym \in HistVals, cnt \in HistCounts, how \in RecHows : TouchH(i, sym, cnt, how)
    \/ Readout

Spec == Init /\ [][Next]_vars
Bound == Len(hist) <= Depth
Emit == (Len(hist) = Depth) => PrintT(<<"REPLAY", ToJson([emit_zero |-> EmitZero, keys |-> Keys, steps |-> hist])>>)
\* sanity of the model itself: a reported unit is always the last one described for the name
UnitInv == \A i \in reg : Item(i).unit = UnitName[unit[Keys[i].name]]
=============================================================================
