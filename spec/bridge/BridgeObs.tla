----------------------------- MODULE BridgeObs -----------------------------
(***************************************************************************)
(* C20, property layer in trace form.  It mentions only what an observer    *)
(* outside the bridge can see: calls of the updaters (start and end of      *)
(* counter increments, histogram records, gauge sets, unit descriptions)    *)
(* and readouts (start, end, the reported deltas / values).                 *)
(*                                                                         *)
(* Exactly-once accounting, stated over call intervals (no linearization    *)
(* points are needed):  for every readout R and counter k                   *)
(*                                                                         *)
(*     sum{inc ended before R.start} <= cumulative(k, R)                    *)
(*                                   <= sum{inc started before R.end}       *)
(*                                                                         *)
(* where cumulative(k, R) is the sum of the deltas reported for k by all     *)
(* readouts up to and including R.  After quiescence both bounds coincide:   *)
(* the reported deltas sum to the total incremented.  The same per           *)
(* histogram key and value class (sample counts).                            *)
(*                                                                         *)
(* Last-writer-wins registers (gauges; the unit described for a name):       *)
(* a readout must report a value that could have been the current one at     *)
(* some moment between R.start and R.end.  lCand over-approximates the set   *)
(* of values that can be current: a write joins it when its call starts;     *)
(* when a write W ends, only W's value, the values of writes still in        *)
(* flight, and the values of writes that ended while W was in flight remain   *)
(* (anything else was overwritten by W at the latest).  When writes do not   *)
(* overlap and the system is quiescent this is exactly {the last value set}. *)
(*                                                                         *)
(* MetricsBridge.tla (all interleavings of the atomic steps of the real      *)
(* algorithm) shows that these rules accept every execution of the           *)
(* swap-based readout and reject the broken variants; MetricsBridgeTrace.tla *)
(* applies the same operators to executions recorded from the real code.     *)
(***************************************************************************)
EXTENDS Integers, FiniteSets, Sequences, TLC

VARIABLES
    cS, cE, cC, cLo,     \* counters: started / ended / reported (cumulative) / ended at the start of the open readout
    hS, hE, hC, hLo,     \* histograms, keyed by <<key, class>>
    lCand, lInfl, lW,    \* last-writer-wins registers: candidates, writes in flight, window of the open readout
    lSeen, lMust,        \* register has certainly been written (a write ended); snapshot at readout start
    rOpen                \* a readout is in progress

ovars == <<cS, cE, cC, cLo, hS, hE, hC, hLo, lCand, lInfl, lW, lSeen, lMust, rOpen>>

\* CK: counter keys, HK: <<histogram key, class>> pairs, LR: registers with their initial value
OInit(CK, HK, LR, init) ==
    /\ cS = [k \in CK |-> 0] /\ cE = [k \in CK |-> 0] /\ cC = [k \in CK |-> 0] /\ cLo = [k \in CK |-> 0]
    /\ hS = [k \in HK |-> 0] /\ hE = [k \in HK |-> 0] /\ hC = [k \in HK |-> 0] /\ hLo = [k \in HK |-> 0]
    /\ lCand = [r \in LR |-> {init[r]}] /\ lInfl = [r \in LR |-> {}] /\ lW = [r \in LR |-> {}]
    /\ lSeen = [r \in LR |-> FALSE] /\ lMust = [r \in LR |-> FALSE]
    /\ rOpen = FALSE

\* the same, as an action (trace validation: a Reset event starts a new run)
OReset(CK, HK, LR, init) ==
    /\ cS' = [k \in CK |-> 0] /\ cE' = [k \in CK |-> 0] /\ cC' = [k \in CK |-> 0] /\ cLo' = [k \in CK |-> 0]
    /\ hS' = [k \in HK |-> 0] /\ hE' = [k \in HK |-> 0] /\ hC' = [k \in HK |-> 0] /\ hLo' = [k \in HK |-> 0]
    /\ lCand' = [r \in LR |-> {init[r]}] /\ lInfl' = [r \in LR |-> {}] /\ lW' = [r \in LR |-> {}]
    /\ lSeen' = [r \in LR |-> FALSE] /\ lMust' = [r \in LR |-> FALSE]
    /\ rOpen' = FALSE

UC == UNCHANGED <<cS, cE, cC, cLo>>
UH == UNCHANGED <<hS, hE, hC, hLo>>
UL == UNCHANGED <<lCand, lInfl, lW, lSeen, lMust>>

OIncStart(k, d) == cS' = [cS EXCEPT ![k] = @ + d] /\ UNCHANGED <<cE, cC, cLo, rOpen>> /\ UH /\ UL
OIncEnd(k, d)   == cE' = [cE EXCEPT ![k] = @ + d] /\ UNCHANGED <<cS, cC, cLo, rOpen>> /\ UH /\ UL
ORecStart(k, c, n) == hS' = [hS EXCEPT ![<<k, c>>] = @ + n] /\ UNCHANGED <<hE, hC, hLo, rOpen>> /\ UC /\ UL
ORecEnd(k, c, n)   == hE' = [hE EXCEPT ![<<k, c>>] = @ + n] /\ UNCHANGED <<hS, hC, hLo, rOpen>> /\ UC /\ UL

OWriteStart(r, v) ==
    /\ lCand' = [lCand EXCEPT ![r] = @ \cup {v}]
    /\ lInfl' = [lInfl EXCEPT ![r] = @ \cup {[v |-> v, during |-> {}]}]
    /\ lW' = IF rOpen THEN [lW EXCEPT ![r] = @ \cup {v}] ELSE lW
    /\ UNCHANGED <<lSeen, lMust, rOpen>> /\ UC /\ UH

OWriteEnd(r, v) ==
    /\ \E me \in lInfl[r] :
         /\ me.v = v
         /\ LET others == lInfl[r] \ {me}
                keep == {v} \cup {x.v : x \in others} \cup me.during
            IN /\ lCand' = [lCand EXCEPT ![r] = @ \cap keep]
               /\ lInfl' = [lInfl EXCEPT ![r] = {[x EXCEPT !.during = @ \cup {v}] : x \in others}]
    /\ lSeen' = [lSeen EXCEPT ![r] = TRUE]
    /\ UNCHANGED <<lW, lMust, rOpen>> /\ UC /\ UH

OReadoutStart ==
    /\ ~rOpen /\ rOpen' = TRUE
    /\ cLo' = cE /\ hLo' = hE /\ lW' = lCand /\ lMust' = lSeen
    /\ UNCHANGED <<cS, cE, cC, hS, hE, hC, lCand, lInfl, lSeen>>

\* dc: counter key -> reported delta, dh: <<key, class>> -> reported sample count (0 if not reported)
CountersOK(dc) == \A k \in DOMAIN cC : cLo[k] <= cC[k] + dc[k] /\ cC[k] + dc[k] <= cS[k]
HistsOK(dh)    == \A k \in DOMAIN hC : hLo[k] <= hC[k] + dh[k] /\ hC[k] + dh[k] <= hS[k]
\* lr: set of <<register, reported value>>
RegsOK(lr)     == \A x \in lr : x[2] \in lW[x[1]]
\* a register that had certainly been written before the readout started must be reported
RegsPresent(lr, must) == \A r \in must : lMust[r] => \E x \in lr : x[1] = r

OReadoutEnd(dc, dh) ==
    /\ rOpen /\ rOpen' = FALSE
    /\ cC' = [k \in DOMAIN cC |-> cC[k] + dc[k]]
    /\ hC' = [k \in DOMAIN hC |-> hC[k] + dh[k]]
    /\ UNCHANGED <<cS, cE, cLo, hS, hE, hLo>> /\ UL

\* nothing in flight: every started update has ended
Quiescent == cS = cE /\ hS = hE /\ \A r \in DOMAIN lInfl : lInfl[r] = {}
=============================================================================
