---------------------------- MODULE TimersReplay ----------------------------
(***************************************************************************)
(* Behaviour generator for the Timer / Timestamp / TimestampOnClose         *)
(* machines of Stopwatch.tla, stepped through the real types by `tm tm`.    *)
(* After every step: timer = what closing &Timer must report (-2: no timer  *)
(* yet), ts = the wall-clock tick &Timestamp must report (-1: none yet);    *)
(* ret = the value returned by Timer::stop resp. the wall-clock tick a      *)
(* TimestampOnClose reports when it is closed in this step.                 *)
(* Amb steps change the thread-local override (a: A, B, none) and the thread  *)
(* (d = 1: another thread) under which the following steps and observations  *)
(* run; objects are created with an explicit source A or from the ambient    *)
(* override (a = how).  Expected values are on the CAPTURED source's clock.   *)
(* The header carries the unit table: reported number = seconds since the   *)
(* epoch * perSec, printed as a whole number iff integral.                  *)
(***************************************************************************)
EXTENDS Stopwatch, Json

CONSTANTS Depth
VARIABLE hist

RInit == Init /\ hist = <<>>

\* a: ambient code / how the object is created, depending on the step
H(op, d, ret, a) == hist' = Append(hist, [op |-> op, d |-> d, ret |-> ret, a |-> a,
                                          timer |-> IF tmSt' = "live" THEN TimerReport' ELSE -2,
                                          ts |-> TsCloseVal'])
LastOp == IF hist = <<>> THEN "" ELSE hist[Len(hist)].op

RNext ==
    \/ \E d \in Ds : LastOp # "Advance" /\ Advance(d) /\ H("Advance", d, None, "")
    \/ \E d \in Ds : LastOp # "AdvanceB" /\ AdvanceB(d) /\ H("AdvanceB", d, None, "")
    \* d = 1: the following steps run on another thread (with its own thread-local override a)
    \/ \E a \in Ambients, t \in Threads :
         LastOp # "Amb" /\ SetAmbient(a, t) /\ H("Amb", IF t = "main" THEN 0 ELSE 1, None, a)
    \/ \E how \in Hows : TimerNew(how) /\ H("TimerNew", 0, None, how)
    \/ TimerStop /\ H("TimerStop", 0, TimerStopRet, "")
    \/ \E how \in Hows : TsNew(how) /\ H("TsNew", 0, None, how)
    \/ TocNew /\ H("TocNew", 0, None, "")
    \/ TocClose /\ H("TocClose", 0, TocReport, "")

RSpec == RInit /\ [][RNext]_<<vars, hist>>
Bound == Len(hist) <= Depth
UnitTable == [u \in Units |-> [perSec |-> PerSecond(u), integral |-> Integral(u)]]
Emit == (Len(hist) = Depth) => PrintT(<<"REPLAY", ToJson([w0 |-> W0, w0b |-> W0B, units |-> UnitTable, steps |-> hist])>>)
=============================================================================
