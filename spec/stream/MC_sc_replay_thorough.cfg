CONSTANTS
  Topos = {"T12", "TT12_3", "T1_T23", "MG_T12", "T_MG1_2", "T1_N", "TN_1", "MGD_T12", "T_MG12_MGD3"}
  Entries = {1, 2}
  MaxOps = 4
  MaxFaults = 3
  Bug = "none"
SPECIFICATION Spec
INVARIANTS Emit
CHECK_DEADLOCK FALSE
