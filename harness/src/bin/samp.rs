//! Driver for C12 (spec/sample): executes the real samplers under a scripted `RngCore` and dumps
//! what they did.  All judging happens in chk_sampling.py against TLC's rows.
//!
//! `samp fixed    --cases f --out g`  {"id","rate":<f32 bits>,"words":[u32..]}
//!      FixedFractionSample::with_rng(recorder, rate, scripted): per word the draw (derived with the
//!      same `rand` call on the same word), emitted?, the rate that reached the recording SampledFormat
//! `samp emf      --cases f --out g`  {"id","rate":<f32 bits>,"words":[u64..]}
//!      verif_rate_to_n_alpha(rate) and, per word, the Counts of real EMF output of
//!      SampledEmf::with_sampling_and_rng(scripted).format_with_sample_rate(entry, rate)
//! `samp congress --cases f --out g`  {"id","target":n,"steps":[[v1,v2,..],..]}
//!      a real CongressSample: per interval every format call (group, rate held for the group before
//!      the call, draw, emitted?, forwarded rate) and after `verif_end_interval` the `verif_rates`.

use metrique_writer::sample::{CongressSampleBuilder, FixedFractionSample, SampledFormat};
use metrique_writer::{Entry, EntryWriter, IoStreamError, Observation, format::Format};
use metrique_writer_format_emf::Emf;
use rand::{Rng, RngCore};
use serde_json::{Value as J, json};
use std::borrow::Cow;
use std::collections::{HashMap, VecDeque};
use std::io::Write;
use std::sync::{Arc, Mutex};
use std::time::{Duration, SystemTime};
use vharness::util;

// ---------------------------------------------------------------------------------------------
/// RngCore that hands out scripted words; panics (caught, reported) when the script is exhausted
#[derive(Clone, Default)]
struct Scripted(Arc<Mutex<VecDeque<u64>>>);
impl Scripted {
    fn push(&self, w: u64) {
        self.0.lock().unwrap().push_back(w);
    }
    fn len(&self) -> usize {
        self.0.lock().unwrap().len()
    }
    fn clear(&self) {
        self.0.lock().unwrap().clear();
    }
    fn pop(&self) -> u64 {
        self.0.lock().unwrap().pop_front().expect("scripted rng exhausted")
    }
}
impl RngCore for Scripted {
    fn next_u32(&mut self) -> u32 {
        self.pop() as u32
    }
    fn next_u64(&mut self) -> u64 {
        self.pop()
    }
    fn fill_bytes(&mut self, dst: &mut [u8]) {
        for chunk in dst.chunks_mut(8) {
            let w = self.pop().to_le_bytes();
            chunk.copy_from_slice(&w[..chunk.len()]);
        }
    }
}
/// the draw the code under test derives from this word: the same `rand` call on the same word
fn draw_f32(word: u64) -> f32 {
    let s = Scripted::default();
    s.push(word);
    let mut s = s;
    s.random::<f32>()
}
fn draw_f64(word: u64) -> f64 {
    let s = Scripted::default();
    s.push(word);
    let mut s = s;
    s.random::<f64>()
}

/// recording SampledFormat: every call that reaches it, with the rate handed on
#[derive(Clone, Default)]
struct Recorder(Arc<Mutex<Vec<(String, f32)>>>);
impl Format for Recorder {
    fn format(&mut self, _e: &impl Entry, _o: &mut impl std::io::Write) -> Result<(), IoStreamError> {
        self.0.lock().unwrap().push(("UNSAMPLED".into(), f32::NAN));
        Ok(())
    }
}
impl SampledFormat for Recorder {
    fn format_with_sample_rate(&mut self, entry: &impl Entry, _o: &mut impl std::io::Write, rate: f32) -> Result<(), IoStreamError> {
        let g: Vec<String> = entry.sample_group().filter(|(k, _)| k != "Status").map(|(_, v)| v.to_string()).collect();
        self.0.lock().unwrap().push((g.join(","), rate));
        Ok(())
    }
}

/// A sample group is a SET of (key, value) pairs: the entry reports two pairs, in either order (`rev`); the group's
/// identity, volume and rate must not depend on that order nor on `validate_groups` (C12-m8)
struct GroupEntry {
    group: String,
    rev: bool,
}
impl Entry for GroupEntry {
    fn write<'a>(&'a self, w: &mut impl EntryWriter<'a>) {
        w.timestamp(SystemTime::UNIX_EPOCH + Duration::from_secs(1_700_000_000));
        w.value("Operation", self.group.as_str());
        w.value("One", &1u64);
    }
    fn sample_group(&self) -> impl Iterator<Item = (Cow<'static, str>, Cow<'static, str>)> {
        let a = (Cow::Borrowed("Operation"), Cow::Owned(self.group.clone()));
        let b = (Cow::Borrowed("Status"), Cow::Borrowed("ok"));
        (if self.rev { [b, a] } else { [a, b] }).into_iter()
    }
}

/// entry for the EMF weight check: a scalar, a float, a distribution with repeated observations
struct EmfEntry;
struct Dist;
impl metrique_writer::Value for Dist {
    fn write(&self, writer: impl metrique_writer::ValueWriter) {
        writer.metric(
            [
                Observation::Unsigned(4),
                Observation::Repeated { total: 9.0, occurrences: 3 },
                Observation::Floating(2.5),
                Observation::Repeated { total: 70.0, occurrences: 7 },
            ],
            metrique_writer::Unit::None,
            [],
            metrique_writer::MetricFlags::empty(),
        )
    }
}
impl Entry for EmfEntry {
    fn write<'a>(&'a self, w: &mut impl EntryWriter<'a>) {
        w.timestamp(SystemTime::UNIX_EPOCH + Duration::from_secs(1_700_000_000));
        w.value("Operation", "Get");
        w.value("Scalar", &5u64);
        w.value("Float", &1.5f64);
        w.value("Dist", &Dist);
        w.value("Latency", &Duration::from_millis(12));
    }
}
/// occurrences behind every count of EmfEntry, per metric
fn emf_occurrences() -> J {
    json!({"Scalar": [1], "Float": [1], "Dist": [1, 3, 1, 7], "Latency": [1]})
}

fn out_file(a: &HashMap<String, String>) -> std::io::BufWriter<std::fs::File> {
    std::io::BufWriter::new(std::fs::File::create(util::arg_str(a, "out", "")).unwrap())
}
fn emit(out: &mut impl Write, v: &J) {
    serde_json::to_writer(&mut *out, v).unwrap();
    out.write_all(b"\n").unwrap();
}

// ---------------------------------------------------------------------------------------------
fn cmd_fixed(a: &HashMap<String, String>) {
    let mut out = out_file(a);
    for c in util::read_ndjson(util::arg_str(a, "cases", "")) {
        let rate = f32::from_bits(c["rate"].as_u64().unwrap() as u32);
        let rng = Scripted::default();
        let rec = Recorder::default();
        let r = util::catch(|| {
            let mut s = FixedFractionSample::with_rng(rec.clone(), rate, rng.clone());
            let mut rows = Vec::new();
            for w in c["words"].as_array().unwrap() {
                let w = w.as_u64().unwrap();
                rng.clear();
                rng.push(w);
                let before = rec.0.lock().unwrap().len();
                let res = s.format(&GroupEntry { group: "g".into(), rev: false }, &mut std::io::sink());
                let calls = rec.0.lock().unwrap()[before..].to_vec();
                rows.push(json!({
                    "word": w, "draw": draw_f32(w).to_bits(), "used": rng.len() == 0, "ok": res.is_ok(),
                    "calls": calls.iter().map(|(g, r)| json!([g, r.to_bits()])).collect::<Vec<_>>(),
                }));
            }
            rows
        });
        match r {
            Ok(rows) => emit(&mut out, &json!({"id": c["id"], "rows": rows})),
            Err(p) => emit(&mut out, &json!({"id": c["id"], "panic": p})),
        }
    }
    out.flush().unwrap();
}

// ---------------------------------------------------------------------------------------------
fn counts_of(line: &str) -> Result<J, String> {
    let v: J = serde_json::from_str(line.trim_end()).map_err(|e| format!("EMF output is not JSON: {e}: {line}"))?;
    let mut m = serde_json::Map::new();
    for (k, val) in v.as_object().ok_or("EMF output is not an object")? {
        if let Some(o) = val.as_object() {
            if let Some(c) = o.get("Counts") {
                m.insert(k.clone(), c.clone());
            }
        } else if val.is_number() && k != "Timestamp" {
            m.insert(k.clone(), json!("plain"));
        }
    }
    Ok(J::Object(m))
}

fn cmd_emf(a: &HashMap<String, String>) {
    let mut out = out_file(a);
    let lim = 1.0 / (i64::MAX as f32);
    for c in util::read_ndjson(util::arg_str(a, "cases", "")) {
        let rate = f32::from_bits(c["rate"].as_u64().unwrap() as u32);
        let split = if rate >= lim {
            util::catch(|| metrique_writer_format_emf::verif_rate_to_n_alpha(rate))
                .map(|(n, al)| json!([n, al.to_bits()]))
                .unwrap_or_else(|p| json!({"panic": p}))
        } else {
            J::Null
        };
        let rng = Scripted::default();
        let r = util::catch(|| {
            let mut f = Emf::all_validations("NS".into(), vec![vec![]]).with_sampling_and_rng(rng.clone());
            let mut rows = Vec::new();
            let mut words: Vec<(u64, bool)> = c["words"].as_array().unwrap().iter().map(|w| (w.as_u64().unwrap(), false)).collect();
            // two more draws right at the real alpha: the largest draw below it, the smallest not below it
            if let Some(al) = split.as_array().map(|s| f64::from_bits(s[1].as_u64().unwrap())) {
                let k = (al * 9_007_199_254_740_992.0).ceil();
                if k >= 1.0 && k <= 9_007_199_254_740_992.0 {
                    words.push(((k as u64 - 1) << 11, true));
                }
                if k >= 0.0 && k < 9_007_199_254_740_992.0 {
                    words.push(((k as u64) << 11, true));
                }
            }
            for (w, adj) in words {
                rng.clear();
                rng.push(w);
                let mut buf = Vec::new();
                let res = f.format_with_sample_rate(&EmfEntry, &mut buf, rate);
                let text = String::from_utf8_lossy(&buf).to_string();
                let counts = if res.is_ok() { counts_of(&text) } else { Err(format!("format error: {:?}", res.err())) };
                rows.push(json!({
                    "word": w, "draw": draw_f64(w).to_bits(), "used": rng.len() == 0, "adj": adj,
                    "counts": counts.clone().ok(), "error": counts.err(),
                }));
            }
            rows
        });
        match r {
            Ok(rows) => emit(&mut out, &json!({"id": c["id"], "split": split, "rows": rows, "occ": emf_occurrences()})),
            Err(p) => emit(&mut out, &json!({"id": c["id"], "panic": p})),
        }
    }
    out.flush().unwrap();
}

// ---------------------------------------------------------------------------------------------
fn cmd_congress(a: &HashMap<String, String>) {
    let mut out = out_file(a);
    let mut case_no = 0u64;
    for c in util::read_ndjson(util::arg_str(a, "cases", "")) {
        let target = c["target"].as_u64().unwrap() as u32;
        let rng = Scripted::default();
        let rec = Recorder::default();
        case_no += 1;
        // group validation is a debugging aid (on by default in debug builds only): the sampler's decisions for valid
        // groups are the same with and without it, so the cases alternate
        let vg = case_no % 2 == 0;
        let r = util::catch(|| {
            let mut s = CongressSampleBuilder::default()
                .validate_groups(vg)
                .target_entries_per_interval(target)
                .interval(Duration::from_secs(86_400))
                .build_with_rng(rec.clone(), rng.clone());
            // the clock is not injectable: push the interval end a day ahead (no group yet: no-op)
            s.verif_end_interval();
            let rates_of = |s: &metrique_writer::sample::CongressSample<Recorder, Scripted>| -> HashMap<String, (f32, f32)> {
                s.verif_rates()
                    .into_iter()
                    .map(|(g, r, avg)| {
                        (g.iter().filter(|(k, _)| k != "Status").map(|(_, v)| v.clone()).collect::<Vec<_>>().join(","), (r, avg))
                    })
                    .collect()
            };
            let mut steps = Vec::new();
            let mut flip = 0u64;
            for vol in c["steps"].as_array().unwrap() {
                let vol: Vec<u64> = vol.as_array().unwrap().iter().map(|v| v.as_u64().unwrap()).collect();
                let mut left = vol.clone();
                let mut calls = Vec::new();
                // round-robin over the groups so that their calls interleave
                while left.iter().any(|&n| n > 0) {
                    for g in 0..left.len() {
                        if left[g] == 0 {
                            continue;
                        }
                        left[g] -= 1;
                        let name = format!("g{}", g + 1);
                        let held = rates_of(&s).get(&name).map(|x| x.0);
                        let rate = held.unwrap_or(1.0);
                        // a draw on alternating sides of the rate: the largest draw <= rate, the smallest above it
                        let k = ((rate as f64) * 16_777_216.0).floor() as u64;
                        flip += 1;
                        let k = if flip % 2 == 0 { k.min(16_777_215) } else { (k + 1).min(16_777_215) };
                        let word = k << 8;
                        rng.clear();
                        rng.push(word);
                        let before = rec.0.lock().unwrap().len();
                        let res = s.format(&GroupEntry { group: name.clone(), rev: flip % 3 == 0 }, &mut std::io::sink());
                        let got = rec.0.lock().unwrap()[before..].to_vec();
                        // compact: [group, rate held for the group (before the call; for a group the sampler did not
                        // know yet: after the call), group was new, draw bits, draw taken, inner calls (-1: the
                        // unsampled format() was called), forwarded rate bits | null, format ok]
                        let n = if got.iter().any(|(g, _)| g == "UNSAMPLED") { -1 } else { got.len() as i64 };
                        let is_new = held.is_none();
                        let held = held.or_else(|| rates_of(&s).get(&name).map(|x| x.0));
                        calls.push(json!([g + 1, held.map(|r| r.to_bits()), is_new, draw_f32(word).to_bits(), rng.len() == 0, n,
                                          got.first().map(|(_, r)| r.to_bits()), res.is_ok()]));
                    }
                }
                s.verif_end_interval();
                let after: serde_json::Map<String, J> = rates_of(&s)
                    .into_iter()
                    .map(|(g, (r, avg))| (g, json!([r.to_bits(), avg.to_bits()])))
                    .collect();
                steps.push(json!({"calls": calls, "after": after}));
            }
            steps
        });
        match r {
            Ok(steps) => emit(&mut out, &json!({"id": c["id"], "steps": steps})),
            Err(p) => emit(&mut out, &json!({"id": c["id"], "panic": p})),
        }
    }
    out.flush().unwrap();
}

fn main() {
    let (cmd, a) = util::args();
    std::panic::set_hook(Box::new(|_| {}));
    match cmd.as_str() {
        "fixed" => cmd_fixed(&a),
        "emf" => cmd_emf(&a),
        "congress" => cmd_congress(&a),
        _ => {
            eprintln!("usage: samp fixed|emf|congress --cases f --out g");
            std::process::exit(2);
        }
    }
}
