CONSTANTS
  Topos = {"T12", "TT12_3", "T1_T23", "MG_T12", "T_MG1_2", "T1_N", "TN_1", "MGD_T12", "T_MG12_MGD3"}
  Entries = {1, 2}
  MaxOps = 3
  MaxFaults = 2
  Bug = "none"
SPECIFICATION Spec
INVARIANTS TypeOK OfferedToAll LeafOrder ErrorPrecedence FlushAll GlobalsOnlyBelow NullSilent LogConsistent
CHECK_DEADLOCK FALSE
