CONSTANTS
  Depth = 6
  EmitZero = FALSE
  DescUnits = {"Count", "Nanoseconds"}
  HistVals = {"v100"}
  HistCounts = {1}
  GaugeOps = {"set"}
  RecHows = {"loop"}
SPECIFICATION Spec
INVARIANT Emit
INVARIANT UnitInv
CONSTRAINT Bound
CHECK_DEADLOCK FALSE
