---------------------------- MODULE HistogramAux ----------------------------
(***************************************************************************)
(* C11, count conservation under concurrent add_value, when the atomic     *)
(* strategy keeps a per-histogram auxiliary summary next to the bucket      *)
(* counters (here: a high-water mark = largest value recorded, used by      *)
(* drain to skip "known empty" buckets).  Histogram.tla shows that the      *)
(* counters alone conserve counts under every interleaving (one fetch_add   *)
(* per record).  This module shows what that argument silently relies on:   *)
(* ANY summary that drain trusts must be maintained atomically with respect *)
(* to the other recorders.                                                  *)
(*                                                                         *)
(*   Mode = "atomic"  mark := max(mark, v) in one step (fetch_max):         *)
(*                    a close() after all recorders reports everything.     *)
(*   Mode = "racy"    load; compare; store as separate steps: a recorder of *)
(*                    a small value overwrites the mark just published by a *)
(*                    recorder of a larger one and close() skips the larger *)
(*                    bucket - TLC finds the lost observation (negative     *)
(*                    model: MC_aux_racy.cfg is EXPECTED to violate         *)
(*                    CloseReportsAll).                                     *)
(* Values are bucket indices 1..NB (0 = nothing recorded yet).              *)
(***************************************************************************)
EXTENDS Integers, FiniteSets, TLC

CONSTANTS Mode, Procs, NB

VARIABLES cnt,      \* 1..NB -> Nat
          mark,     \* high-water mark
          pc,       \* Procs -> "start" | "loaded" | "marked" | "done"
          val,      \* Procs -> the value the recorder records
          seen,     \* Procs -> the mark the recorder loaded
          closed,   \* close() has run
          reported  \* the buckets close() reported
avars == <<cnt, mark, pc, val, seen, closed, reported>>

AInit == /\ cnt = [b \in 1..NB |-> 0] /\ mark = 0 /\ pc = [p \in Procs |-> "start"]
         /\ val \in [Procs -> 1..NB] /\ seen = [p \in Procs |-> 0] /\ closed = FALSE /\ reported = {}

\* fetch_max
MarkAtomic(p) == /\ Mode = "atomic" /\ pc[p] = "start"
                 /\ mark' = IF val[p] > mark THEN val[p] ELSE mark
                 /\ pc' = [pc EXCEPT ![p] = "marked"] /\ UNCHANGED <<cnt, val, seen, closed, reported>>
\* load ... compare ... store
Load(p) == /\ Mode = "racy" /\ pc[p] = "start"
           /\ seen' = [seen EXCEPT ![p] = mark]
           /\ pc' = [pc EXCEPT ![p] = "loaded"] /\ UNCHANGED <<cnt, mark, val, closed, reported>>
Store(p) == /\ pc[p] = "loaded"
            /\ mark' = IF val[p] > seen[p] THEN val[p] ELSE mark
            /\ pc' = [pc EXCEPT ![p] = "marked"] /\ UNCHANGED <<cnt, val, seen, closed, reported>>
FetchAdd(p) == /\ pc[p] = "marked"
               /\ cnt' = [cnt EXCEPT ![val[p]] = @ + 1]
               /\ pc' = [pc EXCEPT ![p] = "done"] /\ UNCHANGED <<mark, val, seen, closed, reported>>
\* close(self): owns the histogram, so every recorder is done
Close == /\ closed = FALSE /\ \A p \in Procs : pc[p] = "done"
         /\ closed' = TRUE /\ reported' = {b \in 1..NB : b <= mark /\ cnt[b] > 0}
         /\ UNCHANGED <<cnt, mark, pc, val, seen>>

ANext == Close \/ \E p \in Procs : MarkAtomic(p) \/ Load(p) \/ Store(p) \/ FetchAdd(p)
ASpec == AInit /\ [][ANext]_avars

RECURSIVE Sum(_, _)
Sum(f, S) == IF S = {} THEN 0 ELSE LET x == CHOOSE x \in S : TRUE IN f[x] + Sum(f, S \ {x})
\* the closed distribution accounts for every recorded observation
CloseReportsAll == closed => Sum(cnt, reported) = Cardinality(Procs)
=============================================================================
