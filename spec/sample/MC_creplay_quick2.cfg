CONSTANTS
  Groups = {1, 2}
  Vols = {0, 1, 3, 6, 12}
  MaxIntervals = 3
  Targets = {5}
  Ttl = 8
  Depth = 3
  OnlyEnds = FALSE
  SortFirst = TRUE
SPECIFICATION RSpec
INVARIANT Emit
INVARIANT CInv
CONSTRAINT Bound
CHECK_DEADLOCK FALSE
