SPECIFICATION TSpec
CONSTRAINT Track
INVARIANT Ok
POSTCONDITION Accepted
CHECK_DEADLOCK FALSE
