//! Driver for the EMF formatter (C02 C03 C08; building blocks in `vharness::emf`).
//!
//!   emf replay --behaviours b.ndjson --out results.ndjson [--reuse 1] [--ways a,b,..]
//!
//! Every input line is a TLC behaviour of spec/emf/EmfReplay.tla plus bookkeeping:
//!   {"id": n, "v": variant, "cfg": {...}, "calls": [...]}
//! The driver concretises the abstract symbols (variant `v`), builds a scripted `Entry` issuing
//! exactly those writer calls and formats it with the REAL `Emf` / `SampledEmf`, once per way of
//! choosing the validation mode.  Ways that produced the same status, error and bytes are
//! reported as one group together with the strict projection of the bytes.
//!
//! A behaviour may carry `"fault": "zero"|"one"|"mid"|"lastline"|"last"|"interrupted"` (used with `--reuse 1`):
//! the long-lived formatter first formats the entry into a failing writer, then into a healthy one (see
//! `run_with_fault`); the healthy result is what is reported.
//!
//! With `--reuse 1` one formatter instance per (configuration, way, variant) is kept and reused
//! for all behaviours that share it (default: a fresh formatter per behaviour and way).

use serde_json::{Value, json};
use std::collections::HashMap;
use std::io::Write;
use std::time::SystemTime;
use vharness::emf::{CfgSpec, Conc, Formatter, RunOut, Script, Way, project, run_once};
use vharness::util;

fn now_ms() -> u128 {
    SystemTime::now().duration_since(SystemTime::UNIX_EPOCH).unwrap().as_millis()
}

/// Bytes with the digits after every `"Timestamp":` removed: entries that write no timestamp get
/// `SystemTime::now()`, which differs between two format calls (an unescaped `"Timestamp":` cannot
/// occur inside a JSON string).
fn mask_now(bytes: &[u8]) -> Vec<u8> {
    const PAT: &[u8] = b"\"Timestamp\":";
    let mut out = Vec::with_capacity(bytes.len());
    let mut i = 0;
    while i < bytes.len() {
        if bytes[i..].starts_with(PAT) {
            out.extend_from_slice(PAT);
            i += PAT.len();
            while i < bytes.len() && bytes[i].is_ascii_digit() {
                i += 1;
            }
        } else {
            out.push(bytes[i]);
            i += 1;
        }
    }
    out
}

/// accepts `left` bytes (possibly ending in the middle of a slice), then fails
struct FailAfter {
    left: usize,
}
impl Write for FailAfter {
    fn write(&mut self, buf: &[u8]) -> std::io::Result<usize> {
        if self.left == 0 && !buf.is_empty() {
            return Err(std::io::Error::other("scripted writer failure"));
        }
        let n = buf.len().min(self.left);
        self.left -= n;
        Ok(n)
    }
    fn flush(&mut self) -> std::io::Result<()> {
        Ok(())
    }
}

/// the first call is `Interrupted`, afterwards everything is accepted
struct InterruptOnce {
    hit: bool,
    buf: Vec<u8>,
}
impl Write for InterruptOnce {
    fn write(&mut self, buf: &[u8]) -> std::io::Result<usize> {
        if !self.hit {
            self.hit = true;
            return Err(std::io::ErrorKind::Interrupted.into());
        }
        self.buf.extend_from_slice(buf);
        Ok(buf.len())
    }
    fn flush(&mut self) -> std::io::Result<()> {
        Ok(())
    }
}

fn status_of(r: Result<Result<(), metrique_writer::stream::IoStreamError>, String>) -> (&'static str, Option<String>) {
    use metrique_writer::stream::IoStreamError as E;
    match r {
        Ok(Ok(())) => ("ok", None),
        Ok(Err(E::Validation(e))) => ("validation", Some(e.to_string())),
        Ok(Err(E::Io(e))) => ("io", Some(e.to_string())),
        Err(p) => ("panic", Some(p)),
    }
}

/// Fault injection between the entries of a long-lived formatter (`"fault": kind` on a behaviour):
/// the entry is first formatted into a writer that fails after N accepted bytes (N = 0, 1, the middle,
/// inside the last line, the last byte - relative to a probe run), which must return `Err(Io)`; then it is
/// formatted again into a healthy writer and THAT result is reported and judged like any other.  Kind
/// "interrupted": the reported result is the one produced through a writer whose first call is `Interrupted`.
fn run_with_fault(f: &mut Formatter, script: &Script, kind: &str, stats: &mut (u64, u64, u64)) -> RunOut {
    if kind == "interrupted" {
        let mut w = InterruptOnce { hit: false, buf: Vec::new() };
        let (status, err) = status_of(util::catch(|| f.format(script, &mut w)));
        return RunOut { status, err, bytes: w.buf };
    }
    let probe = run_once(f, script);
    let len = probe.bytes.len();
    if probe.status == "ok" && len > 0 {
        let body = &probe.bytes[..len - 1];
        let last_line_start = body.iter().rposition(|c| *c == b'\n').map(|i| i + 1).unwrap_or(0);
        let n = match kind {
            "zero" => 0,
            "one" => 1.min(len - 1),
            "mid" => len / 2,
            "lastline" => last_line_start + (len - last_line_start) / 2,
            _ => len - 1,
        };
        let mut w = FailAfter { left: n };
        let (status, _) = status_of(util::catch(|| f.format(script, &mut w)));
        stats.0 += 1;
        if status == "io" {
            stats.1 += 1;
        } else {
            stats.2 += 1;
        }
    }
    run_once(f, script)
}

fn main() {
    let (cmd, args) = util::args();
    match cmd.as_str() {
        "replay" => replay(&args),
        _ => {
            eprintln!("usage: emf replay --behaviours b.ndjson --out results.ndjson [--reuse 1] [--ways w1,w2]");
            std::process::exit(2);
        }
    }
}

fn replay(args: &HashMap<String, String>) {
    // a panic of the code under test is reported as data; keep stderr quiet
    std::panic::set_hook(Box::new(|_| {}));
    let behaviours = util::read_ndjson(util::arg_str(args, "behaviours", ""));
    let reuse = util::arg_u64(args, "reuse", 0) == 1;
    let ways: Vec<Way> = match args.get("ways") {
        Some(s) => s.split(',').map(|w| Way::from_name(w).unwrap_or_else(|| panic!("unknown way {w}"))).collect(),
        None => Way::ALL.to_vec(),
    };
    let mut out = std::io::BufWriter::new(std::fs::File::create(util::arg_str(args, "out", "")).expect("create out"));
    let mut cache: HashMap<String, Formatter> = HashMap::new();
    let profile = if cfg!(debug_assertions) { "debug" } else { "release" };

    for b in &behaviours {
        let conc = Conc { v: b["v"].as_u64().unwrap_or(0) };
        let cfg = CfgSpec::from_json(&b["cfg"]);
        let calls = b["calls"].as_array().cloned().unwrap_or_default();
        let prefill = b["prefill"].as_u64().unwrap_or(0) as usize;
        let (script, desc) = Script::from_abstract_prefilled(&calls, &conc, prefill);
        let before = now_ms();
        let has_ts = script.calls.iter().any(|c| matches!(c, vharness::emf::Call::Ts(_)));
        // equality of two runs: status, error text and bytes - as a multiset of lines, because the
        // order of split records is the iteration order of a per-instance randomly seeded hash map
        let norm = |r: &RunOut| -> Vec<Vec<u8>> {
            let b = if has_ts { r.bytes.clone() } else { mask_now(&r.bytes) };
            let mut lines: Vec<Vec<u8>> = b.split_inclusive(|c| *c == b'\n').map(|l| l.to_vec()).collect();
            lines.sort();
            lines
        };
        let same = |a: &RunOut, b: &RunOut| a.status == b.status && a.err == b.err && norm(a) == norm(b);
        let mut groups: Vec<(RunOut, Vec<&'static str>)> = Vec::new();
        // (failing-writer calls, of which returned Err(Io), of which did not)
        let mut fault_stats = (0u64, 0u64, 0u64);
        for &way in &ways {
            let r = if reuse {
                let key = format!("{}|{}|{}", b["cfg"], way.name(), conc.v);
                if !cache.contains_key(&key) {
                    match Formatter::build(&cfg, way, &conc) {
                        Some(f) => {
                            cache.insert(key.clone(), f);
                        }
                        None => continue,
                    }
                }
                match b["fault"].as_str() {
                    Some(kind) => run_with_fault(cache.get_mut(&key).unwrap(), &script, kind, &mut fault_stats),
                    None => run_once(cache.get_mut(&key).unwrap(), &script),
                }
            } else {
                match Formatter::build(&cfg, way, &conc) {
                    Some(mut f) => run_once(&mut f, &script),
                    None => continue,
                }
            };
            match groups.iter_mut().find(|(g, _)| same(g, &r)) {
                Some((_, ws)) => ws.push(way.name()),
                None => groups.push((r, vec![way.name()])),
            }
        }
        let after = now_ms();
        let runs: Vec<Value> = groups
            .iter()
            .map(|(r, ws)| {
                let raw = if r.bytes.len() <= 3000 { Value::String(String::from_utf8_lossy(&r.bytes).into_owned()) } else { Value::Null };
                json!({
                    "ways": ws,
                    "status": r.status,
                    "err": r.err,
                    "len": r.bytes.len(),
                    "raw": raw,
                    "parse": if r.bytes.is_empty() { Value::Null } else { project(&r.bytes) },
                })
            })
            .collect();
        let namespaces: Vec<String> = (1..=cfg.ns).map(|i| conc.namespace(i)).collect();
        let names: serde_json::Map<String, Value> = ["a", "b", "s", "d1", "d2", "k1", "k2", "", "_aws"]
            .iter()
            .map(|n| (n.to_string(), Value::String(conc.name(n))))
            .collect();
        let line = json!({
            "id": b["id"],
            "v": conc.v,
            "profile": profile,
            "now": [before.to_string(), after.to_string()],
            "conc": {
                "names": names,
                "ns": namespaces,
                "lg": if cfg.lg { Value::String(conc.log_group()) } else { Value::Null },
                "dimv": {"v1": conc.dim_value("v1"), "v2": conc.dim_value("v2")},
                "extra": {"ns": vharness::emf::EXTRA_NS, "dims": [[vharness::emf::EXTRA_DIM]],
                          "metrics": [{"name": vharness::emf::EXTRA_METRIC, "unit": "Count", "res": null}]},
                "calls": desc,
            },
            "runs": runs,
            "fault": {"kind": b["fault"], "calls": fault_stats.0, "io_err": fault_stats.1, "not_io_err": fault_stats.2},
        });
        writeln!(out, "{line}").unwrap();
    }
    out.flush().unwrap();
}
