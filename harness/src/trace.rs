//! Global event log. The sequence number is assigned under the same mutex that appends the
//! event, so the log order is a linear extension of happens-before between logging threads.

use serde_json::{Map, Value};
use std::io::Write;
use std::sync::Mutex;

static LOG: Mutex<Vec<Value>> = Mutex::new(Vec::new());
/// current scenario; objects created in an earlier scenario (e.g. the stream of a writer thread
/// that never terminated) must not log into a later scenario's trace
static EPOCH: std::sync::atomic::AtomicU64 = std::sync::atomic::AtomicU64::new(0);

pub fn set_epoch(e: u64) {
    EPOCH.store(e, std::sync::atomic::Ordering::SeqCst);
}
pub fn epoch() -> u64 {
    EPOCH.load(std::sync::atomic::Ordering::SeqCst)
}

/// Append an event (a JSON object); returns its position.
pub fn ev(v: Value) -> usize {
    let mut g = LOG.lock().unwrap_or_else(|e| e.into_inner());
    g.push(v);
    g.len()
}

/// Append an event unless it is identical to the last logged event (used for idempotent
/// events such as a periodic stream flush: Flush;Flush stutters in the specification).
pub fn ev_dedup(v: Value) -> usize {
    let mut g = LOG.lock().unwrap_or_else(|e| e.into_inner());
    if g.last() != Some(&v) {
        g.push(v);
    }
    g.len()
}

/// Convenience: event with name and integer fields.
pub fn evi(name: &str, fields: &[(&str, i64)]) -> usize {
    let mut m = Map::new();
    m.insert("ev".into(), Value::String(name.into()));
    for (k, v) in fields {
        m.insert((*k).into(), Value::from(*v));
    }
    ev(Value::Object(m))
}

pub fn len() -> usize {
    LOG.lock().unwrap_or_else(|e| e.into_inner()).len()
}

/// Take all events logged so far.
pub fn take() -> Vec<Value> {
    std::mem::take(&mut *LOG.lock().unwrap_or_else(|e| e.into_inner()))
}

pub fn write_ndjson(path: &str, events: &[Value]) -> std::io::Result<()> {
    let mut f = std::io::BufWriter::new(std::fs::File::create(path)?);
    for e in events {
        serde_json::to_writer(&mut f, e)?;
        f.write_all(b"\n")?;
    }
    f.flush()
}

pub fn append_ndjson(f: &mut impl Write, events: &[Value]) -> std::io::Result<()> {
    for e in events {
        serde_json::to_writer(&mut *f, e)?;
        f.write_all(b"\n")?;
    }
    Ok(())
}
