\* two globals sharing 1 thread and 1 runtime: 2 sinks and 1 entry each
CONSTANTS
  Threads = {1}
  Runtimes = {1}
  MaxSinks = 2
  MaxEntries = 1
SPECIFICATION Spec
INVARIANT Inv
PROPERTY Independent
PROPERTY DestStable
PROPERTY Routed1
PROPERTY Routed2
CHECK_DEADLOCK FALSE
