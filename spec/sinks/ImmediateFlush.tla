--------------------------- MODULE ImmediateFlush ---------------------------
(***************************************************************************)
(* X02 (b): FlushImmediately / AnyFlushImmediately / build_boxed            *)
(* (metrique-writer/src/sink/immediate_flush.rs): an Arc<std::sync::Mutex>  *)
(* around the stream; every append = lock, stream.next(entry),              *)
(* stream.flush(), unlock - in the appending thread.                        *)
(*                                                                         *)
(* Implementation-shaped layer: one action per step of append per thread    *)
(*   Start -> Lock -> Next(answer) -> Flush(answer) -> Unlock               *)
(* the stream answers next with ok | val | io | panic and flush with        *)
(* ok | err | panic; a panic unwinds through the MutexGuard: the lock is    *)
(* released and the mutex is POISONED; `lock().unwrap()` of every later     *)
(* append panics (that is what the code does: it promises nothing else) -   *)
(* the append terminates, nothing is handed to the stream.                  *)
(* flush_async takes no lock and returns a future that is ready.            *)
(*                                                                         *)
(* Property layer, over the log of stream calls (history variable `log`):   *)
(*   Atomic        the log is a concatenation of blocks next(t,e) flush(t); *)
(*                 a block is cut short only by a panic of the stream       *)
(*                 itself: calls of two appends never interleave            *)
(*   ExactlyOnce   an entry whose append returned was handed over exactly   *)
(*                 once; no entry is ever handed over twice                 *)
(*   FlushedOnReturn  when append(e) returns, next(e) and the flush after   *)
(*                 it have happened ("written immediately")                 *)
(*   NoWedge       every append terminates - returns or panics - whatever   *)
(*                 the stream answered to whom (no deadlock; Terminates     *)
(*                 under weak fairness)                                     *)
(*   PoisonIsClean (implementation-shaped) after a panic inside the lock    *)
(*                 nothing is handed to the stream any more                 *)
(* CONSTANT Bug: flushOutside (lock released between next and flush),       *)
(*   noFlush, flushOnOk (no flush after a failed next - NOT a property      *)
(*   violation of X02, listed for the trace spec's strict mode), wedge (a   *)
(*   lock that stays held when its holder panics), recover (a lock without  *)
(*   poisoning: allowed by the property layer).                             *)
(***************************************************************************)
EXTENDS Naturals, Sequences, FiniteSets, TLC

CONSTANTS Threads, PerThread, NextRes, FlushRes, AsyncOK, Bug

VARIABLES pc, cur, left, holder, poisoned, log, outcome, nres
vars == <<pc, cur, left, holder, poisoned, log, outcome, nres>>

Entry(t, i) == t * 10 + i
Entries == {Entry(t, i) : t \in Threads, i \in 1..PerThread}

Init ==
    /\ pc = [t \in Threads |-> "idle"] /\ cur = [t \in Threads |-> 0]
    /\ left = [t \in Threads |-> PerThread]
    /\ holder = 0 /\ poisoned = FALSE /\ log = <<>>
    /\ outcome = [e \in Entries |-> "none"]
    /\ nres = [t \in Threads |-> "ok"]

Start(t) ==
    /\ pc[t] = "idle" /\ left[t] > 0
    /\ cur' = [cur EXCEPT ![t] = Entry(t, PerThread - left[t] + 1)]
    /\ left' = [left EXCEPT ![t] = @ - 1]
    /\ pc' = [pc EXCEPT ![t] = "want"]
    /\ UNCHANGED <<holder, poisoned, log, outcome, nres>>

Panicked(t) == /\ outcome' = [outcome EXCEPT ![cur[t]] = "panicked"]
               /\ pc' = [pc EXCEPT ![t] = "idle"] /\ cur' = [cur EXCEPT ![t] = 0]

\* self.stream.lock().unwrap()
Lock(t) ==
    /\ pc[t] = "want" /\ holder = 0
    /\ IF poisoned /\ Bug # "recover"
         THEN /\ Panicked(t) /\ UNCHANGED <<holder, poisoned, log, left, nres>>
         ELSE /\ holder' = t /\ pc' = [pc EXCEPT ![t] = "locked"]
              /\ UNCHANGED <<cur, left, poisoned, log, outcome, nres>>

Unwind(t) == /\ holder' = IF Bug = "wedge" THEN holder ELSE 0
             /\ poisoned' = TRUE
             /\ Panicked(t)

Next(t, r) ==
    /\ pc[t] = "locked" /\ holder = t
    /\ log' = Append(log, [op |-> "next", t |-> t, e |-> cur[t], r |-> r])
    /\ IF r = "panic" THEN Unwind(t) /\ UNCHANGED <<left, nres>>
       ELSE /\ nres' = [nres EXCEPT ![t] = r]
            /\ IF Bug = "noFlush" \/ (Bug = "flushOnOk" /\ r # "ok")
                 THEN pc' = [pc EXCEPT ![t] = "flushed"] /\ holder' = holder
                 ELSE IF Bug = "flushOutside"
                   THEN pc' = [pc EXCEPT ![t] = "nexted"] /\ holder' = 0
                   ELSE pc' = [pc EXCEPT ![t] = "nexted"] /\ holder' = holder
            /\ UNCHANGED <<cur, left, poisoned, outcome>>

Flush(t, r) ==
    /\ pc[t] = "nexted"
    /\ IF Bug = "flushOutside" THEN holder = 0 ELSE holder = t
    /\ log' = Append(log, [op |-> "flush", t |-> t, e |-> 0, r |-> r])
    /\ IF r = "panic" THEN Unwind(t) /\ UNCHANGED <<left, nres>>
       ELSE /\ pc' = [pc EXCEPT ![t] = "flushed"]
            /\ holder' = IF Bug = "flushOutside" THEN t ELSE holder
            /\ UNCHANGED <<cur, left, poisoned, outcome, nres>>

Unlock(t) ==
    /\ pc[t] = "flushed" /\ holder = t
    /\ holder' = 0
    /\ outcome' = [outcome EXCEPT ![cur[t]] = "returned"]
    /\ pc' = [pc EXCEPT ![t] = "idle"] /\ cur' = [cur EXCEPT ![t] = 0]
    /\ UNCHANGED <<left, poisoned, log, nres>>

\* flush_async(): FlushWait::ready() - no lock, no stream call, ready at the first poll
FlushAsync(t) == AsyncOK /\ pc[t] = "idle" /\ left[t] > 0 /\ UNCHANGED vars

Step(t) == \/ Start(t) \/ Lock(t) \/ Unlock(t)
           \/ \E r \in NextRes : Next(t, r)
           \/ \E r \in FlushRes : Flush(t, r)
\* all appends have terminated (explicit stuttering, so that TLC's deadlock check means "wedged")
Done == (\A t \in Threads : pc[t] = "idle" /\ left[t] = 0) /\ UNCHANGED vars
NextStep == (\E t \in Threads : Step(t) \/ FlushAsync(t)) \/ Done
Spec == Init /\ [][NextStep]_vars /\ \A t \in Threads : WF_vars(Step(t))

\* ---- property layer --------------------------------------------------------------------------
IsNext(i) == log[i].op = "next"
FlushFollows(i) == i < Len(log) /\ log[i + 1].op = "flush" /\ log[i + 1].t = log[i].t
\* the calls of one append are never separated by calls of another: after next(t,e) comes flush(t),
\* unless the stream made that next panic or (flush is then optional) answered it with an error
Atomic ==
    /\ \A i \in 1..Len(log) :
         IsNext(i) => \/ FlushFollows(i)
                      \/ log[i].r # "ok"
                      \/ i = Len(log) /\ pc[log[i].t] = "nexted"
    /\ \A i \in 1..Len(log) : ~IsNext(i) => i > 1 /\ IsNext(i - 1) /\ log[i - 1].t = log[i].t /\ log[i - 1].r # "panic"
Handed(e) == Cardinality({i \in 1..Len(log) : IsNext(i) /\ log[i].e = e})
ExactlyOnce == \A e \in Entries : Handed(e) <= 1 /\ (outcome[e] = "returned" => Handed(e) = 1)
FlushedOnReturn ==
    \A e \in Entries : outcome[e] = "returned" =>
        \E i \in 1..Len(log) : IsNext(i) /\ log[i].e = e /\ (log[i].r = "ok" => FlushFollows(i))
\* implementation-shaped: a flush after every next that did not panic, also after a failed one
FlushEach == \A i \in 1..Len(log) : IsNext(i) /\ log[i].r # "panic" =>
                 FlushFollows(i) \/ (i = Len(log) /\ pc[log[i].t] = "nexted")
HolderOK == holder # 0 => pc[holder] \in {"locked", "nexted", "flushed"} \/ Bug = "wedge"
IInv == Atomic /\ ExactlyOnce /\ FlushedOnReturn /\ HolderOK
Terminates == <>(\A t \in Threads : pc[t] = "idle" /\ left[t] = 0)
\* implementation-shaped
PoisonIsClean == [][poisoned => log' = log]_vars
=============================================================================
