#!/usr/bin/env python3
"""Regenerates /verif/MANIFEST.json from the table below (single source of truth for the interface)."""
import json, os, subprocess
VERIF = os.path.dirname(os.path.dirname(os.path.abspath(__file__)))

def repo_hook_commits():
    out = subprocess.run(["git", "-C", "/repo", "log", "--format=%H %s"], capture_output=True, text=True).stdout
    return [l.split()[0] for l in out.splitlines() if " verif hooks:" in l][::-1]

MC = "model_checking"
CHECKS = {
 "C01": dict(design="4/C01", technique="TLA+ refinement check (BackgroundQueue.tla => QueueAbs.tla, TLC) + TLC trace validation of recorded and TLC-scheduled executions of the real queue",
   text="TLC proves for every interleaving within small constants that the implementation-shaped model of background.rs refines the abstract drop-oldest FIFO (exactly once, per-producer order, errors isolated); the real queue is bound to it by validating every recorded execution (1-6 OS producer threads, typed/boxed, scripted Ok/Validation/Io results, flush requests, schedule perturbation at hook points) and every TLC-generated schedule replayed under a cooperative controller against QueueAbs with TLC.",
   note="small-scope (<=2 producers, <=3 entries in exhaustive configs); crossbeam ArrayQueue trusted linearizable; conformance samples executions"),
 "C04": dict(design="4/C04", technique="TLC model checking of WakerTracker.tla / BackgroundQueue.tla + exhaustive behaviour replay into the real WakerTracker + trace validation (flush barrier)",
   text="The waker protocol (S1/S2/L1) is model-checked exhaustively and every behaviour up to a depth bound is stepped through the real WakerTracker (hook API); the barrier 'flush done => everything appended before is written and flushed' is an enabling condition of QueueAbs checked by TLC on every recorded/scheduled execution, including never-empty queues and parked writers; completion is observed from the waker callback.",
   note="bounded progress is checked as 'two batches' on the tracker and with a 10 s wall-clock budget on the live queue"),
 "C05": dict(design="4/C05", technique="TLA+ refinement + liveness (TLC, fairness) + trace validation of shutdown/forget executions and TLC schedules",
   text="TLC checks DropEnd => ShutdownComplete (drained, flushed, closed) and, under fairness, that a forgotten queue terminates; recorded executions (drop with slow streams, late appends, forget + last handle dropped) and TLC schedules that place pushes between the writer's last pop and its flag read are validated against QueueAbs.",
   note="termination observed with a 10 s budget; flush intervals <= 20 ms in forget scenarios"),
 "C09": dict(design="4/C09", technique="TLA+ refinement (drop-oldest Lin action) + trace validation of stalled-writer executions with the overflow counter",
   text="The abstract queue's Lin action is the drop-oldest rule; TLC explains every recorded overflow execution (writer stalled inside next at a scripted entry, capacities 1..8, extra appends 0..2*cap, several producers) by a linearization and requires the metrics counter to equal the number of displaced entries; appends that take >5 s or panic are rejected events.",
   note="concurrent overflowing appends are serialized by the harness or kept tiny (search explosion), concurrency x overflow is covered exhaustively in the TLC model with Cap=1"),
 "C02": dict(design="4.1/C02", technique="TLA+ state machine of the EMF entry writer (EmfFormat.tla) checked by TLC + exhaustive/simulated behaviour replay into the real Emf/SampledEmf judged by a strict JSON parser",
   text="TLC decides for every enumerated entry x configuration that Accept yields >=1 well-formed record and Reject yields nothing, covering every placement of skippable observations (NaN, zero-occurrence, empty, +-Inf) in 23 observation lists, all names incl. empty/_aws/dimension names, units, flags, per-metric dimensions in split and ignored mode, entry dimensions early/late/twice/empty, 1-3 namespaces, default dimension sets, sampling multiplicity none/1/3/saturating; every such entry is issued call by call to the real formatter with nasty strings and extreme numbers; on success the bytes must be newline-framed strict RFC 8259 with the _aws skeleton, a validation error must have written zero bytes.",
   note="exhaustive within slices (<=3 calls, 47-entry catalogue x 288 configurations), simulated beyond; number/string rendering checked on concrete representatives only; I/O errors are C16"),
 "C03": dict(design="4.1/C03", technique="TLA+ reference interpretation of an entry (Accept(records) computed by TLC) compared with the strictly parsed output of the real formatter on every TLC-generated entry",
   text="TLC computes the expected records for each entry (members with source observation and transformation, counts as saturating occurrences x multiplicity, declarations with unit and resolution per namespace, dimension sets = configured x entry sets extended by per-metric dimensions, timestamp) and checks Faithful on the model; the real output is parsed strictly and compared order-insensitively, floats as parsed f64, integers exactly, timestamp in whole ms, 3 namespaces and two split sets included.",
   note="a bare number and {Values:[v],Counts:[1]} are treated as equal content (MODEL-DRIFT only); numeric leaves on ~40 representatives"),
 "C08": dict(design="4.1/C08", technique="TLC equivalence of the validation state machine with a declarative defect predicate + soundness/transparency invariants + decision and byte replay against the real formatter for every way of enabling validations, in debug and release builds",
   text="TLC proves on all enumerated entries RejectIff (reject exactly when a listed defect is present), Sound (no accepted record has duplicate members) and Transparent (Accept(on) = Accept(off)); the real formatter's decision must equal the model for all_validations, builder and skip_all_validations(false) in dev and release harness builds; rejected => zero bytes, accepted => no duplicate member and output identical to a no-validation formatter.",
   note="Emf::builder / skip_all_validations(false) are taken at their documentation (validations on iff debug assertions); AllowUnroutableEntries entries compared as drift only; byte equality = equality of the multiset of lines (split records come out in hash-map order)"),
 "C14": dict(design="4/C14", technique="TLC model checking of the formatter's reused state (EmfHistory.tla: Stateless/NoResidue/PrefixKept over all kind sequences, model-bug sensitivity runs) + TLC-generated kind sequences replayed into one long-lived real formatter and compared per position with a freshly built one",
   text="TLC proves on the abstract buffer/map/flag/capacity model that output and decision for every entry kind are independent of any preceding sequence and that seeded missing resets break this; every TLC sequence (pairs/triples over 24 kinds x 4 writer behaviours x 11 configurations, 200-long simulate walks) is replayed into the real Emf / SampledEmf / wrapped formatter and each position compared (Result class + records as a multiset of parsed lines) with a fresh formatter, including rejected, split, sampled, multi-megabyte and I/O-failed predecessors.",
   note="catalogue of 24 kinds x 4 writer behaviours (none / fails on first byte / mid record / inside the last line) x 11 configurations; byte contents only via concrete representatives; error text differences are drift only"),
 "C15": dict(design="4/C15", technique="TLA+ two-layer model of the value/entry writer pipeline (ValuePipeline.tla, TLC invariant on every wrapper stack) + exhaustive replay of all TLC-printed stacks/compositions into the real wrapper types, recording ValueWriter/EntryWriter as observation",
   text="TLC checks for every stack of value wrappers (depth <=2 quick / <=3 thorough, 11 base values) and every composition of entry wrappers (BoxEntry, Merged/MergedRef/MergeGlobals, WithGlobalDimensions incl. deny list, WithDimensions/ForceFlag as Entry/InflectableEntry/stream, RootEntry, Option/Box/Arc/Cow/&) that the layer-by-layer result is the plain item sequence plus only the documented additions, sample groups included; every stack is built from the real types and the call sequence seen by a recording format is compared item by item with TLC's expectation.",
   note="small scope: nesting depth 3, fixed parameter sets; flags observed through a harness MetricOptions; borrowed-vs-owned names not observed"),
 "C16": dict(design="4/C16", technique="TLC model checking of VectoredWrite.tla (safety + termination against a nondeterministic writer) and SinkErrors.tla; every TLC writer script played against the real write_all_vectored with its call log validated by TLC (VectoredTrace.tla); random writers on real EMF records; TLC result scripts on FlushImmediately/Tee; BackgroundQueue scenarios validated against QueueTrace.tla",
   text="For <=3 buffers of <=3 bytes every writer behaviour (accept k, Ok(0), Interrupted, hard error) is enumerated and executed on the real loop: offered slices equal the model's at every call and received bytes are the record's prefix; real single/multi-namespace/split/large records under random short writes and faults are byte-compared with an all-accepting writer with errors confined to their entry; every stream of every sink variant receives each entry exactly once under all ok|val|io/flush-error scripts.",
   note="exhaustive only within small constants; multi-megabyte records byte-checked, not TLC-validated; a skipped flush after a failed append is MODEL-DRIFT (the property does not mention flushing); queue part shares C01's assumptions"),
 "C19": dict(design="4/C19", technique="TLA+ unit algebra on exponent pairs decided by TLC for all ordered triples of the 26 units + TLC-printed expectation per convertible pair replayed into statically typed WithUnit shapes, #[metrics(unit=..)] structs and dynamic stacks; exact rational oracle, 4 ulp",
   text="TLC decides inverse, composition, scale preservation, declared unit name, string/mismatch => error for every ordered pair/triple; the real conversion of every one of the 435 pairs (Unsigned, Floating, Repeated; round trips; Duration for all time pairs) and of Option/Distribution/Mean/Box shapes, #[metrics(unit)] fields and unit-carrying wrapper stacks are compared with TLC's exponents in exact arithmetic.",
   note="numbers on representatives {0,1,3,1e15,2^63,1e-9}, 4 ulp; container shapes on a 55-pair subset; Custom units and Count/Percent as sources not convertible by type, not exercised"),
 "C07": dict(design="4/C07", technique="TLA+ path model of the documented #[metrics] naming function (TLC: every root-to-leaf attribute path within bounds) + generated-program conformance: TLC's chains are compiled into Rust types with the real macro against the working tree and every emitted item / sample-group pair is compared with TLC's expected string",
   text="TLC enumerates every path through struct trees of depth <=3 (12 container variants x 3 flatten-prefix kinds x Option edges per level, 11 leaf kinds), entry enums at the root and flattened into a struct (tag variants, struct/tuple/unit variants, variant renames) and computes the final emitted name, kind, unit, value class and sample-group pair of each path, incl. chains over the 100-byte const-string limit; the paths are compiled through the real #[metrics] macro (16/48 compilation units) and the recorded EntryWriter output must equal TLC's expectation item by item: exactly one item per present field, nothing for ignored or absent ones.",
   note="identifiers restricted to lowercase snake-case / PascalCase words; quick binds depth <=2 exhaustively plus seeded samples of depth-3 chains and nested enums, thorough binds depth 3 exhaustively; known finding C07:sample-group-flatten-prefix; ignore inside enum struct variants not bound (macro compile failure)"),
 "C10": dict(design="4/C10", technique="TLC model checking of Aggregation.tla (declarative Expected(log) vs incremental accumulators) and Worker.tla (refines WorkerAbs.tla, liveness under fairness) + exhaustive history replay into 6 sink arrangements + TLC trace validation of multi-producer WorkerSink executions",
   text="TLC proves for every history of merges, flushes and merge-on-drop guards within the constants that each flush emits exactly one aggregate per distinct key containing exactly the inputs merged since the previous flush (sum, bag, keep-last) under three key functions, and that the worker loop refines the flush barrier and terminates with everything emitted once its handles are gone; every history up to depth 5 (6 thorough) is replayed into KeyedAggregator, MutexSink<Aggregate> with both guard kinds, WorkerSink and TeeSink and compared at every flush; recorded multi-producer runs are checked event by event.",
   note="small scope (2-3 keys, 2-3 value symbols, <=6 operations exhaustively); timed flushes only in recorded runs; worker termination observed with a 10 s budget"),
 "C11": dict(design="4/C11", technique="TLC decides the 976-bucket layout in exponent arithmetic and count conservation under all interleavings (Histogram.tla, HistLayout.tla) + replay of every bucket boundary/neighbour/midpoint and all Rec/Drain/Merge behaviours into the real histograms",
   text="TLC decides value->index vs index->range, partition, |mid-s| <= width/2 <= s/32 and the fixed point for all 976 buckets, and count conservation, quiescent drain, ascending RLE and merge fixed point under all interleavings of <=3 recorders with a bucket-by-bucket drain; every bucket boundary, neighbour and midpoint is replayed into the real Histogram/SharedHistogram through all sources and strategies, plus all Rec/Drain/Merge behaviours to depth 4/5 and 8x1e5 concurrent adds; comparison in exact rationals.",
   note="the 6.25% bound for values that are not representatives rests on monotonicity inside a bucket; values >= 2^43 only feed MODEL-DRIFT"),
 "C12": dict(design="4/C12", technique="TLA+ with exact rationals (Sampling.tla, SamplingGrid.tla) checked by TLC + replay into real FixedFractionSample / SampledEmf / CongressSample under a scripted RNG through add-only accessors",
   text="TLC decides the n/alpha split for every reduced rate p/q with q <= 64/128, edge rates, symbolic powers of two (saturation) and the four congress invariants for every volume history in the box (<=3 groups, <=4 intervals, 11 for TTL); emit/skip, forwarded rate, EMF weights and congress rates of the real code are compared with TLC's rationals under a scripted RNG.",
   note="'every representable f32 rate' is covered on the rational grid, edges, all powers of two and seeded random floats, not all 2^30; above 2^53 the weight is judged against the f64 value of 1/rate; tolerances stated in the evidence"),
 "C17": dict(design="4/C17", technique="TLC model checking of GlobalSink.tla and GlobalSinkRace.tla (refines GlobalDetach.tla) + exhaustive routing-history replay with probe matrix into real global_entry_sink! globals + TLC trace validation of append-vs-attach/detach races",
   text="TLC proves for every operation history within the constants that routing is first-of(thread-local, runtime, attached), that a panicking install/attach changes nothing and never poisons, that guard/handle drops fall back to the next destination and that a detach flushes what the sink accepted; the lock-level model refines the concurrent property layer for every interleaving; the real macro is bound by executing every routing history up to depth 5 (6 thorough), each followed by appends from every thread x runtime context with TLC's destination matrix as oracle, and by validating recorded races against GlobalDetach.",
   note="small scope (2 threads, 2 runtimes, one fresh sink per install); ServiceMetrics only as an instance of the macro; handle drops observed with a 10 s budget"),
 "C06": dict(design="4/C06", technique="TLC model checking of KeepAlive.tla (two Arcs + Weak as reference counts, one atomic operation per action; property layer as invariants) + bounded-exhaustive/simulated operation histories and TLC interleavings of partial drops replayed into a real AppendAndCloseOnDrop + TLC trace validation of scheduled and free-running multi-threaded executions (KeepAliveTrace.tla)",
   text="TLC proves for every interleaving within small constants (<=3 threads, <=2 flush guards, <=2 force guards, <=2 handles, <=2 slots) that the reference-count protocol of Parent/Guard/DropAll emits exactly once, never before the enabling drops have started, and at every quiescent point iff owner+handles are dropped and (all flush guards or some force guard) are dropped, with every owner mutation; the real code is bound by every atomic operation order up to depth 6-9 executed on a real entry with the append count checked after every operation, TLC schedules that stop real threads inside DropAll::drop, at the end of SlotGuard::drop and inside the closing entry, and recorded multi-threaded executions, all judged by the property-level monitor.",
   note="small-scope exhaustive model; the window between the two decrements of the owner's drop has no hook (free-running scenarios only); Arc/Weak/oneshot trusted linearizable; memory safety of the UnsafeCell not addressed"),
 "C13": dict(design="4/C13", technique="same KeepAlive.tla modules, slots: Slot and LazySlot, open(Wait) and open(Discard)+delay_flush, wait_for_data completed/abandoned/data taken out; exhaustive histories + TLC schedules + trace validation",
   text="TLC proves for every interleaving (send and flush-guard release as two steps, the closing entry reading each slot with try_recv semantics as separate steps) that a wait-mode value is present with its last mutation unless a force guard's drop started first, that a discard-mode value is present if the guard's drop ended before the entry began to close and absent if it started after the append, never partial, slot opened once; bound to the real code by exhaustive operation histories (open/re-open/mutate/drop guard/drop parent/wait_for_data/force guards, one or two slots, both slot types), TLC schedules that close the parent between send and guard release, and recorded multi-threaded executions.",
   note="small-scope; overlapping guard-drop/close outcomes are accepted either way by the property layer (model prediction only as MODEL-DRIFT); wait_for_data bounded by 300 ms (replay) / 10 s (free-running)"),
 "C18": dict(design="4/C18", technique="TLA+ invariant check of the two-representation stopwatch / timer / timestamp machines against the sum-of-kept-spans property layer (Stopwatch.tla, TLC) + exhaustive and random TLC behaviours replayed step by step into the real Stopwatch/Timer/Timestamp over ManuallyAdvancedTimeSource",
   text="TLC proves over the whole reachable state space (3 guard slots, advances 0/1/2, bounded clock) that closing the implementation-shaped stopwatch machine (exclusive field / shared cell, idempotent span capture, overwrite = take-then-add, discard, clear, Rust's borrow rule) always yields the total of the completed non-discarded spans since the last clear/overwrite (None if none), and the same for Timer and Timestamp/TimestampOnClose; the real types are bound by replaying every operation sequence up to depth 6 (thorough 7-8) and long random walks, comparing the closed value after every step, at several tick lengths and both ways of injecting the time source.",
   note="small-scope exhaustiveness (<=3 live guards, depth <=8, walks <=10^4 steps); single-threaded; timestamps rendered as floats compared numerically (1e-12 relative)"),
 "C20": dict(design="4/C20", technique="TLA+ model checking of the atomic-cell bridge model against the interval-form property layer (MetricsBridge.tla => BridgeObs.tla, with negative models) + TLC trace validation of recorded multi-threaded executions of the real MetricRecorder (MetricsBridgeTrace.tla) + TLC-generated describe/use/readout histories replayed into the real recorder",
   text="TLC proves for every interleaving within small constants that a readout made of one swap/load per cell reports every applied increment and sample exactly once, that the interval rules over observable call starts/ends accept exactly these executions (load-then-store and snapshot-then-clear readers are rejected), and that the gauge rule always contains the value really held; the real bridge is bound by validating with TLC, event by event, recorded runs with 2-8 OS threads through the metrics 0.24 macros racing a reader thread (deltas, sample counts per value class, gauge last-writer-wins window, names, labels as dimensions, described units), plus exhaustive sequential naming/unit histories.",
   note="exhaustive only for the MC_mb*.cfg constants; conformance samples OS schedules (mitigated by contention on one key and ~4e5 updates per run); histogram values restricted to 5 well-separated classes; absolute(), gauge increment/decrement not exercised"),
}
NOT_YET = {}

def main():
    props = [json.loads(l) for l in open(os.path.join(VERIF, "properties.jsonl"))]
    checks = []
    na = []
    for p in props:
        pid = p["id"]
        if pid in CHECKS:
            c = CHECKS[pid]
            checks.append({
                "property_id": pid,
                "quick_cmd": f"bin/vcheck {pid} --tier quick",
                "thorough_cmd": f"bin/vcheck {pid} --tier thorough",
                "evidence_file": f"evidence/{pid}.json",
                "replay_cmd_template": f"bin/vcheck {pid} --replay {{path}}",
                "engine": "tlc+harness",
                "level_claimed": {"category": c.get("level", MC), "text": c["text"], "design_ref": c["design"]},
                "level_note": c["note"],
                "technique": c["technique"],
            })
        else:
            na.append({"property_id": pid, "reason": NOT_YET.get(pid, "check not built yet in this round (planned, see DESIGN.md section 4); nothing is claimed")})
    m = {
        "version": 1,
        "setup_cmd": "bin/setup",
        "hooks": {
            "guard": "--cfg metrique_verif",
            "enable": "harness/.cargo/config.toml sets rustflags = [\"--cfg\", \"metrique_verif\"]; the harness crate has path dependencies on /repo's crates, so every check rebuilds /repo's working tree with hooks on",
            "baseline_off_cmd": "cd /repo && cargo nextest run --workspace --no-fail-fast --test-threads 8 --offline || cargo test --workspace --no-fail-fast --offline",
            "source_commits": repo_hook_commits(),
            "add_only": True,
        },
        "engines": [
            {"name": "tlc+harness", "path": "bin/vcheck", "serves_properties": sorted(CHECKS),
             "kind_free_text": "TLA+ specifications (spec/), TLC model checking / behaviour generation / trace validation (lib/vlib.py), Rust conformance harness (harness/) built against /repo with --cfg metrique_verif"},
        ],
        "checks": checks,
        "not_applicable": na,
        "notes": "exit 0 = held, 1 = VIOLATION line + replay file, 2 = tool error. VERIF_SEED seeds scenario generation and TLC simulation. KNOWN-FINDING lines come from known_findings.json (status known). Extensions of the specification beyond the listed properties (service composition, lambda reporter / immediate flush / rate limit / test sinks, #[derive(Entry)] / Flex / instrument, queue self-metrics, time-source resolution and override scoping) run as bin/vcheck X01..X05 and are described in DESIGN.md 9.8; they are not registered checks.",
    }
    with open(os.path.join(VERIF, "MANIFEST.json"), "w") as f:
        json.dump(m, f, indent=1)
    print("checks:", len(checks), "not_applicable:", len(na))

if __name__ == "__main__":
    main()
