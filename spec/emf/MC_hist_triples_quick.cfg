\* C14 behaviours, quick: kind -> (kind x fault) -> kind for the main configuration (without the multi-megabyte kind)
CONSTANTS
  Bug = "none"
  ConfigNames = {"v1", "n1", "v2d", "n2d", "v3dd", "v1i", "s2d", "sn1", "wf", "ws", "wg"}
  Depth = 3
  Configs = {"v3dd"}
  FaultAt = {1}
  FaultMod = 0
  NoHuge = {"v3dd"}
SPECIFICATION RSpec
INVARIANT Emit
CONSTRAINT Bound
CHECK_DEADLOCK FALSE
