\* every routing history of length 5 (2 threads, 2 runtimes; one fresh sink per install)
CONSTANTS
  Threads = {1, 2}
  Runtimes = {1, 2}
  MaxSinks = 5
  MaxEntries = 0
  Depth = 5
SPECIFICATION RSpecA
INVARIANT EmitA
CONSTRAINT BoundA
CHECK_DEADLOCK FALSE
