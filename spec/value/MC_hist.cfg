CONSTANTS
  Depth = 5
SPECIFICATION Spec
INVARIANT HistoryIndependent
INVARIANT AdditionsPresent
INVARIANT Emit
INVARIANT EmitUnits
CONSTRAINT Bound
CHECK_DEADLOCK FALSE
