\* C14 behaviours: (kind x fault) -> kind, every pair, every configuration
CONSTANTS
  Bug = "none"
  ConfigNames = {"v1", "n1", "v2d", "n2d", "v3dd", "v1i", "s2d", "sn1", "wf", "ws", "wg"}
  Depth = 2
  Configs = {"v1", "n1", "v2d", "n2d", "v3dd", "v1i", "s2d", "sn1", "wf", "ws", "wg"}
  FaultAt = {0}
  FaultMod = 0
  NoHuge = {}
SPECIFICATION RSpec
INVARIANT Emit
CONSTRAINT Bound
CHECK_DEADLOCK FALSE
