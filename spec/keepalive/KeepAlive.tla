----------------------------- MODULE KeepAlive -----------------------------
(***************************************************************************)
(* C06 / C13: the unit-of-work guard AppendAndCloseOnDrop (metrique/src/    *)
(* lib.rs), its keep-alive protocol Parent / Guard / DropAll               *)
(* (keep_alive.rs) and Slot / LazySlot / SlotGuard (slot.rs).              *)
(*                                                                         *)
(* IMPLEMENTATION-SHAPED LAYER.  The two Arcs and the Weak are modelled as *)
(* what they are:                                                          *)
(*   valueRc  strong count of Arc<UnsafeCell<T>>: the owner's reference +   *)
(*            the reference captured by the guard closure                  *)
(*   guardRc  strong count of Arc<GuardInner>: the owner's Guard, every    *)
(*            FlushGuard (stand-alone or inside a wait-mode SlotGuard) and, *)
(*            transiently, the reference upgraded inside DropAll::drop     *)
(*   closure  the Option<Box<FnOnce>> inside the mutex: present | taken    *)
(*            | gone (dropped together with GuardInner)                    *)
(*   mutex    holder of the GuardInner mutex (DropAll::drop calls the      *)
(*            closure while holding it)                                    *)
(* One atomic reference-count operation per action:                        *)
(*   drop(owner)   = DropOwner1 (valueRc--) . DropOwner2 (guardRc--)        *)
(*                   (field order of Parent)                               *)
(*   drop(handle)  = DropHandle (Arc<AppendAndCloseOnDrop> count--; the    *)
(*                   last one continues with DropOwner1 . DropOwner2)      *)
(*   drop(flush g) = DropGuard (guardRc--)                                  *)
(*   drop(force g) = FUpgrade . FTake (lock, take) . FCall (valueRc--)      *)
(*                   . FRelease (unlock, guardRc--)                         *)
(*   drop(slot g)  = SBegin (the guard's drop has begun: its value is being *)
(*                   closed - user code, arbitrarily slow - nothing is     *)
(*                   sent and the flush guard is still held) . SSend       *)
(*                   (closed value into the oneshot) . SRelease (flush     *)
(*                   guard field, wait mode only)                          *)
(* A drop is a drop whether it is an ordinary `drop`, the end of a scope    *)
(* or the unwinding of a panic of the thread that holds the object: the    *)
(* property makes no exception, so the model has one set of drop actions   *)
(* and the generators / the harness realise each of them in both ways      *)
(* (history operation DropUnwind, `unwind` step lists, scenario op dropu). *)
(* guardRc reaching 0 drops GuardInner and with it a closure that is still *)
(* present (valueRc--).  Whoever brings valueRc to 0 runs the emission in   *)
(* its own thread: the entry is closed field by field (EmitRead(s) takes   *)
(* slot s with try_recv semantics) and then appended (EmitAppend).          *)
(*                                                                         *)
(* Looking at a guard (Debug-formatting a FlushGuard, an OnParentDrop or a  *)
(* SlotGuard, which may briefly take the GuardInner mutex) is a stuttering *)
(* step: no action here (an always-enabled stutter would hide a drop that  *)
(* can never finish from the deadlock check); the free-running "observer"  *)
(* scenarios and the Observe event of KeepAliveTrace.tla cover it.          *)
(*                                                                         *)
(* PROPERTY LAYER (bottom of the module): formulas over                    *)
(* started/ended drops, the number of appends and the appended content -   *)
(* nothing else.  TLC checks them for every interleaving.                  *)
(***************************************************************************)
EXTENDS Naturals, Integers, Sequences, FiniteSets, TLC

CONSTANTS
    MaxG,         \* stand-alone flush guards
    MaxF,         \* force-flush guards
    MaxH,         \* handles (handle() + clones); 0 = handle() is never used
    NSlots,       \* slots of the entry (0..2)
    Modes,        \* modes a slot may be opened in, subset of {"wait", "discard"}
    MaxVer,       \* mutations through the owner / the handles
    MaxSV,        \* mutations through each slot guard
    MaxInflight,  \* threads: drops that may be in progress at the same time
    WaitData,     \* BOOLEAN: the owner may call wait_for_data
    PreG, PreF, PreH, \* sets of numbers: objects that exist in the initial state
    PreS1, PreS2  \* subsets of {"none", "wait", "discard"}: initial state of slot 1 / slot 2

G == 1..MaxG
F == 1..MaxF
H == 1..MaxH
S == 1..NSlots
O == <<"o", 0>>
Nobody == <<"-", 0>>

VARIABLES
    opc,      \* owner: live | handles | d_value | d_guard | done
    lastH,    \* the handle whose drop runs the owner's drop (0: none)
    hst,      \* handle: none | live | dropping | done
    valueRc, guardRc, closure, mutex,
    gst,      \* flush guard: none | live | done
    fst,      \* force guard: none | live | upgraded | taken | called | norel | done
    sst,      \* slot guard: unopened | open | closing | sent | done
    smode,    \* wait | discard
    sval,     \* value held by the slot guard (number of mutations through it)
    chan,     \* oneshot: -1 empty, else the closed value
    rxst,     \* receiver: open | taken (by wait_for_data or by the closing entry)
    data,     \* Slot::data after wait_for_data (-1 none)
    ver,      \* value of the owner's field (number of mutations)
    em,       \* emission: no | closing | done
    emIdx,    \* next slot the closing entry reads
    emBy,     \* the object whose drop runs the emission
    emVer,    \* owner field as closed
    emSlot,   \* slot content as closed: -2 not read, -1 absent, else the value
    emitted,  \* number of EntrySink::append calls
    snapB,    \* ghost: slot guards whose drop had ended when the entry began to close
    snapA,    \* ghost: slot guards whose drop had started when the entry was appended
    forceA    \* ghost: some force guard's drop had started when the entry was appended

ovars == <<opc, lastH, hst>>
emA   == <<em, emIdx, emBy, emVer, snapB>>
emB   == <<emSlot, emitted, snapA, forceA>>
svars == <<sst, smode, sval, chan, rxst, data>>
vars  == <<ovars, valueRc, guardRc, closure, mutex, gst, fst, svars, ver, emA, emB>>

Busy(o) == em = "closing" /\ emBy = o

-----------------------------------------------------------------------------
(* started / ended drops: the vocabulary of the property layer *)
OStarted == opc \notin {"live", "handles"}
OEnded == opc = "done" /\ ~Busy(O)
HStarted(h) == hst[h] \in {"dropping", "done"}
HEnded(h) == hst[h] = "done" /\ (h = lastH => ~Busy(O))
GStarted(g) == gst[g] = "done"
GEnded(g) == gst[g] = "done" /\ ~Busy(<<"g", g>>)
FStarted(f) == fst[f] \notin {"none", "live"}
FEnded(f) == fst[f] = "done"
SStarted(s) == sst[s] \in {"closing", "sent", "done"}
SEnded(s) == sst[s] = "done" /\ ~Busy(<<"s", s>>)
IsWait(s) == sst[s] # "unopened" /\ smode[s] = "wait"

Inflight ==
    (IF lastH = 0 /\ OStarted /\ ~OEnded THEN 1 ELSE 0)
    + Cardinality({x \in H : HStarted(x) /\ ~HEnded(x)})
    + Cardinality({x \in G : GStarted(x) /\ ~GEnded(x)})
    + Cardinality({x \in F : FStarted(x) /\ ~FEnded(x)})
    + Cardinality({x \in S : SStarted(x) /\ ~SEnded(x)})
Quiescent == Inflight = 0
CanStart == Inflight < MaxInflight

-----------------------------------------------------------------------------
Init ==
    \E ng \in PreG, nf \in PreF, nh \in PreH, m1 \in PreS1, m2 \in PreS2 :
      LET sm == <<m1, m2>> IN
        /\ opc = IF nh > 0 THEN "handles" ELSE "live"
        /\ lastH = 0
        /\ hst = [h \in H |-> IF h <= nh THEN "live" ELSE "none"]
        /\ gst = [g \in G |-> IF g <= ng THEN "live" ELSE "none"]
        /\ fst = [f \in F |-> IF f <= nf THEN "live" ELSE "none"]
        /\ sst = [s \in S |-> IF sm[s] = "none" THEN "unopened" ELSE "open"]
        /\ smode = [s \in S |-> IF sm[s] = "none" THEN "discard" ELSE sm[s]]
        /\ valueRc = 2
        /\ guardRc = 1 + ng + Cardinality({s \in S : sm[s] = "wait"})
        /\ closure = "present" /\ mutex = 0
        /\ sval = [s \in S |-> 0] /\ chan = [s \in S |-> -1] /\ rxst = [s \in S |-> "open"]
        /\ data = [s \in S |-> -1]
        /\ ver = 0
        /\ em = "no" /\ emIdx = 0 /\ emBy = Nobody /\ emVer = -1
        /\ emSlot = [s \in S |-> -2] /\ emitted = 0
        /\ snapB = {} /\ snapA = {} /\ forceA = FALSE

(* one strong reference to the entry cell is dropped by object o *)
DecValue(o) ==
    /\ valueRc' = valueRc - 1
    /\ IF valueRc = 1
       THEN /\ em' = "closing" /\ emIdx' = 1 /\ emBy' = o /\ emVer' = ver
            /\ snapB' = {s \in S : SEnded(s)}
       ELSE UNCHANGED emA

(* one strong reference to GuardInner is dropped by object o; the last one drops the closure *)
DecGuard(o) ==
    /\ guardRc' = guardRc - 1
    /\ IF guardRc = 1 /\ closure = "present"
       THEN closure' = "gone" /\ DecValue(o)
       ELSE UNCHANGED <<closure, valueRc, emA>>

-----------------------------------------------------------------------------
(* operations that need the owner (each is one atomic step) *)
Mutate ==
    /\ opc \in {"live", "handles"} /\ ver < MaxVer
    /\ ver' = ver + 1
    /\ UNCHANGED <<ovars, valueRc, guardRc, closure, mutex, gst, fst, svars, emA, emB>>

NextFree(st, D) == {x \in D : st[x] = "none" /\ \A y \in D : y < x => st[y] # "none"}

NewGuard(g) ==
    /\ opc = "live" /\ g \in NextFree(gst, G)
    /\ gst' = [gst EXCEPT ![g] = "live"] /\ guardRc' = guardRc + 1
    /\ UNCHANGED <<ovars, valueRc, closure, mutex, fst, svars, ver, emA, emB>>

NewForce(f) ==
    /\ opc = "live" /\ f \in NextFree(fst, F)
    /\ fst' = [fst EXCEPT ![f] = "live"]
    /\ UNCHANGED <<ovars, valueRc, guardRc, closure, mutex, gst, svars, ver, emA, emB>>

MakeHandle ==
    /\ opc = "live" /\ MaxH >= 1
    /\ opc' = "handles" /\ hst' = [hst EXCEPT ![1] = "live"]
    /\ UNCHANGED <<lastH, valueRc, guardRc, closure, mutex, gst, fst, svars, ver, emA, emB>>

CloneHandle(h) ==
    /\ opc = "handles" /\ h \in NextFree(hst, H) /\ \E x \in H : hst[x] = "live"
    /\ hst' = [hst EXCEPT ![h] = "live"]
    /\ UNCHANGED <<opc, lastH, valueRc, guardRc, closure, mutex, gst, fst, svars, ver, emA, emB>>

OpenSlot(s, m) ==
    /\ opc = "live" /\ sst[s] = "unopened"
    /\ sst' = [sst EXCEPT ![s] = "open"] /\ smode' = [smode EXCEPT ![s] = m]
    /\ guardRc' = IF m = "wait" THEN guardRc + 1 ELSE guardRc
    /\ UNCHANGED <<ovars, valueRc, closure, mutex, gst, fst, sval, chan, rxst, data, ver, emA, emB>>

(* SlotGuard::delay_flush(owner.flush_guard()): the guard is in wait mode from now on, however it was
   opened; a flush guard it already held is released (the owner is alive, so that release emits nothing) *)
DelayFlush(s) ==
    /\ opc = "live" /\ sst[s] = "open" /\ smode[s] = "discard"
    /\ smode' = [smode EXCEPT ![s] = "wait"] /\ guardRc' = guardRc + 1
    /\ UNCHANGED <<ovars, valueRc, closure, mutex, gst, fst, sst, sval, chan, rxst, data, ver, emA, emB>>
(* delay_flush on a guard that is already in wait mode: new flush guard in, old one out - nothing
   changes (a stuttering step: used by the generators only, not part of Next) *)
ReDelayFlush(s) == opc = "live" /\ sst[s] = "open" /\ smode[s] = "wait" /\ UNCHANGED vars

WaitForData(s) ==
    /\ WaitData /\ opc = "live" /\ sst[s] # "unopened" /\ rxst[s] = "open" /\ chan[s] >= 0
    /\ data' = [data EXCEPT ![s] = chan[s]] /\ rxst' = [rxst EXCEPT ![s] = "taken"]
    /\ UNCHANGED <<ovars, valueRc, guardRc, closure, mutex, gst, fst, sst, smode, sval, chan, ver, emA, emB>>

(* through the slot guard *)
MutSlot(s) ==
    /\ sst[s] = "open" /\ sval[s] < MaxSV
    /\ sval' = [sval EXCEPT ![s] = @ + 1]
    /\ UNCHANGED <<ovars, valueRc, guardRc, closure, mutex, gst, fst, sst, smode, chan, rxst, data, ver, emA, emB>>

-----------------------------------------------------------------------------
(* drops *)
DropOwner1 ==
    /\ \/ opc = "live" /\ CanStart
       \/ opc = "d_value"
    /\ opc' = "d_guard"
    /\ DecValue(O)
    /\ UNCHANGED <<lastH, hst, guardRc, closure, mutex, gst, fst, svars, ver, emB>>

DropOwner2 ==
    /\ opc = "d_guard" /\ ~Busy(O)
    /\ opc' = "done"
    /\ hst' = IF lastH # 0 THEN [hst EXCEPT ![lastH] = "done"] ELSE hst
    /\ DecGuard(O)
    /\ UNCHANGED <<lastH, mutex, gst, fst, svars, ver, emB>>

DropHandle(h) ==
    /\ hst[h] = "live" /\ CanStart
    /\ IF \E x \in H \ {h} : hst[x] = "live"
       THEN hst' = [hst EXCEPT ![h] = "done"] /\ UNCHANGED <<opc, lastH>>
       ELSE hst' = [hst EXCEPT ![h] = "dropping"] /\ opc' = "d_value" /\ lastH' = h
    /\ UNCHANGED <<valueRc, guardRc, closure, mutex, gst, fst, svars, ver, emA, emB>>

DropGuard(g) ==
    /\ gst[g] = "live" /\ CanStart
    /\ gst' = [gst EXCEPT ![g] = "done"]
    /\ DecGuard(<<"g", g>>)
    /\ UNCHANGED <<ovars, mutex, fst, svars, ver, emB>>

FUpgrade(f) ==
    /\ fst[f] = "live" /\ CanStart
    /\ IF guardRc > 0
       THEN guardRc' = guardRc + 1 /\ fst' = [fst EXCEPT ![f] = "upgraded"]
       ELSE guardRc' = guardRc /\ fst' = [fst EXCEPT ![f] = "done"]
    /\ UNCHANGED <<ovars, valueRc, closure, mutex, gst, svars, ver, emA, emB>>

FTake(f) ==
    /\ fst[f] = "upgraded" /\ mutex = 0
    /\ IF closure = "present"
       THEN closure' = "taken" /\ mutex' = f /\ fst' = [fst EXCEPT ![f] = "taken"]
       ELSE UNCHANGED <<closure, mutex>> /\ fst' = [fst EXCEPT ![f] = "norel"]
    /\ UNCHANGED <<ovars, valueRc, guardRc, gst, svars, ver, emA, emB>>

FCall(f) ==
    /\ fst[f] = "taken"
    /\ fst' = [fst EXCEPT ![f] = "called"]
    /\ DecValue(<<"f", f>>)
    /\ UNCHANGED <<ovars, guardRc, closure, mutex, gst, svars, ver, emB>>

FRelease(f) ==
    /\ fst[f] \in {"called", "norel"} /\ ~Busy(<<"f", f>>)
    /\ mutex' = IF fst[f] = "called" THEN 0 ELSE mutex
    /\ fst' = [fst EXCEPT ![f] = "done"]
    /\ DecGuard(<<"f", f>>)
    /\ UNCHANGED <<ovars, gst, svars, ver, emB>>

SBegin(s) ==
    /\ sst[s] = "open" /\ CanStart
    /\ sst' = [sst EXCEPT ![s] = "closing"]
    /\ UNCHANGED <<ovars, valueRc, guardRc, closure, mutex, gst, fst, smode, sval, chan, rxst, data, ver, emA, emB>>

SSend(s) ==
    /\ sst[s] = "closing"
    /\ chan' = IF rxst[s] = "open" THEN [chan EXCEPT ![s] = sval[s]] ELSE chan
    /\ sst' = [sst EXCEPT ![s] = IF smode[s] = "wait" THEN "sent" ELSE "done"]
    /\ UNCHANGED <<ovars, valueRc, guardRc, closure, mutex, gst, fst, smode, sval, rxst, data, ver, emA, emB>>

SRelease(s) ==
    /\ sst[s] = "sent"
    /\ sst' = [sst EXCEPT ![s] = "done"]
    /\ DecGuard(<<"s", s>>)
    /\ UNCHANGED <<ovars, mutex, gst, fst, smode, sval, chan, rxst, data, ver, emB>>

-----------------------------------------------------------------------------
(* the emission, in the thread of emBy *)
EmitRead ==
    /\ em = "closing" /\ emIdx <= NSlots
    /\ LET s == emIdx IN
        /\ emSlot' = [emSlot EXCEPT ![s] = IF data[s] >= 0 THEN data[s]
                                           ELSE IF rxst[s] = "open" /\ chan[s] >= 0 THEN chan[s]
                                           ELSE -1]
        /\ rxst' = [rxst EXCEPT ![s] = "taken"]
    /\ emIdx' = emIdx + 1
    /\ UNCHANGED <<ovars, valueRc, guardRc, closure, mutex, gst, fst, sst, smode, sval, chan, data, ver,
                   em, emBy, emVer, snapB, emitted, snapA, forceA>>

EmitAppend ==
    /\ em = "closing" /\ emIdx > NSlots
    /\ em' = "done" /\ emitted' = emitted + 1
    /\ snapA' = {s \in S : SStarted(s)}
    /\ forceA' = \E f \in F : FStarted(f)
    /\ UNCHANGED <<ovars, valueRc, guardRc, closure, mutex, gst, fst, svars, ver, emIdx, emBy, emVer, snapB, emSlot>>

Step ==
    \/ Mutate \/ MakeHandle
    \/ \E g \in G : NewGuard(g) \/ DropGuard(g)
    \/ \E f \in F : NewForce(f) \/ FUpgrade(f) \/ FTake(f) \/ FCall(f) \/ FRelease(f)
    \/ \E h \in H : CloneHandle(h) \/ DropHandle(h)
    \/ \E s \in S : (\E m \in Modes : OpenSlot(s, m)) \/ DelayFlush(s) \/ WaitForData(s) \/ MutSlot(s) \/ SBegin(s) \/ SSend(s) \/ SRelease(s)
    \/ DropOwner1 \/ DropOwner2
    \/ EmitRead \/ EmitAppend

(* explicit stuttering at quiescence: with it, a TLC "deadlock" is a drop that can never finish *)
Idle == Quiescent /\ UNCHANGED vars

Next == Step \/ Idle
Spec == Init /\ [][Next]_vars

-----------------------------------------------------------------------------
TypeOK ==
    /\ opc \in {"live", "handles", "d_value", "d_guard", "done"}
    /\ lastH \in 0..MaxH
    /\ hst \in [H -> {"none", "live", "dropping", "done"}]
    /\ valueRc \in 0..2 /\ guardRc \in 0..(1 + MaxG + MaxF + NSlots)
    /\ closure \in {"present", "taken", "gone"} /\ mutex \in {0} \cup F
    /\ gst \in [G -> {"none", "live", "done"}]
    /\ fst \in [F -> {"none", "live", "upgraded", "taken", "called", "norel", "done"}]
    /\ sst \in [S -> {"unopened", "open", "closing", "sent", "done"}]
    /\ smode \in [S -> {"wait", "discard"}]
    /\ sval \in [S -> 0..MaxSV] /\ chan \in [S -> -1..MaxSV] /\ data \in [S -> -1..MaxSV]
    /\ rxst \in [S -> {"open", "taken"}]
    /\ ver \in 0..MaxVer
    /\ em \in {"no", "closing", "done"} /\ emIdx \in 0..(NSlots + 1)
    /\ emVer \in -1..MaxVer /\ emSlot \in [S -> -2..MaxSV] /\ emitted \in 0..2
    /\ snapB \subseteq S /\ snapA \subseteq S /\ forceA \in BOOLEAN

(* the counts are what the Rust objects hold *)
RcOK ==
    /\ valueRc = (IF opc \in {"live", "handles", "d_value"} THEN 1 ELSE 0)
                 + (IF closure = "present" \/ (closure = "taken" /\ \E f \in F : fst[f] = "taken") THEN 1 ELSE 0)
    /\ guardRc = (IF opc = "done" THEN 0 ELSE 1)
                 + Cardinality({g \in G : gst[g] = "live"})
                 + Cardinality({s \in S : IsWait(s) /\ sst[s] \in {"open", "closing", "sent"}})
                 + Cardinality({f \in F : fst[f] \in {"upgraded", "taken", "called", "norel"}})
    /\ (mutex # 0 <=> \E f \in F : fst[f] \in {"taken", "called"})
    /\ (em = "no" <=> valueRc > 0)

-----------------------------------------------------------------------------
(***************************************************************************)
(* PROPERTY LAYER (C06, C13 as stated).  Only started/ended drops, the      *)
(* number of appends and the appended content occur below.                 *)
(***************************************************************************)
GuardsStarted == (\A g \in G : gst[g] # "none" => GStarted(g)) /\ (\A s \in S : IsWait(s) => SStarted(s))
GuardsEnded   == (\A g \in G : gst[g] # "none" => GEnded(g)) /\ (\A s \in S : IsWait(s) => SEnded(s))
(* owner and every handle dropped, and all flush guards dropped or some force guard dropped *)
CondStarted == OStarted /\ (GuardsStarted \/ \E f \in F : FStarted(f))
CondEnded   == OEnded /\ (GuardsEnded \/ \E f \in F : FEnded(f))

(* C06 never twice *)
AtMostOnce == emitted <= 1
(* C06 never earlier: the entry is not even closed before the enabling drops have begun *)
NeverEarly == em # "no" => CondStarted
(* C06 at the right moment / never not at all: whenever no drop is in progress, the entry has
   been appended iff the condition holds *)
RightMoment == Quiescent => em # "closing" /\ emitted = (IF CondEnded THEN 1 ELSE 0)
(* C06 every mutation through the owner / the handles is in the appended entry *)
VerOK == em # "no" => emVer = ver
(* C13 *)
SlotOK ==
    em = "done" =>
        \A s \in S :
            \* never partial: what is appended is the value as last mutated through the guard
            /\ emSlot[s] >= 0 => emSlot[s] = sval[s] /\ SStarted(s)
            \* guard dropped before the entry was closed => present
            /\ s \in snapB => emSlot[s] >= 0
            \* guard dropped only after the entry was appended (or never opened) => absent
            /\ s \notin snapA => emSlot[s] = -1
            \* wait mode: present unless a force guard released the entry first
            /\ (IsWait(s) /\ ~forceA) => emSlot[s] >= 0
(* C13 wait mode: the entry is appended only after the slot guard has been dropped *)
WaitHolds == (em # "no" /\ ~(\E f \in F : FStarted(f))) => \A s \in S : IsWait(s) => chan[s] >= 0 \/ data[s] >= 0 \/ emSlot[s] >= 0

PropertyLayer == AtMostOnce /\ NeverEarly /\ RightMoment /\ VerOK /\ SlotOK /\ WaitHolds

(* property-level observation at a quiescent point (used by the replay generators) *)
PObs == <<IF CondEnded THEN 1 ELSE 0, ver, {s \in S : SEnded(s)}, sval, emitted>>
=============================================================================
